//! C15 — context-sensitive parsing delivers the nearest context and honours configuration.
//! Reference-model monitor: the context is passed down the tree in the model; every node, select
//! closure, fold callback and zero-width probe observes `ctx()`; configured parsers (just(..).configure(seq),
//! repeated().configure(exactly(n)), try_configure) are compared with the reference semantics.

use crate::classes;
use crate::drv::*;
use crate::ev::*;
use crate::gram::*;
use crate::mk::*;
use crate::model::Outcome;
use crate::par::for_each_index;
use crate::rng::Rng;
use crate::val::Val;
use chumsky::error::Rich;

fn ctx_ctors() -> Vec<Ctor> {
    vec![
        ctor(1, |mut k| G::un(Op::WithCtx, k.remove(0)).with(|p| p.cs = vec!['a', 'b'])),
        ctor(1, |mut k| G::un(Op::WithCtx, k.remove(0)).with(|p| p.cs = vec!['é'])),
        ctor(1, |mut k| G::un(Op::MapCtx, k.remove(0)).with(|p| p.cs = vec!['a'])),
        ctor(2, |k| G::new(Op::ThenWithCtx, k)),
        ctor(2, |k| G::new(Op::IgnoreWithCtx, k)),
        ctor(1, |mut k| G::un(Op::CtxRep, k.remove(0))),
        ctor(1, |mut k| G::un(Op::CtxRep, k.remove(0)).with(|p| p.ok = false)),
        // the configured repetition used as a plain parser (no collect), as a counter, and over static bounds it must replace
        ctor(1, |mut k| G::un(Op::CtxRep, k.remove(0)).with(|p| p.flav = Flav::Unit)),
        ctor(1, |mut k| G::un(Op::CtxRep, k.remove(0)).with(|p| p.flav = Flav::Count)),
        ctor(1, |mut k| G::un(Op::CtxRep, k.remove(0)).with(|p| p.lead = true)),
        // a range from the context (at_least(n/2).at_most(n)): the repetition may stop on a failing item
        ctor(1, |mut k| G::un(Op::CtxRep, k.remove(0)).with(|p| p.trail = true)),
        ctor(1, |mut k| {
            G::un(Op::CtxRep, k.remove(0)).with(|p| {
                p.trail = true;
                p.flav = Flav::Unit
            })
        }),
        ctor(1, |mut k| {
            G::un(Op::CtxRep, k.remove(0)).with(|p| {
                p.lead = true;
                p.flav = Flav::Unit
            })
        }),
    ]
}

pub fn basis() -> Basis {
    let mut b = classes::k01_core(true);
    b.leaves.push(G::leaf(Op::Probe));
    b.leaves.push(G::leaf(Op::CtxJust));
    b.ctors.extend(classes::rep_light());
    b.ctors.extend(ctx_ctors());
    b
}

fn providers(g: &G) -> usize {
    g.count_op(&|o| matches!(o, Op::WithCtx | Op::ThenWithCtx | Op::IgnoreWithCtx | Op::MapCtx))
}
fn readers(g: &G) -> usize {
    g.count_op(&|o| matches!(o, Op::CtxJust | Op::CtxRep | Op::Probe))
}

fn count_ctx_obs(v: &Val, n: &mut u64, nonunit: &mut u64) {
    match v {
        Val::Obs { ctx, .. } => {
            *n += 1;
            if **ctx != Val::Unit {
                *nonunit += 1;
            }
        }
        Val::Node { v, .. } | Val::Tag(_, v) | Val::Opt(Some(v)) => count_ctx_obs(v, n, nonunit),
        Val::Seq(x) => x.iter().for_each(|y| count_ctx_obs(y, n, nonunit)),
        Val::Pair(a, b) => {
            count_ctx_obs(a, n, nonunit);
            count_ctx_obs(b, n, nonunit)
        }
        Val::FoldW { acc, x, .. } => {
            count_ctx_obs(acc, n, nonunit);
            count_ctx_obs(x, n, nonunit)
        }
        _ => {}
    }
}

fn counters(acc: &mut Acc, m: &Outcome, r: &RunOut) {
    if let Some(v) = &r.out {
        let (mut n, mut nu) = (0, 0);
        count_ctx_obs(v, &mut n, &mut nu);
        acc.count("context_observations_in_outputs", n);
        acc.count("context_observations_under_a_provider", nu);
        acc.count("accepted_after_backtracking", (m.stats.backtracks > 0) as u64);
    }
    acc.count("probe_context_observations", r.trace.iter().filter(|p| p.ctx != Val::Unit).count() as u64);
    if m.out.is_none() {
        acc.count("rejected_with_try_configure_error", m.pend.as_ref().map(|p| p.alt_users.iter().any(|u| u.starts_with('Q'))).unwrap_or(false) as u64);
    }
}

pub fn spec() -> Spec {
    Spec {
        prop: "C15",
        what: What { value: true, trace: true, state: true, primary: true, no_found: true, ..Default::default() },
        nontrivial: |m| m.out.is_some() && m.prefix_end.map(|e| e > 0).unwrap_or(false),
        amb: |m| m.stats.ambiguous_a1 || m.stats.ambiguous_a2,
        counters,
        signature: no_sig,
        slice: false,
        obs: true,
        also_check: true,
    }
}

fn on_kind<'s, I: Kind<'s>>(acc: &mut Acc, sp: &Spec, g: &G, bufs: &'s [Buf], step: usize, enumerated: bool)
where
    I::Span: Clone + 's,
{
    let p = build::<I, Rich<'s, char, I::Span>>(g, Opts { wrap: true, slice: false, obs: true, track: false, clone_iter: false });
    for buf in bufs.iter().step_by(step) {
        model_case::<I, Rich<'s, char, I::Span>>(acc, sp, g, &p, buf, enumerated);
    }
}

/// Hand-listed families named by the property.
fn families() -> Vec<G> {
    use Op::*;
    let any = || G::leaf(Any);
    let rep = |g: G, lo: u8, hi: Option<u8>, f: Flav| G::rep(g, lo, hi, f);
    let mut v: Vec<G> = vec![];
    // length-prefixed: the number of a's gives the number of following items
    // (items that can fail after having consumed a token: "bé" against "ba", b·a against "bb")
    for item in [G::just('b'), G::set(OneOf, "bé"), G::bin(Then, G::just('b'), G::un(OrNot, G::just('a'))), G::just_seq("bé"), G::bin(Then, G::just('b'), G::just('a'))] {
        for (tryv, ranged) in [(true, false), (false, false), (true, true)] {
            let body = G::un(CtxRep, item.clone()).with(|p| {
                p.ok = tryv;
                p.trail = ranged
            });
            v.push(G::bin(ThenWithCtx, rep(G::just('a'), 0, None, Flav::Str), body.clone()));
            v.push(G::bin(Then, G::bin(IgnoreWithCtx, rep(G::just('a'), 1, Some(3), Flav::Vec), body.clone()), rep(any(), 0, None, Flav::Str)));
            // several length-prefixed records in a row: the provider runs once per record
            v.push(rep(G::bin(ThenWithCtx, rep(G::just('a'), 1, None, Flav::Str), body.clone()), 0, None, Flav::Vec));
            // inside a choice: the first alternative's context must not leak into the second
            v.push(G::bin(Or, G::bin(Then, G::bin(ThenWithCtx, rep(G::just('a'), 0, None, Flav::Str), body.clone()), G::just('é')), G::bin(ThenWithCtx, rep(any(), 0, Some(1), Flav::Str), G::bin(Then, G::leaf(Probe), rep(any(), 0, None, Flav::Unit)))));
        }
    }
    // delimiter-echo (raw-string-like): the closing delimiter repeats the opening one
    for open in [rep(G::set(OneOf, "ab"), 1, Some(2), Flav::Str), G::un(ToSlice, rep(G::just('a'), 1, None, Flav::Unit)), G::just_seq("ab"), G::bin(Or, G::just_seq("ab"), G::just('a'))] {
        let body = rep(G::bin(AndIs, any(), G::un(Not, G::leaf(CtxJust))), 0, None, Flav::Str);
        v.push(G::bin(ThenWithCtx, open.clone(), G::bin(Then, body.clone(), G::leaf(CtxJust))));
        v.push(G::bin(IgnoreWithCtx, open.clone(), G::new(Delim, vec![body.clone(), G::just('é'), G::leaf(CtxJust)])));
        v.push(rep(G::bin(ThenWithCtx, open.clone(), G::bin(Then, G::just('é'), G::leaf(CtxJust))), 0, None, Flav::Vec));
    }
    // indentation-like: every line starts with the indent captured by the block header
    let indent = rep(G::just('a'), 0, None, Flav::Str);
    let line = G::bin(Then, G::leaf(CtxJust), G::bin(Then, G::just('b'), G::un(OrNot, G::just('é'))));
    v.push(G::bin(ThenWithCtx, indent.clone(), G::bin(Then, G::just('b'), rep(line.clone(), 0, None, Flav::Vec))));
    // nested providers: inner with_ctx / map_ctx shadow the outer one for their sub-parser only
    let nested = G::bin(ThenWithCtx, rep(G::just('a'), 0, Some(2), Flav::Str), G::bin(Then, G::leaf(Probe), G::bin(Then, G::un(WithCtx, G::bin(Then, G::leaf(Probe), G::leaf(CtxJust))).with(|p| p.cs = vec!['b']), G::bin(Then, G::leaf(Probe), G::un(MapCtx, G::bin(Then, G::leaf(Probe), any())).with(|p| p.cs = vec!['z'])))));
    v.push(nested.clone());
    v.push(rep(nested, 0, None, Flav::Vec));
    // recursion: the context provided at each level is what that level's readers see
    let r = G::leaf(Ref).with(|p| p.n = 1);
    let level = G::bin(Or, G::bin(ThenWithCtx, G::set(OneOf, "ab"), G::bin(Then, r.clone(), G::leaf(CtxJust))), G::bin(Then, G::just('é'), G::leaf(Probe)));
    v.push(G::un(Rec, level.clone()).with(|p| p.n = 1));
    v.push(G::un(Rec, level).with(|p| {
        p.n = 1;
        p.ok = false
    }));
    v.into_iter().filter(|g| g.well_formed()).map(|g| g.numbered()).collect()
}

pub fn run(cx: &RunCtx) -> i32 {
    let alpha: Vec<char> = vec!['a', 'b', 'é'];
    let max_len = cx.t(4, 5);
    let bufs: Vec<Buf> = all_inputs(&alpha, max_len).iter().map(|w| Buf::new(w)).collect();
    let b = basis();
    let size = cx.t(5, 6);
    let grammars: Vec<G> = b.up_to(size).into_iter().filter(|g| providers(g) >= 1 && readers(g) >= 1).collect();
    let n_enum = grammars.len();
    let sp = spec();
    let mut acc = for_each_index(grammars.len(), cx.threads, 8, |acc, gi| {
        let g = &grammars[gi];
        on_kind::<&str>(acc, &sp, g, &bufs, 1, true);
        if gi % 3 == 0 {
            on_kind::<StreamK>(acc, &sp, g, &bufs, 2, true);
        }
    });
    acc.count("enumerated_grammars", n_enum as u64);

    let fam = families();
    let n_fam = fam.len();
    let fam_bufs: Vec<Buf> = all_inputs(&alpha, cx.t(7, 8)).iter().map(|w| Buf::new(w)).collect();
    let facc = for_each_index(fam.len() * 16, cx.threads, 1, |acc, i| {
        let g = &fam[i / 16];
        let shard: Vec<&Buf> = fam_bufs.iter().skip(i % 16).step_by(16).collect();
        let p = build::<&str, Rich<char>>(g, Opts { wrap: true, slice: false, obs: true, track: false, clone_iter: false });
        for buf in shard {
            if let Some((m, _)) = model_case::<&str, Rich<char>>(acc, &sp, g, &p, buf, true) {
                acc.count("family_cases", 1);
                acc.count("family_accepted", m.out.is_some() as u64);
            }
        }
    });
    acc.merge(facc);
    acc.count("family_grammars", n_fam as u64);

    // configurable parsers configured by reference vs owned vs static (statically typed, model-free)
    let rwords: Vec<String> = all_inputs(&alpha, cx.t(6, 7)).iter().map(|w| w.iter().collect()).collect();
    let racc0 = for_each_index(16, cx.threads, 1, |acc, shard| {
        let mine: Vec<String> = rwords.iter().skip(shard).step_by(16).cloned().collect();
        super::c15ref::family(acc, &mine);
    });
    acc.merge(racc0);
    let iwords: Vec<String> = all_inputs(&['a', '1', '2', 'x'], cx.t(6, 7)).iter().map(|w| w.iter().collect()).collect();
    let iacc = for_each_index(16, cx.threads, 1, |acc, shard| {
        let mine: Vec<String> = iwords.iter().skip(shard).step_by(16).cloned().collect();
        super::c15ref::iter_family(acc, &mine);
    });
    acc.merge(iacc);

    // C01-class grammars with providers inserted at random nodes and probes everywhere
    let n_rand = cx.t(20_000, 400_000);
    let seed = cx.seed;
    let racc = for_each_index(n_rand, cx.threads, 64, |acc, i| {
        let mut rng = Rng::derive(seed, 0xC15, i as u64);
        let sz = rng.range(size + 1, 13);
        let g = b.random(&mut rng, sz);
        if providers(&g) == 0 {
            return;
        }
        let bufs: Vec<Buf> = (0..5).map(|_| Buf::new(&random_input(&mut rng, &SIGMA_PLUS[..5], 9))).collect();
        if i % 2 == 0 {
            on_kind::<&str>(acc, &sp, &g, &bufs, 1, false);
        } else {
            on_kind::<&[char]>(acc, &sp, &g, &bufs, 1, false);
        }
    });
    acc.merge(racc);
    acc.count("random_grammars", n_rand as u64);

    finish(
        cx,
        acc,
        Finish {
            rule: format!("every grammar with <= {size} nodes over the K02 basis + context providers (with_ctx x2, map_ctx, then_with_ctx, ignore_with_ctx) + context readers (just(..).configure(seq(ctx)), repeated().configure(exactly(len(ctx))), repeated().try_configure(..) with an error case, probes) containing >= 1 provider and >= 1 reader x every input <= {max_len} over {{a,b,é}}, every node additionally observing ctx() in a map_with; {n_fam} hand-listed family grammars (length-prefixed records incl. a^n b^n, delimiter-echo / raw-string-like, indentation-like, nested and shadowing providers, providers inside repetitions/choices/recursion) x every input <= {} ; {n_rand} random grammars x 5 inputs; parse and check mode; a statically typed family (delimiter echo, length-prefixed with exact and ranged counts) in which the configurable parser is configured by reference ((&p).configure(..)), compared with the owned formulation and with the statically configured parser, value-building, under to_slice() and under ignored(), x every input <= {}. Each observation must equal the value supplied by the nearest enclosing provider for this attempt (the model passes the context down the tree); configured parsers must accept exactly what the reference semantics of the static configuration accepts. Non-trivial: accepted non-empty input", cx.t(7, 8), cx.t(6, 7)),
            exhaustive: false,
            exhaustive_note: format!("grammars <= {size} nodes with a provider and a reader x inputs <= {max_len}: complete"),
            assumptions: vec!["context values are the universal Val type; `len(ctx)` / `text(ctx)` are the flattened token text of the provider's output".into()],
            require: vec![("context_observations_under_a_provider".into(), 100_000), ("probe_context_observations".into(), 1000), ("accepted_after_backtracking".into(), 1000), ("rejected_with_try_configure_error".into(), 100), ("family_accepted".into(), 1000), ("by_reference_cases".into(), 10_000), ("by_reference_accepting_cases".into(), 1000)],
            min_evaluations: 10_000,
        },
    )
}
