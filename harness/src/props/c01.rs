//! C01 — PEG semantics of the core combinators: reference-model monitor over acceptance, output
//! value and the extent of every sub-parser.

use crate::classes;
use crate::drv::*;
use crate::ev::*;
use crate::gram::*;
use crate::mk::*;
use crate::par::for_each_index;
use crate::rng::{hash64, Rng};
use chumsky::error::Rich;
use serde_json::json;

fn one<'s, I: Kind<'s>>(acc: &mut Acc, g: &G, p: &BP<'s, I, Rich<'s, char, I::Span>>, buf: &'s Buf, enumerated: bool)
where
    I::Span: Clone + 's,
{
    let m = model_of(g, &buf.chars, true);
    acc.evaluations += 1;
    if m.pathological {
        acc.pathological += 1;
        return;
    }
    let r = guarded(|| run_parse(p, buf, 0, STEP_BUDGET));
    let r = match settle(acc, "C01", g, &buf.chars, I::NAME, &m, r) {
        Some(r) => r,
        None => return,
    };
    let nontrivial = m.stats.backtracks > 0 || m.stats.rejecting_filters > 0;
    if nontrivial {
        if enumerated {
            acc.nontrivial_enum += 1;
        } else {
            acc.nontrivial_rand.insert(hash64(format!("{}|{}", g.show(), buf.text).as_bytes()));
        }
    }
    acc.count("backtracks_in_model", m.stats.backtracks);
    acc.count("backtracks_after_consuming", m.stats.deep_backtracks);
    acc.count("rejecting_filters", m.stats.rejecting_filters);
    acc.count("accepted", m.out.is_some() as u64);
    acc.count("parser_rewinds_observed", r.rewinds);
    let amb = m.stats.ambiguous_a1 || m.stats.ambiguous_a2;
    if let Some(d) = judge::<I>(buf, &m, &r, What { value: true, trace: true, state: true, ..Default::default() }) {
        if amb {
            acc.ambiguous += 1;
        } else {
            acc.viol(Viol::case(format!("C01: {}", d), g, &buf.chars, json!({"kind": I::NAME})));
        }
    }
    if nontrivial && m.out.is_some() && buf.n() >= 2 && acc.samples.len() < 2 && acc.evaluations % 97 == 0 {
        acc.samples.push(json!({"grammar": g.show(), "input": buf.text, "kind": I::NAME, "accepted": true, "model_backtracks": m.stats.backtracks, "output": r.out.as_ref().map(|v| v.show())}));
    }
    acc.sample(50_000, || json!({"grammar": g.show(), "input": buf.text, "kind": I::NAME, "accepted": m.out.is_some(), "output": r.out.as_ref().map(|v| v.show())}));
}

pub fn run(cx: &RunCtx) -> i32 {
    let alpha: Vec<char> = vec!['a', 'b', 'é'];
    let max_len = cx.t(4, 5);
    let inputs = all_inputs(&alpha, max_len);
    let bufs: Vec<Buf> = inputs.iter().map(|w| Buf::new(w)).collect();
    let mut basis = classes::k01(true);
    basis.leaves.push(G::leaf(Op::Probe));
    let size = cx.t(4, 5);
    let grammars = basis.up_to(size);
    let n_enum = grammars.len();

    let mut acc = for_each_index(grammars.len(), cx.threads, 8, |acc, gi| {
        let g = &grammars[gi];
        let p = build::<&str, Rich<char>>(g, Opts::default());
        for buf in &bufs {
            one::<&str>(acc, g, &p, buf, true);
        }
        // the same grammar through other input kinds on a sample of the inputs
        if gi % 4 == 0 {
            let ps = build::<&[char], Rich<char>>(g, Opts::default());
            let pm = build::<StreamK, Rich<char>>(g, Opts::default());
            for buf in bufs.iter().step_by(7) {
                one::<&[char]>(acc, g, &ps, buf, true);
                one::<StreamK>(acc, g, &pm, buf, true);
            }
        }
    });
    acc.count("enumerated_grammars", n_enum as u64);
    acc.count("enumerated_inputs", bufs.len() as u64);

    // random grammars beyond the bound, on random inputs over the extended alphabet (multi-byte)
    let n_rand = cx.t(20_000, 400_000);
    let mut rbasis = classes::k01(true);
    rbasis.leaves.push(G::leaf(Op::Probe));
    rbasis.ctors.extend(classes::rep_light());
    let seed = cx.seed;
    let racc = for_each_index(n_rand, cx.threads, 64, |acc, i| {
        let mut rng = Rng::derive(seed, 0xC01, i as u64);
        let sz = rng.range(size + 1, 14);
        let g = rbasis.random(&mut rng, sz);
        let bufs: Vec<Buf> = (0..6).map(|_| Buf::new(&random_input(&mut rng, &SIGMA_PLUS, 12))).collect();
        let p = build::<&str, Rich<char>>(&g, Opts::default());
        for buf in &bufs {
            one::<&str>(acc, &g, &p, buf, false);
        }
    });
    acc.merge(racc);
    acc.count("random_grammars", n_rand as u64);

    finish(
        cx,
        acc,
        Finish {
            rule: format!(
                "every well-formed grammar with <= {size} nodes over the K01 basis (12 leaves incl. a probe, 24 constructors) x every input of length <= {max_len} over {{a,b,é}} on &str (every 4th grammar also on &[char] and Stream for every 7th input), plus {n_rand} seeded random grammars of {}..14 nodes x 6 random inputs (<= 12 tokens over a 7-character alphabet with 2- and 4-byte characters and a combining mark); a case is non-trivial when the reference evaluation backtracked at least once or a filter/try_map rejected; enumerated cases are distinct by construction, random ones are deduplicated by hash",
                size + 1
            ),
            exhaustive: false,
            exhaustive_note: format!("grammars <= {size} nodes x inputs <= {max_len} tokens over 3 letters: complete"),
            assumptions: vec![
                "oracle = reference PEG interpreter written from the property statement (DESIGN Appendix B)".into(),
                "A1/A2 (separator at at_most / lone leading separator) compared leniently and counted as ambiguous".into(),
                "observation through map_with spans at every node, custom() probes and a snapshot Inspector; no hooks in the library".into(),
            ],
            require: vec![("backtracks_after_consuming".into(), 100), ("rejecting_filters".into(), 100), ("accepted".into(), 100)],
            min_evaluations: 10_000,
        },
    )
}
