//! C01 — PEG semantics of the core combinators: reference-model monitor over acceptance, output
//! value and the extent of every sub-parser.

use crate::classes;
use crate::drv::*;
use crate::ev::*;
use crate::gram::*;
use crate::mk::*;
use crate::par::for_each_index;
use crate::rng::{hash64, Rng};
use chumsky::error::Rich;
use chumsky::{IterParser, Parser};
use crate::val::Val;
use serde_json::json;

fn one<'s, I: Kind<'s>>(acc: &mut Acc, g: &G, p: &BP<'s, I, Rich<'s, char, I::Span>>, buf: &'s Buf, enumerated: bool)
where
    I::Span: Clone + 's,
{
    let m = model_of(g, &buf.chars, true);
    acc.evaluations += 1;
    if m.pathological {
        acc.pathological += 1;
        return;
    }
    let r = guarded(|| run_parse(p, buf, 0, STEP_BUDGET));
    let r = match settle(acc, "C01", g, &buf.chars, I::NAME, &m, r) {
        Some(r) => r,
        None => return,
    };
    let nontrivial = m.stats.backtracks > 0 || m.stats.rejecting_filters > 0;
    if nontrivial {
        if enumerated {
            acc.nontrivial_enum += 1;
        } else {
            acc.nontrivial_rand.insert(hash64(format!("{}|{}", g.show(), buf.text).as_bytes()));
        }
    }
    acc.count("backtracks_in_model", m.stats.backtracks);
    acc.count("backtracks_after_consuming", m.stats.deep_backtracks);
    acc.count("rejecting_filters", m.stats.rejecting_filters);
    acc.count("accepted", m.out.is_some() as u64);
    acc.count("parser_rewinds_observed", r.rewinds);
    let amb = m.stats.ambiguous_a1 || m.stats.ambiguous_a2;
    if let Some(d) = judge::<I>(buf, &m, &r, What { value: true, trace: true, state: true, ..Default::default() }) {
        if amb {
            acc.ambiguous += 1;
        } else {
            acc.viol(Viol::case(format!("C01: {}", d), g, &buf.chars, json!({"kind": I::NAME})));
        }
    }
    if nontrivial && m.out.is_some() && buf.n() >= 2 && acc.samples.len() < 2 && acc.evaluations % 97 == 0 {
        acc.samples.push(json!({"grammar": g.show(), "input": buf.text, "kind": I::NAME, "accepted": true, "model_backtracks": m.stats.backtracks, "output": r.out.as_ref().map(|v| v.show())}));
    }
    acc.sample(50_000, || json!({"grammar": g.show(), "input": buf.text, "kind": I::NAME, "accepted": m.out.is_some(), "output": r.out.as_ref().map(|v| v.show())}));
}

// -----------------------------------------------------------------------------------------------
// Statically typed (unboxed, zero-sized, inlined) formulations: the same combinators without `boxed()`
// between them, i.e. the monomorphised `go` of every combinator over concrete children.

type ESX<'s> = Ex<Rich<'s, char>>;

/// `st!((op args..))` builds the AST node and the statically typed parser side by side, with the
/// builder's value conventions (mk.rs, `wrap: false`).
macro_rules! st {
    ((just $c:literal)) => { (G::just($c), chumsky::prelude::just::<_, &str, ESX>($c).map(Val::Tok)) };
    ((seq $s:literal)) => { (G::just_seq($s), chumsky::prelude::just::<_, &str, ESX>($s).map(|s: &str| Val::Str(s.to_string()))) };
    ((any)) => { (G::leaf(Op::Any), chumsky::prelude::any::<&str, ESX>().map(Val::Tok)) };
    ((one_of $s:literal)) => { (G::set(Op::OneOf, $s), chumsky::prelude::one_of::<_, &str, ESX>($s).map(Val::Tok)) };
    ((none_of $s:literal)) => { (G::set(Op::NoneOf, $s), chumsky::prelude::none_of::<_, &str, ESX>($s).map(Val::Tok)) };
    ((end)) => { (G::leaf(Op::End), chumsky::prelude::end::<&str, ESX>().to(Val::Unit)) };
    ((empty)) => { (G::leaf(Op::Empty), chumsky::prelude::empty::<&str, ESX>().to(Val::Unit)) };
    ((then $a:tt $b:tt)) => {{ let (ga, pa) = st!($a); let (gb, pb) = st!($b); (G::bin(Op::Then, ga, gb), pa.then(pb).map(|(a, b)| Val::pair(a, b))) }};
    ((ignore_then $a:tt $b:tt)) => {{ let (ga, pa) = st!($a); let (gb, pb) = st!($b); (G::bin(Op::IgnoreThen, ga, gb), pa.ignore_then(pb)) }};
    ((then_ignore $a:tt $b:tt)) => {{ let (ga, pa) = st!($a); let (gb, pb) = st!($b); (G::bin(Op::ThenIgnore, ga, gb), pa.then_ignore(pb)) }};
    ((or $a:tt $b:tt)) => {{ let (ga, pa) = st!($a); let (gb, pb) = st!($b); (G::bin(Op::Or, ga, gb), pa.or(pb)) }};
    ((and_is $a:tt $b:tt)) => {{ let (ga, pa) = st!($a); let (gb, pb) = st!($b); (G::bin(Op::AndIs, ga, gb), pa.and_is(pb)) }};
    ((padded $a:tt $b:tt)) => {{ let (ga, pa) = st!($a); let (gb, pb) = st!($b); (G::bin(Op::Padded, ga, gb), pa.padded_by(pb)) }};
    ((delim $a:tt $l:tt $r:tt)) => {{ let (ga, pa) = st!($a); let (gl, pl) = st!($l); let (gr, pr) = st!($r); (G::new(Op::Delim, vec![ga, gl, gr]), pa.delimited_by(pl, pr)) }};
    ((choice3 $a:tt $b:tt $c:tt)) => {{ let (ga, pa) = st!($a); let (gb, pb) = st!($b); let (gc, pc) = st!($c); (G::new(Op::ChoiceTup, vec![ga, gb, gc]), chumsky::prelude::choice((pa, pb, pc))) }};
    ((group3 $a:tt $b:tt $c:tt)) => {{ let (ga, pa) = st!($a); let (gb, pb) = st!($b); let (gc, pc) = st!($c); (G::new(Op::Group, vec![ga, gb, gc]), chumsky::prelude::group((pa, pb, pc)).map(|(a, b, c)| Val::Seq(vec![a, b, c]))) }};
    ((or_not $a:tt)) => {{ let (ga, pa) = st!($a); (G::un(Op::OrNot, ga), pa.or_not().map(|o: Option<Val>| Val::Opt(o.map(Box::new)))) }};
    ((not $a:tt)) => {{ let (ga, pa) = st!($a); (G::un(Op::Not, ga), pa.not().to(Val::Unit)) }};
    ((rewind $a:tt)) => {{ let (ga, pa) = st!($a); (G::un(Op::Rewind, ga), pa.rewind()) }};
    ((ignored $a:tt)) => {{ let (ga, pa) = st!($a); (G::un(Op::Ignored, ga), pa.ignored().to(Val::Unit)) }};
    ((rep $a:tt)) => {{ let (ga, pa) = st!($a); (G::rep(ga, 0, None, Flav::Vec), pa.repeated().collect::<Vec<Val>>().map(Val::Seq)) }};
    ((rep1 $a:tt)) => {{ let (ga, pa) = st!($a); (G::rep(ga, 1, None, Flav::Vec), pa.repeated().at_least(1).collect::<Vec<Val>>().map(Val::Seq)) }};
    ((rep_unit $a:tt)) => {{ let (ga, pa) = st!($a); (G::rep(ga, 0, None, Flav::Unit), pa.repeated().to(Val::Unit)) }};
    ((sep $a:tt $b:tt)) => {{ let (ga, pa) = st!($a); let (gb, pb) = st!($b); (G::bin(Op::Sep, ga, gb).with(|p| p.flav = Flav::Vec), pa.separated_by(pb).collect::<Vec<Val>>().map(Val::Seq)) }};
}

fn static_case<'s, P: chumsky::Parser<'s, &'s str, Val, ESX<'s>>>(acc: &mut Acc, g: &G, p: &P, bufs: &'s [Buf]) {
    for buf in bufs {
        let m = crate::model::run_opts(g, &buf.chars, crate::model::St::fresh(0), MODEL_BUDGET, false);
        if m.pathological {
            continue;
        }
        for check in [false, true] {
            acc.evaluations += 1;
            acc.count("static_formulation_cases", 1);
            let r = guarded(|| if check { run_check(p, buf, 0, STEP_BUDGET) } else { run_parse(p, buf, 0, STEP_BUDGET) });
            let r = match settle(acc, "C01", g, &buf.chars, "str (statically typed)", &m, r) {
                Some(r) => r,
                None => continue,
            };
            if m.stats.backtracks > 0 {
                acc.nontrivial_enum += 1;
            }
            if let Some(d) = judge::<&str>(buf, &m, &r, What { value: !check, state: true, primary: true, no_found: true, ..Default::default() }) {
                if !(m.stats.ambiguous_a1 || m.stats.ambiguous_a2) {
                    acc.viol(Viol::case(format!("C01: (statically typed formulation, {}) {}", if check { "check" } else { "parse" }, d), g, &buf.chars, json!({"kind": "str", "static": true})));
                }
            }
        }
    }
}

fn static_family<'s>(acc: &mut Acc, bufs: &'s [Buf]) {
    use crate::val::Val;
    macro_rules! run {
        ($($t:tt),* $(,)?) => {
            $( { let (g, p) = st!($t); let g = g.numbered(); static_case(acc, &g, &p, bufs); acc.count("static_formulations", 1); } )*
        };
    }
    run![
        (then (just 'a') (or_not (any))),
        (or (then (just 'a') (just 'b')) (just 'a')),
        (then (or (seq "ab") (just 'a')) (just 'b')),
        (then (not (just 'a')) (any)),
        (then (and_is (any) (none_of "a")) (rep (any))),
        (then (rewind (seq "ab")) (then (any) (any))),
        (delim (rep (one_of "ab")) (just 'a') (just 'b')),
        (padded (just 'b') (rep (just 'a'))),
        (choice3 (then (just 'a') (just 'a')) (then (just 'a') (just 'b')) (any)),
        (group3 (or_not (just 'a')) (rep (just 'b')) (or_not (just 'é'))),
        (sep (one_of "ab") (just 'é')),
        (then (rep (then (just 'a') (just 'b'))) (or_not (just 'a'))),
        (ignore_then (rep1 (just 'a')) (then_ignore (any) (end))),
        (or (then (rep (just 'a')) (just 'b')) (rep (any))),
        (then (or_not (then (just 'a') (just 'b'))) (then (just 'a') (or_not (just 'é')))),
        (then (rep_unit (or (seq "ab") (just 'a'))) (or (end) (just 'b'))),
        (or (and_is (seq "ab") (then (any) (not (just 'a')))) (then (any) (rep (any)))),
        (then (ignored (rep (none_of "b"))) (or_not (then (just 'b') (rewind (or_not (any)))))),
        (choice3 (delim (just 'a') (just 'a') (just 'a')) (padded (just 'a') (or_not (just 'a'))) (empty)),
        (then (sep (then (just 'a') (or_not (just 'b'))) (just 'é')) (or_not (just 'é'))),
        (then (not (then (just 'a') (just 'a'))) (rep (or (then (just 'a') (just 'b')) (any)))),
        (then_ignore (rep (choice3 (seq "aa") (seq "ab") (just 'b'))) (or (just 'a') (empty))),
    ];
}

pub fn run(cx: &RunCtx) -> i32 {
    let alpha: Vec<char> = vec!['a', 'b', 'é'];
    let max_len = cx.t(4, 5);
    let inputs = all_inputs(&alpha, max_len);
    let bufs: Vec<Buf> = inputs.iter().map(|w| Buf::new(w)).collect();
    let mut basis = classes::k01(true);
    basis.leaves.push(G::leaf(Op::Probe));
    let size = cx.t(4, 5);
    let grammars = basis.up_to(size);
    let n_enum = grammars.len();

    let mut acc = for_each_index(grammars.len(), cx.threads, 8, |acc, gi| {
        let g = &grammars[gi];
        let p = build::<&str, Rich<char>>(g, Opts::default());
        for buf in &bufs {
            one::<&str>(acc, g, &p, buf, true);
        }
        // the same grammar through other input kinds on a sample of the inputs
        if gi % 4 == 0 {
            let ps = build::<&[char], Rich<char>>(g, Opts::default());
            let pm = build::<StreamK, Rich<char>>(g, Opts::default());
            for buf in bufs.iter().step_by(7) {
                one::<&[char]>(acc, g, &ps, buf, true);
                one::<StreamK>(acc, g, &pm, buf, true);
            }
        }
    });
    acc.count("enumerated_grammars", n_enum as u64);
    acc.count("enumerated_inputs", bufs.len() as u64);

    // random grammars beyond the bound, on random inputs over the extended alphabet (multi-byte)
    let n_rand = cx.t(20_000, 400_000);
    let mut rbasis = classes::k01(true);
    rbasis.leaves.push(G::leaf(Op::Probe));
    rbasis.ctors.extend(classes::rep_light());
    let seed = cx.seed;
    let racc = for_each_index(n_rand, cx.threads, 64, |acc, i| {
        let mut rng = Rng::derive(seed, 0xC01, i as u64);
        let sz = rng.range(size + 1, 14);
        let g = rbasis.random(&mut rng, sz);
        let bufs: Vec<Buf> = (0..6).map(|_| Buf::new(&random_input(&mut rng, &SIGMA_PLUS, 12))).collect();
        let p = build::<&str, Rich<char>>(&g, Opts::default());
        for buf in &bufs {
            one::<&str>(acc, &g, &p, buf, false);
        }
    });
    acc.merge(racc);
    acc.count("random_grammars", n_rand as u64);

    // statically typed formulations on all inputs up to one token longer
    let st_bufs: Vec<Buf> = all_inputs(&alpha, max_len + 1).iter().map(|w| Buf::new(w)).collect();
    let mut sacc = Acc::default();
    static_family(&mut sacc, &st_bufs);
    acc.merge(sacc);

    finish(
        cx,
        acc,
        Finish {
            rule: format!(
                "every well-formed grammar with <= {size} nodes over the K01 basis (12 leaves incl. a probe, 24 constructors) x every input of length <= {max_len} over {{a,b,é}} on &str (every 4th grammar also on &[char] and Stream for every 7th input), plus {n_rand} seeded random grammars of {}..14 nodes x 6 random inputs (<= 12 tokens over a 7-character alphabet with 2- and 4-byte characters and a combining mark); 22 hand-written statically typed (unboxed) formulations built side by side with their AST x every input <= max+1, parse and check (acceptance, output, inspector state, primary error against the model); a case is non-trivial when the reference evaluation backtracked at least once or a filter/try_map rejected; enumerated cases are distinct by construction, random ones are deduplicated by hash",
                size + 1
            ),
            exhaustive: false,
            exhaustive_note: format!("grammars <= {size} nodes x inputs <= {max_len} tokens over 3 letters: complete"),
            assumptions: vec![
                "oracle = reference PEG interpreter written from the property statement (DESIGN Appendix B)".into(),
                "A1/A2 (separator at at_most / lone leading separator) compared leniently and counted as ambiguous".into(),
                "observation through map_with spans at every node, custom() probes and a snapshot Inspector; no hooks in the library".into(),
            ],
            require: vec![("backtracks_after_consuming".into(), 100), ("rejecting_filters".into(), 100), ("accepted".into(), 100), ("static_formulation_cases".into(), 1000)],
            min_evaluations: 10_000,
        },
    )
}
