//! C13 — parsers are pure values: reusable, clonable, wrapper- and thread-independent.
//!
//! (1) histories: for generated grammars and a pool of inputs, every sequence of (input, parse|check)
//!     steps up to a bound is driven through ONE parser value, every step through a different wrapper
//!     (original, clone, &, &&, Box, Rc, Arc, boxed(), Either::Left/Right); the k-th result must equal the
//!     result of a freshly built parser on that input;
//! (2) `Cache`: one cached parser used at many different input lifetimes, in histories;
//! (3) threads: `Send + Sync` statically typed parsers behind `Arc<dyn Parser + Send + Sync>` and a
//!     `static` `Cache`, 2..8 threads parsing the pool concurrently with randomised offsets; every
//!     thread's results must equal the sequential ones; start/finish events are logged through one
//!     atomic clock and the distinct interleavings seen are counted;
//! (4) the thread workload under Miri (data-race detector, several scheduler seeds) and, in the
//!     thorough tier, under TSan.

use crate::classes;
use crate::drv::*;
use crate::ev::*;
use crate::gram::*;
use crate::mk::*;
use crate::par::for_each_index;
use crate::rng::Rng;
use chumsky::cache::{Cache, Cached};
use chumsky::error::Rich;
use chumsky::prelude::*;
use either::Either;
use serde_json::{json, Value};
use std::collections::HashSet;
use std::rc::Rc;
use std::sync::atomic::{AtomicU64, Ordering};
use std::sync::{Arc, Mutex, OnceLock};

pub fn basis() -> Basis {
    let mut b = classes::k01_core(true);
    b.leaves.push(G::leaf(Op::Probe));
    b.ctors.extend(classes::rep_light());
    b.ctors.extend(classes::fold_ctors());
    b.ctors.extend(classes::validate_ctors());
    b.ctors.extend(classes::recover_ctors());
    b.ctors.extend(classes::decor_ctors());
    b.ctors.push(ctor(1, |mut k| G::un(Op::Memo, k.remove(0))));
    b.ctors.push(ctor(1, |mut k| G::un(Op::WithState, k.remove(0)).with(|p| p.n = 3)));
    b.ctors.push(ctor(1, |mut k| G::un(Op::WithCtx, k.remove(0)).with(|p| p.cs = vec!['a'])));
    b.ctors.push(ctor(2, |k| G::new(Op::ThenWithCtx, k)));
    b
}

type P<'s> = BP<'s, &'s str, Rich<'s, char>>;

pub const WRAPPERS: [&str; 10] = ["original", "clone", "&", "&&", "Box", "Rc", "Arc", "boxed()", "Either::Left", "Either::Right"];

fn run_via<'s>(w: usize, p: &P<'s>, buf: &'s Buf, check: bool) -> Result<RunOut, String> {
    macro_rules! go {
        ($q:expr) => {
            guarded(|| if check { run_check($q, buf, 0, STEP_BUDGET) } else { run_parse($q, buf, 0, STEP_BUDGET) })
        };
    }
    match w % 10 {
        0 => go!(p),
        1 => go!(&p.clone()),
        2 => go!(&p),
        3 => go!(&&p),
        4 => go!(&Box::new(p.clone())),
        5 => go!(&Rc::new(p.clone())),
        6 => go!(&Arc::new(p.clone())),
        7 => go!(&p.clone().boxed()),
        8 => go!(&Either::<P<'s>, P<'s>>::Left(p.clone())),
        _ => go!(&Either::<P<'s>, P<'s>>::Right(p.clone())),
    }
}

fn same_run(a: &RunOut, b: &RunOut) -> Option<String> {
    if a.has_output != b.has_output {
        return Some(format!("acceptance {} vs {}", a.has_output, b.has_output));
    }
    if a.out != b.out {
        return Some(format!("output {:?} vs {:?}", a.out.as_ref().map(|v| v.show()), b.out.as_ref().map(|v| v.show())));
    }
    if a.errs != b.errs {
        return Some(format!("errors {:?} vs {:?}", a.errs.iter().map(|e| e.show()).collect::<Vec<_>>(), b.errs.iter().map(|e| e.show()).collect::<Vec<_>>()));
    }
    if a.st != b.st {
        return Some(format!("final inspector state {:?} vs {:?}", a.st, b.st));
    }
    if a.trace != b.trace {
        return Some("probe trace differs".into());
    }
    if a.steps != b.steps {
        return Some(format!("logical steps (next/save/rewind calls) {} vs {}: the same parse did a different amount of work", a.steps, b.steps));
    }
    None
}

/// All sequences over `symbols` symbols with length 1..=max_len (as base-`symbols` digit strings).
fn sequences(symbols: usize, max_len: usize) -> Vec<Vec<usize>> {
    let mut out = vec![];
    let mut cur: Vec<Vec<usize>> = vec![vec![]];
    for _ in 0..max_len {
        let mut next = vec![];
        for s in &cur {
            for x in 0..symbols {
                let mut t = s.clone();
                t.push(x);
                next.push(t);
            }
        }
        out.extend(next.iter().cloned());
        cur = next;
    }
    out
}

fn histories<'s>(acc: &mut Acc, g: &G, pool: &'s [Buf], seqs: &[Vec<usize>], enumerated: bool, rng: &mut Rng) {
    // baseline: a freshly built parser per (input, mode)
    let mut fresh: Vec<Option<RunOut>> = vec![];
    for sym in 0..pool.len() * 2 {
        let (i, check) = (sym / 2, sym % 2 == 1);
        let p = build::<&str, Rich<char>>(g, Opts::default());
        fresh.push(run_via(0, &p, &pool[i], check).ok());
    }
    if fresh.iter().any(|f| f.is_none()) {
        acc.pathological += 1;
        return;
    }
    let accepting = fresh.iter().filter(|f| f.as_ref().unwrap().has_output).count();
    let mixed = accepting > 0 && accepting < fresh.len();
    for seq in seqs {
        let p = build::<&str, Rich<char>>(g, Opts::default());
        // a persistent second handle that lives through the whole history
        let held = Rc::new(p.clone());
        let w0 = rng.below(10);
        for (k, sym) in seq.iter().enumerate() {
            acc.evaluations += 1;
            let (i, check) = (sym / 2, sym % 2 == 1);
            let w = (w0 + k * 3) % 10;
            let r = if k % 4 == 3 { run_via(w, &held, &pool[i], check) } else { run_via(w, &p, &pool[i], check) };
            acc.count("history_steps", 1);
            acc.count(&format!("steps_via_{}", WRAPPERS[w]), 1);
            let want = fresh[*sym].as_ref().unwrap();
            let d = match &r {
                Ok(r) => same_run(want, r),
                Err(e) => Some(e.clone()),
            };
            if let Some(d) = d {
                let hist: Vec<String> = seq[..=k].iter().map(|s| format!("{}({:?})", if s % 2 == 1 { "check" } else { "parse" }, pool[s / 2].text)).collect();
                acc.viol(Viol::case(
                    format!("C13: step {} of the history [{}] through `{}` differs from a fresh parser on the same input: {}", k + 1, hist.join(", "), WRAPPERS[w], d),
                    g,
                    &pool[i].chars,
                    json!({"history": hist, "wrapper": WRAPPERS[w]}),
                ));
                break;
            }
        }
        if seq.len() >= 3 && mixed {
            acc.sample(10_007, || json!({"grammar": g.show(), "history": seq.iter().map(|s| format!("{}({:?})", if s % 2 == 1 { "check" } else { "parse" }, pool[s / 2].text)).collect::<Vec<_>>(), "fresh_parser_accepts": fresh.iter().map(|f| f.as_ref().unwrap().has_output).collect::<Vec<_>>(), "all_steps_equal_to_fresh": true}));
        }
        if seq.len() >= 2 && mixed {
            note_nontrivial(acc, enumerated, || format!("{}|{:?}", g.show(), seq));
        }
    }
}

// -----------------------------------------------------------------------------------------------
// Statically typed Send + Sync parsers, Cache

type ES<'s> = extra::Err<Rich<'s, char>>;
type DynP<'s> = Arc<dyn Parser<'s, &'s str, String, ES<'s>> + Send + Sync + 's>;

fn render<T: std::fmt::Debug>(t: T) -> String {
    format!("{:?}", t)
}

pub fn sync_parsers<'s>() -> Vec<(&'static str, DynP<'s>)> {
    let ident = || text::ident::<&str, ES>().padded();
    let mut v: Vec<(&'static str, DynP<'s>)> = vec![
        ("text::ident().padded().repeated().collect()", Arc::new(ident().repeated().collect::<Vec<&str>>().map(render))),
        ("text::int(10).separated_by(just(',').padded()).collect() with skip_then_retry_until recovery", Arc::new(text::int::<&str, ES>(10).recover_with(skip_then_retry_until(any().ignored(), just(',').ignored())).separated_by(just(',').padded()).collect::<Vec<&str>>().map(render))),
        (
            "choice with shared prefixes, memoized alternatives",
            Arc::new(choice((just::<_, &str, ES>("let").then(just(' ')).then(text::ident()).map(render).memoized(), just("le").then(any()).map(render).memoized(), text::ident().map(render))).padded().repeated().collect::<Vec<String>>().map(render)),
        ),
        (
            "labelled / map_err / validate stack",
            Arc::new(
                text::int::<&str, ES>(10)
                    .labelled("number")
                    .validate(|s: &str, e, em| {
                        if s.len() > 3 {
                            em.emit(Rich::custom(e.span(), "too long"))
                        }
                        s
                    })
                    .map_err(|e| e)
                    .padded()
                    .repeated()
                    .at_least(1)
                    .collect::<Vec<&str>>()
                    .map(render),
            ),
        ),
        (
            "foldl with skip_until recovery",
            Arc::new(
                text::ident::<&str, ES>()
                    .map(|s: &str| s.len())
                    .or(any().and_is(none_of("()[]")).repeated().at_least(1).delimited_by(just('('), just(')')).to(100usize).recover_with(skip_until(none_of(")").ignored(), just(')').ignored(), || 999usize)))
                    .padded()
                    .foldl(just('+').padded().ignore_then(text::ident().map(|s: &str| s.len())).repeated(), |a, b| a * 10 + b)
                    .map(render),
            ),
        ),
    ];
    // compiling a regex under an interpreter takes minutes and exercises regex-automata, not chumsky
    if !cfg!(miri) {
        v.push(("regex([a-z]+|[0-9]+).padded().repeated().collect()", Arc::new(regex::<&str, ES>("[a-z]+|[0-9]+").padded().repeated().collect::<Vec<&str>>().map(render))));
    }
    v
}

pub const POOL: [&str; 8] = ["let x", "foo bar  baz", "12, 7,x, 9", "le1 lett let y", "(a b) + cd + e", "1234 5 66", "", "(a [b) + c"];

#[derive(Default)]
pub struct PoolCache;
impl Cached for PoolCache {
    type Parser<'a> = Vec<(&'static str, DynP<'a>)>;
    fn make_parser<'a>(self) -> Self::Parser<'a> {
        sync_parsers()
    }
}
static CACHE: OnceLock<Cache<PoolCache>> = OnceLock::new();

type Res = (bool, Option<String>, Vec<String>);

fn run_dyn<'s>(p: &DynP<'s>, s: &'s str, check: bool) -> Res {
    if check {
        let dp: &(dyn Parser<'s, &'s str, String, ES<'s>> + Send + Sync + 's) = &**p;
        let r = (&dp).check(s);
        (r.has_output(), None, r.errors().map(|e| format!("{:?}@{:?}", e.reason(), e.span())).collect())
    } else {
        let r = p.parse(s);
        (r.has_output(), r.output().cloned(), r.errors().map(|e| format!("{:?}@{:?}", e.reason(), e.span())).collect())
    }
}

/// Sequential reference results: a fresh parser per (grammar, input, mode).
pub fn sequential_reference() -> Vec<Vec<[Res; 2]>> {
    let n = sync_parsers().len();
    (0..n)
        .map(|gi| {
            // natively every (input, mode) gets a freshly built parser; under the interpreter one per grammar
            let shared = if cfg!(miri) { Some(sync_parsers()) } else { None };
            POOL.iter()
                .map(|s| {
                    let fresh = || sync_parsers();
                    let a = match &shared {
                        Some(ps) => run_dyn(&ps[gi].1, s, false),
                        None => run_dyn(&fresh()[gi].1, s, false),
                    };
                    let b = match &shared {
                        Some(ps) => run_dyn(&ps[gi].1, s, true),
                        None => run_dyn(&fresh()[gi].1, s, true),
                    };
                    [a, b]
                })
                .collect()
        })
        .collect()
}

/// Cache histories: one cached parser set, inputs living in differently scoped `String`s.
fn cache_histories(acc: &mut Acc, reference: &[Vec<[Res; 2]>], rng: &mut Rng, rounds: usize) {
    let cache = Cache::new(PoolCache);
    for _ in 0..rounds {
        let gi = rng.below(reference.len());
        let len = rng.range(2, 6);
        for k in 0..len {
            let i = rng.below(POOL.len());
            let check = rng.chance(1, 3);
            // a fresh allocation with its own (short) lifetime for every step
            let owned: String = POOL[i].to_string();
            let got = guarded(|| {
                let ps = cache.get();
                run_dyn(&ps[gi].1, owned.as_str(), check)
            });
            acc.evaluations += 1;
            acc.count("cache_history_steps", 1);
            if k >= 1 {
                acc.nontrivial_rand.insert(crate::rng::hash64(format!("cache|{}|{}|{}|{}", gi, i, k, check).as_bytes()));
            }
            let want = &reference[gi][i][check as usize];
            if got.as_ref().ok() != Some(want) {
                acc.viol(Viol { weight: 300, what: format!("C13: parser obtained from Cache::get() at a new input lifetime gave {:?}, a fresh parser gives {:?} [{} on {:?}, step {}]", got, want, sync_parsers()[gi].0, POOL[i], k + 1), detail: json!({"grammar_text": sync_parsers()[gi].0, "input": POOL[i], "via": "Cache"}) });
                return;
            }
        }
    }
}

/// Histories over inputs that share their start address (a prefix view of a string, then the whole
/// string, and back): anything remembered per haystack address or per offset would show here.
fn same_address_histories(acc: &mut Acc) {
    let n = sync_parsers().len();
    for gi in 0..n {
        let shared = sync_parsers();
        let name = shared[gi].0;
        for s in POOL.iter() {
            let cuts: Vec<usize> = s.char_indices().map(|(i, _)| i).chain([s.len()]).collect();
            for cut in cuts {
                let pre = &s[..cut];
                for check in [false, true] {
                    let want_pre = run_dyn(&sync_parsers()[gi].1, pre, check);
                    let want_all = run_dyn(&sync_parsers()[gi].1, s, check);
                    for (k, (inp, want)) in [(pre, &want_pre), (*s, &want_all), (pre, &want_pre), (*s, &want_all)].iter().enumerate() {
                        acc.evaluations += 1;
                        acc.count("same_address_history_steps", 1);
                        let got = guarded(|| run_dyn(&shared[gi].1, inp, check));
                        if got.as_ref().ok() != Some(*want) {
                            acc.viol(Viol { weight: 200 + s.len(), what: format!("C13: [{}] step {} of the history [prefix {:?}, whole {:?}, prefix, whole] (inputs sharing their start address, {}): got {:?}, a fresh parser gives {:?}", name, k + 1, pre, s, if check { "check" } else { "parse" }, got, want), detail: json!({"grammar_text": name, "input": s, "prefix": pre}) });
                            return;
                        }
                    }
                    if cut > 0 && cut < s.len() {
                        acc.nontrivial_rand.insert(crate::rng::hash64(format!("addr|{}|{}|{}|{}", gi, s, cut, check).as_bytes()));
                    }
                }
            }
        }
    }
}

static CLOCK: AtomicU64 = AtomicU64::new(0);

/// One concurrent round: `threads` threads share the parsers (Arc<dyn>) and the static Cache, each
/// parses a random walk over the pool.  Returns the interleaving signature of the round.
pub fn thread_round(acc: &mut Acc, reference: &[Vec<[Res; 2]>], threads: usize, steps: usize, seed: u64, round: u64) -> u64 {
    let shared: Vec<(&'static str, DynP<'static>)> = sync_parsers();
    let cache = CACHE.get_or_init(|| Cache::new(PoolCache));
    let log: Mutex<Vec<(u64, u8, bool)>> = Mutex::new(vec![]);
    let problems: Mutex<Vec<String>> = Mutex::new(vec![]);
    let overlaps = AtomicU64::new(0);
    let running = AtomicU64::new(0);
    std::thread::scope(|s| {
        for t in 0..threads {
            let shared = &shared;
            let log = &log;
            let problems = &problems;
            let overlaps = &overlaps;
            let running = &running;
            s.spawn(move || {
                let mut rng = Rng::derive(seed, 0x7413 + round, t as u64);
                let mut mine = vec![];
                for k in 0..steps {
                    let gi = rng.below(shared.len());
                    let i = rng.below(POOL.len());
                    let check = rng.chance(1, 3);
                    if rng.chance(1, 3) {
                        std::thread::yield_now();
                    }
                    let t0 = CLOCK.fetch_add(1, Ordering::SeqCst);
                    if running.fetch_add(1, Ordering::SeqCst) > 0 {
                        overlaps.fetch_add(1, Ordering::Relaxed);
                    }
                    let owned = POOL[i].to_string();
                    let got = if k % 2 == 0 { run_dyn(&shared[gi].1, POOL[i], check) } else { run_dyn(&cache.get()[gi].1, owned.as_str(), check) };
                    running.fetch_sub(1, Ordering::SeqCst);
                    let t1 = CLOCK.fetch_add(1, Ordering::SeqCst);
                    mine.push((t0, t as u8, true));
                    mine.push((t1, t as u8, false));
                    if got != reference[gi][i][check as usize] {
                        problems.lock().unwrap().push(format!("thread {} step {}: [{}] on {:?} ({}) gave {:?}, sequential use gives {:?}", t, k, shared[gi].0, POOL[i], if check { "check" } else { "parse" }, got, reference[gi][i][check as usize]));
                    }
                }
                log.lock().unwrap().extend(mine);
            });
        }
    });
    acc.evaluations += (threads * steps) as u64;
    acc.count("concurrent_parses", (threads * steps) as u64);
    acc.count("parses_started_while_another_was_running", overlaps.load(Ordering::Relaxed));
    for p in problems.into_inner().unwrap().into_iter().take(1) {
        acc.viol(Viol { weight: 100, what: format!("C13: {} threads sharing one parser: {}", threads, p), detail: json!({"grammar_text": "Arc<dyn Parser + Send + Sync> / static Cache shared between threads", "input": format!("{} threads x {} steps, seed {} round {}", threads, steps, seed, round)}) });
    }
    let mut l = log.into_inner().unwrap();
    l.sort();
    let sig: Vec<u8> = l.iter().map(|(_, t, s)| t * 2 + *s as u8).collect();
    crate::rng::hash64(&sig)
}

pub fn run(cx: &RunCtx) -> i32 {
    let alpha: Vec<char> = vec!['a', 'b', 'é'];
    let b = basis();
    let size = cx.t(3, 4);
    let grammars: Vec<G> = b.up_to(size);
    let n_enum = grammars.len();
    // pool: chosen per grammar from all inputs <= 3 so that it mixes accepted and rejected inputs where possible
    let all: Vec<Buf> = all_inputs(&alpha, 3).iter().map(|w| Buf::new(w)).collect();
    let seqs = sequences(6, cx.t(3, 4));
    let seed = cx.seed;
    let mut acc = for_each_index(grammars.len(), cx.threads, 4, |acc, gi| {
        let g = &grammars[gi];
        let mut rng = Rng::derive(seed, 0xC13, gi as u64);
        let p = build::<&str, Rich<char>>(g, Opts::default());
        let mut yes = vec![];
        let mut no = vec![];
        for (i, b) in all.iter().enumerate() {
            match guarded(|| run_parse(&p, b, 0, STEP_BUDGET)) {
                Ok(r) if r.has_output => yes.push(i),
                Ok(_) => no.push(i),
                Err(_) => {}
            }
        }
        let mut pick: Vec<usize> = vec![];
        if !yes.is_empty() {
            pick.push(yes[rng.below(yes.len())]);
        }
        if !no.is_empty() {
            pick.push(no[rng.below(no.len())]);
        }
        while pick.len() < 3 {
            pick.push(rng.below(all.len()));
        }
        let pool: Vec<Buf> = pick.iter().map(|i| Buf::new(&all[*i].chars)).collect();
        // every 8th grammar gets all histories, the others a sample
        if gi % 8 == 0 {
            histories(acc, g, &pool, &seqs, true, &mut rng);
        } else {
            let sample: Vec<Vec<usize>> = (0..12).map(|_| seqs[rng.below(seqs.len())].clone()).collect();
            histories(acc, g, &pool, &sample, false, &mut rng);
        }
    });
    acc.count("enumerated_grammars", n_enum as u64);

    // random larger grammars, incl. recursive ones (C12's generator)
    let n_rand = cx.t(6_000, 120_000);
    let racc = for_each_index(n_rand, cx.threads, 16, |acc, i| {
        let mut rng = Rng::derive(seed, 0xC13A, i as u64);
        let sz = rng.range(4, 12);
        let g = if i % 3 == 0 { super::c12::random_grammar(&mut rng) } else { b.random(&mut rng, sz).numbered() };
        if !g.well_formed() {
            return;
        }
        let pool: Vec<Buf> = (0..3).map(|_| Buf::new(&random_input(&mut rng, &SIGMA_PLUS, 8))).collect();
        let sample: Vec<Vec<usize>> = (0..6).map(|_| (0..rng.range(2, 6)).map(|_| rng.below(6)).collect()).collect();
        histories(acc, &g, &pool, &sample, false, &mut rng);
    });
    acc.merge(racc);
    acc.count("random_grammars", n_rand as u64);

    // (1c) clone sweep over statically typed parsers (hand-written Clone impls)
    let cwords: Vec<String> = all_inputs(&super::c13clone::ALPHABET, cx.t(4, 5)).iter().map(|w| w.iter().collect()).collect();
    let clacc = for_each_index(32, cx.threads, 1, |acc, shard| {
        let mine: Vec<String> = cwords.iter().skip(shard).step_by(32).cloned().collect();
        super::c13clone::sweep(acc, &mine, &|_| true);
    });
    acc.merge(clacc);

    // (2) + (3)
    let reference = sequential_reference();
    let mut rng = Rng::derive(seed, 0xCAC4E, 0);
    let mut cacc = Acc::default();
    cache_histories(&mut cacc, &reference, &mut rng, cx.t(2_000, 40_000));
    same_address_histories(&mut cacc);
    let mut sigs: HashSet<u64> = HashSet::new();
    let rounds = cx.t(300, 6_000);
    for r in 0..rounds {
        let threads = 2 + (r % 7) as usize;
        sigs.insert(thread_round(&mut cacc, &reference, threads, 24, seed, r));
    }
    cacc.count("thread_rounds", rounds);
    cacc.count("distinct_interleavings_of_parse_start_finish_events", sigs.len() as u64);
    cacc.nontrivial_enum += sigs.len() as u64;
    acc.merge(cacc);

    // (4)
    crate::san::miri_job_flags(&mut acc, cx, "C13", "c13", cx.t(10, 30), cx.t(4, 16), "-Zmiri-ignore-leaks -Zmiri-seed={shard}");
    if cx.thorough() {
        crate::san::tsan_job(&mut acc, cx, "C13", "c13", 400, 4);
    }

    finish(
        cx,
        acc,
        Finish {
            rule: format!("(1) every grammar with <= {size} nodes over a class with repetitions, folds, validation, all recovery strategies, labels, map_err, memoized, with_state and context providers: a pool of 3 inputs <= 3 over {{a,b,é}} mixing accepted and rejected ones; every 8th grammar with ALL {} histories of (input, parse|check) steps of length <= {} through one parser value (others: 12 sampled histories), consecutive steps through different wrappers (original, clone, &, &&, Box, Rc, Arc, boxed(), Either::Left, Either::Right; every 4th through an Rc handle held for the whole history); {n_rand} random grammars (a third recursive / mutually recursive) with 6 random histories of length 2..6. The k-th result (acceptance, output with extents, full error list, inspector state, probe trace, logical step count) must equal a freshly built parser's. (1c) clone sweep: 48 statically typed parsers covering the combinators with hand-written Clone impls, each with asymmetric non-default settings (separator flags and bounds, repetition bounds, delimiters, recovery strategies with three distinct sub-parsers, Pratt operators with distinct powers / associativities, configure closures, labels, folds, text / regex parsers, recursive handles with the defining handle dropped) x all words <= {} over {{a,b,',',(,),1,space}}: a fresh parser, the original after cloning, its clone and the clone's clone must agree on acceptance, output and errors in parse and check mode. (2) Cache::get() at a new input lifetime for every step of random histories; histories [prefix view, whole string, prefix, whole] over inputs that share their start address, for every cut of every pool string. (3) {rounds} rounds of 2..8 threads x 24 parses sharing 6 Send+Sync parsers (5 under Miri: no regex) (text, regex, memoized, recovery, folds) behind Arc<dyn Parser> and a static Cache: every result equals the sequential reference; start/finish events through one atomic clock. (4) the thread workload under Miri with different scheduler seeds (thorough: TSan). Non-trivial: histories of >= 2 steps over a pool with both accepted and rejected inputs; distinct interleavings", seqs.len(), cx.t(3, 4), cx.t(4, 5)),
            exhaustive: false,
            exhaustive_note: "histories: all sequences up to the stated length for every 8th enumerated grammar".into(),
            assumptions: vec![
                "thread schedules are those the runs produce (natively, under Miri's seeded scheduler, under TSan); no exhaustive schedule enumeration".into(),
                "Boxed and Recursive are Rc-based (not Send): the thread workload uses statically typed parsers behind Arc<dyn Parser + Send + Sync>".into(),
            ],
            require: vec![
                ("history_steps".into(), 100_000),
                ("steps_via_Either::Right".into(), 1000),
                ("steps_via_Arc".into(), 1000),
                ("cache_history_steps".into(), 1000),
                ("clone_sweep_cases".into(), 100_000),
                ("clone_sweep_accepting_cases".into(), 10_000),
                ("same_address_history_steps".into(), 1000),
                ("concurrent_parses".into(), 10_000),
                ("parses_started_while_another_was_running".into(), 100),
                ("distinct_interleavings_of_parse_start_finish_events".into(), 20),
                ("miri_processes_clean".into(), 1),
            ],
            min_evaluations: 100_000,
        },
    )
}

/// Thread workload for Miri / TSan.
pub fn san_job(size: usize, seed: u64, shard: usize) -> Value {
    let mut acc = Acc::default();
    let reference = sequential_reference();
    let mut sigs: HashSet<u64> = HashSet::new();
    for r in 0..size as u64 {
        let threads = 2 + ((r + shard as u64) % 3) as usize;
        sigs.insert(thread_round(&mut acc, &reference, threads, if size > 50 { 24 } else { 3 }, seed + shard as u64, r));
    }
    acc.count("sanitizer_thread_rounds", size as u64);
    acc.count("sanitizer_distinct_interleavings", sigs.len() as u64);
    acc.to_json()
}
