//! C14 — text parsers recognise exactly their documented languages, identically on &str and &[u8]
//! for ASCII text, always returning the matched slice of the input; regex(p) matches what an anchored
//! search matches at that position.
//!
//! Oracle: longest-match recognisers written from the documentation with `std` character predicates
//! and `unicode-ident`, returning the length of the matched prefix (or no match).  Every parser is run
//! as `p.to_slice().lazy()` (matched prefix, value and pointer) and as a whole-input parse.

use crate::ev::*;
use crate::gram::all_inputs;
use crate::mk::guarded;
use crate::par::for_each_index;
use crate::rng::Rng;
use chumsky::error::Rich;
use chumsky::prelude::*;
use serde_json::json;

// -----------------------------------------------------------------------------------------------
// Reference recognisers (prefix length in bytes, or None)

fn digit_val(c: char) -> Option<u32> {
    match c {
        '0'..='9' => Some(c as u32 - '0' as u32),
        'a'..='z' => Some(c as u32 - 'a' as u32 + 10),
        'A'..='Z' => Some(c as u32 - 'A' as u32 + 10),
        _ => None,
    }
}
fn is_digit(c: char, r: u32) -> bool {
    digit_val(c).map(|v| v < r).unwrap_or(false)
}
fn run_len(s: &str, f: impl Fn(char) -> bool) -> usize {
    s.chars().take_while(|c| f(*c)).map(|c| c.len_utf8()).sum()
}
pub fn rec_digits(s: &str, r: u32) -> Option<usize> {
    let n = run_len(s, |c| is_digit(c, r));
    if n > 0 {
        Some(n)
    } else {
        None
    }
}
pub fn rec_int(s: &str, r: u32) -> Option<usize> {
    match s.chars().next() {
        Some('0') => Some(1),
        Some(c) if is_digit(c, r) => rec_digits(s, r),
        _ => None,
    }
}
pub fn rec_ascii_ident(s: &str) -> Option<usize> {
    match s.chars().next() {
        Some(c) if c.is_ascii_alphabetic() || c == '_' => Some(run_len(s, |c| c.is_ascii_alphanumeric() || c == '_')),
        _ => None,
    }
}
pub fn rec_uni_ident(s: &str) -> Option<usize> {
    match s.chars().next() {
        Some(c) if unicode_ident::is_xid_start(c) || c == '_' => {
            let first = c.len_utf8();
            Some(first + run_len(&s[first..], unicode_ident::is_xid_continue))
        }
        _ => None,
    }
}
pub fn rec_keyword(s: &str, k: &str, ascii: bool) -> Option<usize> {
    let id = if ascii { rec_ascii_ident(s) } else { rec_uni_ident(s) }?;
    if &s[..id] == k {
        Some(id)
    } else {
        None
    }
}
pub fn rec_ws(s: &str) -> Option<usize> {
    Some(run_len(s, char::is_whitespace))
}
pub fn rec_inline_ws(s: &str) -> Option<usize> {
    Some(run_len(s, |c| c == ' ' || c == '\t'))
}
pub fn rec_newline(s: &str) -> Option<usize> {
    if s.starts_with("\r\n") {
        return Some(2);
    }
    match s.chars().next() {
        Some(c) if ['\n', '\r', '\x0B', '\x0C', '\u{85}', '\u{2028}', '\u{2029}'].contains(&c) => Some(c.len_utf8()),
        _ => None,
    }
}
pub fn rec_padded_a(s: &str) -> Option<usize> {
    let a = run_len(s, char::is_whitespace);
    if s[a..].starts_with('a') {
        let b = a + 1;
        Some(b + run_len(&s[b..], char::is_whitespace))
    } else {
        None
    }
}

// -----------------------------------------------------------------------------------------------

type ES<'s> = extra::Err<Rich<'s, char>>;
type EB<'s> = extra::Err<chumsky::error::Cheap>;

/// What a real parser did on `s`: matched prefix length and whether the returned slice points into `s` at offset 0.
type Got = Option<(usize, bool)>;

fn prefix_str<'s, P: Parser<'s, &'s str, &'s str, ES<'s>>>(p: P, s: &'s str) -> (Got, bool) {
    let whole = p.parse(s).has_output();
    // `p` is consumed by value above? no: Parser::parse takes &self
    let r = p.lazy().parse(s);
    let got = r.output().map(|sl| (sl.len(), sl.as_ptr() == s.as_ptr() && &s[..sl.len()] == *sl));
    (got, whole)
}

fn prefix_u8<'s, P: Parser<'s, &'s [u8], &'s [u8], EB<'s>>>(p: P, s: &'s [u8]) -> (Got, bool) {
    let whole = p.parse(s).has_output();
    let r = p.lazy().parse(s);
    let got = r.output().map(|sl| (sl.len(), sl.as_ptr() == s.as_ptr() && &s[..sl.len()] == *sl));
    (got, whole)
}

pub const RADIXES: [u32; 5] = [2, 8, 10, 16, 36];
pub const KEYWORDS: [&str; 4] = ["a", "fa", "_", "a_9"];

/// `(name, reference, real on &str, real on &[u8] when the parser exists there)`
pub fn table<'s>(s: &'s str) -> Vec<(String, Option<usize>, (Got, bool), Option<(Got, bool)>)> {
    let b = s.as_bytes();
    let ascii = s.is_ascii();
    let mut v = vec![];
    for r in RADIXES {
        v.push((format!("text::int({})", r), rec_int(s, r), prefix_str(text::int::<&str, ES>(r), s), ascii.then(|| prefix_u8(text::int::<&[u8], EB>(r), b))));
        v.push((format!("text::digits({}).to_slice()", r), rec_digits(s, r), prefix_str(text::digits::<&str, ES>(r).to_slice(), s), ascii.then(|| prefix_u8(text::digits::<&[u8], EB>(r).to_slice(), b))));
    }
    v.push(("text::ascii::ident()".into(), rec_ascii_ident(s), prefix_str(text::ascii::ident::<&str, ES>(), s), ascii.then(|| prefix_u8(text::ascii::ident::<&[u8], EB>(), b))));
    v.push(("text::unicode::ident()".into(), rec_uni_ident(s), prefix_str(text::unicode::ident::<&str, ES>(), s), ascii.then(|| prefix_u8(text::unicode::ident::<&[u8], EB>(), b))));
    for k in KEYWORDS {
        v.push((format!("text::ascii::keyword({:?})", k), rec_keyword(s, k, true), prefix_str(text::ascii::keyword::<&str, _, ES>(k), s), ascii.then(|| prefix_u8(text::ascii::keyword::<&[u8], _, EB>(k.as_bytes()), b))));
        v.push((format!("text::unicode::keyword({:?})", k), rec_keyword(s, k, false), prefix_str(text::unicode::keyword::<&str, _, ES>(k), s), ascii.then(|| prefix_u8(text::unicode::keyword::<&[u8], _, EB>(k.as_bytes()), b))));
    }
    v.push(("text::unicode::keyword(\"é\")".into(), rec_keyword(s, "é", false), prefix_str(text::unicode::keyword::<&str, _, ES>("é"), s), None));
    v.push(("text::whitespace().to_slice()".into(), rec_ws(s), prefix_str(text::whitespace::<&str, ES>().to_slice(), s), ascii.then(|| prefix_u8(text::whitespace::<&[u8], EB>().to_slice(), b))));
    v.push(("text::inline_whitespace().to_slice()".into(), rec_inline_ws(s), prefix_str(text::inline_whitespace::<&str, ES>().to_slice(), s), ascii.then(|| prefix_u8(text::inline_whitespace::<&[u8], EB>().to_slice(), b))));
    v.push(("text::newline().to_slice()".into(), rec_newline(s), prefix_str(text::newline::<&str, ES>().to_slice(), s), None));
    v.push(("just('a').padded().to_slice()".into(), rec_padded_a(s), prefix_str(just::<_, &str, ES>('a').padded().to_slice(), s), ascii.then(|| prefix_u8(just::<_, &[u8], EB>(b'a').padded().to_slice(), b))));
    v
}

fn text_viol(acc: &mut Acc, name: &str, s: &str, what: String, sig: Option<&str>) {
    let mut d = json!({"grammar_text": name, "input": s});
    if let Some(sig) = sig {
        d["signature"] = json!(sig);
    }
    acc.viol(Viol { weight: 10 * s.chars().count() + name.len() / 8, what, detail: d });
}

pub fn check_string(acc: &mut Acc, s: &str, enumerated: bool) {
    let t = match guarded(|| table(s)) {
        Ok(t) => t,
        Err(e) => {
            text_viol(acc, "text parsers", s, format!("C14: a text parser panicked on {:?}: {}", s, e), None);
            return;
        }
    };
    for (name, want, (got, whole), bytes) in t {
        acc.evaluations += 1;
        if want.is_some() && want != Some(0) {
            if enumerated {
                acc.nontrivial_enum += 1;
            } else {
                acc.nontrivial_rand.insert(crate::rng::hash64(format!("{}|{}", name, s).as_bytes()));
            }
            acc.count("matches_compared", 1);
        } else {
            acc.count("rejections_compared", 1);
        }
        let got_len = got.map(|g| g.0);
        if want.map(|w| w > 1).unwrap_or(false) {
            acc.sample(7919, || json!({"parser": name, "input": s, "documented_language_matches_bytes": want, "parser_matched_bytes": got_len, "slice_points_into_input": got.map(|g| g.1), "whole_input_accepted": whole, "on_u8": bytes.map(|b| b.0.map(|g| g.0))}));
        }
        if got_len != want {
            text_viol(acc, &name, s, format!("C14: {} on {:?}: documented language matches {:?} bytes of the input, parser matched {:?}", name, s, want, got_len), None);
            continue;
        }
        if let Some((n, ptr_ok)) = got {
            if !ptr_ok {
                text_viol(acc, &name, s, format!("C14: {} on {:?}: the returned slice is not input[0..{}] (zero-copy slice of the input expected)", name, s, n), None);
            }
        }
        let whole_want = want == Some(s.len());
        if whole != whole_want {
            text_viol(acc, &name, s, format!("C14: {} parse({:?}) (whole input): accepted={} but the documented language says {}", name, s, whole, whole_want), None);
        }
        if let Some((bgot, bwhole)) = bytes {
            acc.count("str_vs_u8_comparisons", 1);
            if bgot != got || bwhole != whole {
                text_viol(acc, &name, s, format!("C14: {} on ASCII text {:?}: &str matched {:?} (whole: {}), &[u8] matched {:?} (whole: {})", name, s, got_len, whole, bgot.map(|g| g.0), bwhole), None);
            }
        }
    }
}

// -----------------------------------------------------------------------------------------------
// regex

pub const PATTERNS: [&str; 12] = ["[a-z]+", "[0-9]*", "a|ab", "ab|a", "(?i)z+", "\\s*_", "é?a", "[^a]\\b", "\\bz+", "\\Ba", "^a", "(?m)^b"];

fn check_regex(acc: &mut Acc, s: &str) {
    use regex_automata::{meta, Anchored, Input as ReInput};
    thread_local! {
        static RES: Vec<(meta::Regex, &'static str)> = PATTERNS.iter().map(|p| (meta::Regex::new(p).unwrap(), *p)).collect();
    }
    let bounds: Vec<usize> = s.char_indices().map(|(i, _)| i).chain([s.len()]).collect();
    RES.with(|res| {
        for (re, pat) in res {
            for (k, pos) in bounds.iter().enumerate() {
                acc.evaluations += 1;
                acc.count("regex_positions", 1);
                let want = re.find(ReInput::new(s).anchored(Anchored::Yes).range(*pos..)).map(|m| m.len());
                // independent cross-check of the oracle for the two simplest patterns
                if *pat == "[a-z]+" {
                    let n = run_len(&s[*pos..], |c| c.is_ascii_lowercase());
                    assert_eq!(want, if n > 0 { Some(n) } else { None }, "oracle self-check");
                }
                let r = guarded(|| {
                    let p = any::<&str, ES>().repeated().exactly(k).ignore_then(regex::<&str, ES>(pat).map_with(|m: &str, e| (m.len(), m.as_ptr() as usize, e.span().start))).lazy();
                    p.parse(s).into_output()
                });
                let name = format!("any().repeated().exactly({}).ignore_then(regex({:?}))", k, pat);
                match r {
                    Ok(got) => {
                        if want.is_some() {
                            acc.nontrivial_rand.insert(crate::rng::hash64(format!("re|{}|{}|{}", pat, s, pos).as_bytes()));
                        }
                        if got.map(|g| g.0) != want {
                            text_viol(acc, &name, s, format!("C14: regex({:?}) at byte {} of {:?}: an anchored search matches {:?} bytes, the parser matched {:?}", pat, pos, s, want, got.map(|g| g.0)), None);
                        } else if let Some((n, ptr, start)) = got {
                            if ptr != s.as_ptr() as usize + pos || start != *pos {
                                text_viol(acc, &name, s, format!("C14: regex({:?}) at byte {} of {:?}: the returned slice / span does not start at the cursor (span start {}, {} bytes)", pat, pos, s, start, n), None);
                            }
                        }
                    }
                    Err(e) => text_viol(acc, &name, s, format!("C14: regex({:?}) at byte {} of {:?} panicked: {}", pat, pos, s, e), None),
                }
            }
        }
    });
}

pub const ALPHA_QUICK: [char; 12] = ['0', '1', '9', 'a', 'f', 'z', 'Z', '_', ' ', '\n', '\r', 'é'];
pub const ALPHA_MORE: [char; 10] = ['\t', '\x0B', '\x0C', '\u{85}', '\u{2028}', '\u{2029}', 'g', '\u{301}', '\x11', '\x1f'];

fn random_text(rng: &mut Rng) -> String {
    const POOL: &[char] = &[
        '0', '1', '7', '9', 'a', 'b', 'f', 'g', 'z', 'A', 'F', 'Z', '_', ' ', '\t', '\n', '\r', '\x0B', '\x0C', '\u{85}', '\u{a0}', '\u{2028}', '\u{2029}', '\u{3000}', '\u{feff}', 'é', 'ß', 'ǅ', 'ª', '٣', '௧', '𝄞', '𝐀', '\u{301}',
        '\u{200c}', '\u{200d}', '·', '℘', 'ⅷ', '\u{1885}', '\0', '-', '.', '\x10', '\x12', '\x19', '\x1c', '\x7f', '@', '`', '[', '{', '/', ':',
    ];
    let n = rng.range(0, 7);
    (0..n).map(|_| if rng.chance(1, 10) { char::from_u32(rng.below(0x11_0000) as u32).unwrap_or('x') } else { *rng.pick(POOL) }).collect()
}

pub fn run(cx: &RunCtx) -> i32 {
    let alpha: Vec<char> = if cx.thorough() { ALPHA_QUICK.iter().chain(ALPHA_MORE.iter()).copied().collect() } else { ALPHA_QUICK.to_vec() };
    let max_len = 4;
    let words: Vec<String> = all_inputs(&alpha, max_len).iter().map(|w| w.iter().collect()).collect();
    // the extra terminators / tab / vertical tab also in the quick tier, up to length 2 around them
    let mut extra: Vec<String> = vec![];
    if !cx.thorough() {
        let small: Vec<char> = ALPHA_MORE.iter().chain(['a', ' ', '\r', '\n', '0'].iter()).copied().collect();
        extra = all_inputs(&small, 3).iter().map(|w| w.iter().collect()).collect();
    }
    let n_words = words.len() + extra.len();
    let all: Vec<&String> = words.iter().chain(extra.iter()).collect();
    let mut acc = for_each_index(all.len(), cx.threads, 64, |acc, i| check_string(acc, all[i], true));
    acc.count("enumerated_strings", n_words as u64);

    let n_rand = cx.t(60_000, 1_500_000);
    let seed = cx.seed;
    let racc = for_each_index(n_rand, cx.threads, 256, |acc, i| {
        let mut rng = Rng::derive(seed, 0xC14, i as u64);
        let s = random_text(&mut rng);
        check_string(acc, &s, false);
        if i % 4 == 0 {
            check_regex(acc, &s);
        }
    });
    acc.merge(racc);
    acc.count("random_unicode_strings", n_rand as u64);

    let re_words: Vec<String> = all_inputs(&['a', 'b', 'z', 'Z', '0', '_', ' ', 'é', '\n'], cx.t(4, 5)).iter().map(|w| w.iter().collect()).collect();
    let reacc = for_each_index(re_words.len(), cx.threads, 32, |acc, i| check_regex(acc, &re_words[i]));
    acc.merge(reacc);

    finish(
        cx,
        acc,
        Finish {
            rule: format!("every string of length <= {max_len} over {:?} ({n_words} strings{}) and {n_rand} random Unicode strings (non-ASCII digits and letters, all 25 White_Space characters' neighbours, combining marks, ZWJ/ZWNJ, astral, NUL) through int(r) and digits(r) for r in {{2,8,10,16,36}}, ascii::ident, unicode::ident, ascii/unicode keyword for 4 keywords (+ a non-ASCII one), whitespace, inline_whitespace, newline, padded — each as `p.to_slice().lazy()` (matched prefix: length, content and pointer into the input) and as a whole-input parse, on &str and, for ASCII strings, on &[u8] (must agree with &str); regex(p) for 12 patterns (incl. \\b, \\B, ^ and (?m)^ look-behind assertions) at every character position of all strings <= {} over {{a,b,z,Z,0,_,space,é,LF}} and of a quarter of the random ones against an anchored regex-automata search invoked directly. Oracle: longest-match recognisers written from the documentation with std char predicates and unicode-ident. Non-trivial: the documented language matches a non-empty prefix", alpha, if cx.thorough() { "" } else { ", plus all strings <= 3 over the remaining line terminators / tab / vertical tab / combining mark with a, space, CR, LF, 0" }, cx.t(4, 5)),
            exhaustive: true,
            exhaustive_note: format!("all strings <= {max_len} over the stated alphabet for the text parsers; all strings <= {} over the regex alphabet x all positions", cx.t(4, 5)),
            assumptions: vec![
                "the prefix a parser matches when more input follows is taken to be the longest match of its documented language (PEG greedy reading)".into(),
                "unicode::ident is checked against the unicode-ident crate used whole-string (the same tables chumsky uses per character); regex against regex-automata invoked directly: these catch cursor / anchoring / slicing mistakes, not errors in those crates' tables".into(),
            ],
            require: vec![("matches_compared".into(), 100_000), ("rejections_compared".into(), 100_000), ("str_vs_u8_comparisons".into(), 100_000), ("regex_positions".into(), 100_000)],
            min_evaluations: 500_000,
        },
    )
}
