//! C13 (1c) — clone sweep: chumsky's combinators carry ~60 hand-written `Clone` impls (every struct with
//! a phantom type parameter).  `Boxed::clone` is an `Rc` clone and never calls them, so the boxed
//! builder cannot see a field-copy slip there.  Here statically typed parsers — every configurable
//! combinator with *asymmetric, non-default* settings so that swapped or defaulted fields are visible —
//! are cloned with `.clone()` (and the clone cloned again, the original dropped first where possible);
//! original, clone and clone-of-clone must give the same acceptance, output and errors, in parse and
//! check mode, on every small input.

use crate::ev::*;
use crate::mk::guarded;
use chumsky::error::Rich;
use chumsky::pratt::{infix, left, postfix, prefix, right};
use chumsky::prelude::*;
use serde_json::json;

type E<'s> = extra::Err<Rich<'s, char>>;
type EC<'s> = extra::Full<Rich<'s, char>, (), usize>;
type B<'s> = Boxed<'s, 's, &'s str, String, E<'s>>;

fn r<T: std::fmt::Debug>(t: T) -> String {
    format!("{:?}", t)
}

pub const ALPHABET: [char; 7] = ['a', 'b', ',', '(', ')', '1', ' '];

macro_rules! tri {
    ($v:ident, $name:expr, $p:expr) => {{
        let p = $p;
        let q = p.clone();
        let q2 = q.clone();
        let fresh = $p;
        // the original is boxed last and the fresh one never cloned
        let c2 = q2.map(r).boxed();
        let c1 = q.map(r).boxed();
        $v.push(($name, vec![("a fresh parser", fresh.map(r).boxed()), ("the original (after it was cloned)", p.map(r).boxed()), ("a clone", c1), ("a clone of a clone", c2)]));
    }};
}

pub fn list<'s>() -> Vec<(&'static str, Vec<(&'static str, B<'s>)>)> {
    let mut v: Vec<(&'static str, Vec<(&'static str, B<'s>)>)> = vec![];
    let a = || just::<_, &str, E>('a');
    let b = || just::<_, &str, E>('b');
    let c = || just::<_, &str, E>(',');
    // repetitions and separators: every flag / bound different from the others
    tri!(v, "a.separated_by(',').allow_leading().at_least(1).at_most(3).collect()", a().separated_by(c()).allow_leading().at_least(1).at_most(3).collect::<Vec<_>>().then(any().repeated().collect::<String>()));
    tri!(v, "a.separated_by(',').allow_trailing().at_least(2).collect()", a().separated_by(c()).allow_trailing().at_least(2).collect::<Vec<_>>().then(any().repeated().collect::<String>()));
    tri!(v, "a.separated_by(b).exactly(2) as unit parser, to_slice", a().separated_by(b()).exactly(2).to_slice().then(any().repeated().collect::<String>()));
    tri!(v, "a.or(b).separated_by(',').allow_leading().allow_trailing().count()", a().or(b()).separated_by(c()).allow_leading().allow_trailing().count().then(any().repeated().collect::<String>()));
    tri!(v, "a.repeated().at_least(1).at_most(2).collect()", a().repeated().at_least(1).at_most(2).collect::<Vec<_>>().then(any().repeated().collect::<String>()));
    tri!(v, "a.repeated().exactly(2).collect_exactly::<[_;2]>()", a().repeated().exactly(2).collect_exactly::<[char; 2]>().then(any().repeated().collect::<String>()));
    tri!(v, "a.repeated().at_most(1) as unit parser", a().repeated().at_most(1).to_slice().then(any().repeated().collect::<String>()));
    tri!(v, "a.or(b).repeated().at_least(2).enumerate().collect()", a().or(b()).repeated().at_least(2).enumerate().collect::<Vec<(usize, char)>>().then(any().repeated().count()));
    // sequencing with asymmetric children
    tri!(v, "a.then(b).then(',')", a().then(b()).then(c()));
    tri!(v, "a.ignore_then(b).then_ignore(',')", a().ignore_then(b()).then_ignore(c()).then(any().or_not()));
    tri!(v, "b.delimited_by('(', ')')", b().or_not().delimited_by(just('('), just(')')).then(any().repeated().collect::<String>()));
    tri!(v, "a.padded_by(' ').then(b.padded())", a().padded_by(just(' ')).then(b().padded()).then(any().repeated().collect::<String>()));
    tri!(v, "group((a, b.or_not(), any()))", group((a(), b().or_not(), any())));
    tri!(v, "choice((just(\"ab\"), just(\"a\"), just(\"b\"))).repeated().collect()", choice((just::<_, &str, E>("ab"), just("a"), just("b"))).repeated().collect::<Vec<&str>>());
    tri!(v, "a.or(b).then(any())", a().or(b()).then(any().or_not()));
    // mapping / rejecting
    tri!(v, "any().filter(is a|1).repeated().collect()", any::<&str, E>().filter(|x: &char| *x == 'a' || *x == '1').repeated().collect::<String>().then(any().repeated().collect::<String>()));
    tri!(v, "any().try_map(reject b).or(b.to('B'))", any::<&str, E>().try_map(|x, s| if x == 'b' { Err(Rich::custom(s, "no b")) } else { Ok(x) }).or(b().to('B')).repeated().collect::<String>());
    tri!(v, "a.to(7).then(b.ignored()).then(any().to_span())", a().to(7u8).then(b().ignored()).then(any().to_span()));
    tri!(v, "any().map_with(span).repeated().collect()", any::<&str, E>().map_with(|x, e| (x, e.span())).repeated().at_most(3).collect::<Vec<_>>());
    tri!(v, "a.repeated().to_slice().then(any().repeated().to_slice())", a().repeated().to_slice().then(any().repeated().to_slice()));
    tri!(v, "one_of(\"ab\").then(none_of(\",(\")).then(any())", one_of::<_, &str, E>("ab").then(none_of(",(")).then(any().or_not()));
    tri!(v, "select!{a=>1,b=>2}.repeated().collect()", chumsky::select! { 'a' => 1u8, 'b' => 2u8 }.repeated().collect::<Vec<u8>>().then(any().repeated().count()));
    tri!(v, "a.validate(emit).then(b)", a().validate(|x, e, em| { em.emit(Rich::custom(e.span(), "warn")); x }).then(b().or_not()).then(any().repeated().count()));
    tri!(v, "digits.collect::<String>().from_str::<u8>().unwrapped()", just::<_, &str, E>('1').repeated().at_least(1).at_most(2).collect::<String>().from_str::<u8>().unwrapped().then(any().repeated().count()));
    tri!(v, "collect::<Vec<_>>().into_iter().collect_exactly::<[_;2]>()", a().or(b()).repeated().collect::<Vec<char>>().into_iter().collect_exactly::<[char; 2]>());
    // lookahead
    tri!(v, "any().and_is(b.not()).repeated().collect().then(b)", any::<&str, E>().and_is(b().not()).repeated().collect::<String>().then(b().or_not()).then(any().repeated().count()));
    tri!(v, "a.rewind().then(any()).then(any().or_not())", a().rewind().then(any()).then(any().or_not()));
    // folds
    tri!(v, "a.to(1).foldl(b.to(2).or(','.to(3)).repeated(), non-commutative)", a().to(1u32).foldl(b().to(2u32).or(c().to(3u32)).repeated(), |x, y| x * 10 + y).then(any().repeated().count()));
    tri!(v, "b.to(2).or(','.to(3)).repeated().foldr(a.to(1), non-commutative)", b().to(2u32).or(c().to(3u32)).repeated().foldr(a().to(1u32), |y, x| x * 10 + y).then(any().repeated().count()));
    // errors: labels, map_err, recovery strategies with three different sub-parsers each
    tri!(v, "a.then(b).labelled(\"ab\").as_context().or(','.labelled(\"comma\"))", a().then(b()).to(1u8).labelled("ab").as_context().or(c().to(2u8).labelled("comma")).then(any().repeated().count()));
    tri!(v, "a.then(b).map_err(to custom)", a().then(b()).map_err(|e: Rich<char>| Rich::custom(*e.span(), "mapped")).then(any().repeated().count()));
    tri!(v, "a.then(b).recover_with(via_parser(','.to(..)))", a().then(b()).recover_with(via_parser(c().map(|x| (x, x)))).then(any().repeated().count()));
    tri!(v, "a.then(b).recover_with(skip_until('1', ',', fallback))", a().then(b()).recover_with(skip_until(just('1').ignored(), c().ignored(), || ('!', '!'))).then(any().repeated().count()));
    tri!(v, "a.then(b).recover_with(skip_then_retry_until(any(), ','))", a().then(b()).recover_with(skip_then_retry_until(any().ignored(), c().ignored())).then(any().repeated().count()));
    tri!(v, "nested_delimiters('(', ')', [(',', '1')])", a().delimited_by(just('('), just(')')).recover_with(via_parser(nested_delimiters('(', ')', [(',', '1')], |_| '?'))).then(any().repeated().count()));
    // context and configuration
    tri!(v, "just('1').to(2).then_with_ctx(a.repeated().configure(exactly(ctx)).collect())", just::<_, &str, E>('1').to(2usize).then_with_ctx(just::<_, &str, EC>('a').repeated().configure(|cfg, n: &usize| cfg.exactly(*n)).collect::<String>()).then(any().repeated().count()));
    tri!(v, "b.to(1).ignore_with_ctx(a.repeated().configure(at_most(ctx)).count())", b().to(1usize).ignore_with_ctx(just::<_, &str, EC>('a').repeated().configure(|cfg, n: &usize| cfg.at_most(*n)).count()).then(any().repeated().count()));
    tri!(v, "just(\"\").configure(seq from ctx).with_ctx(..)", just::<_, &str, extra::Full<Rich<char>, (), String>>(String::new()).configure(|cfg, s: &String| cfg.seq(s.clone())).with_ctx(String::from("ab")).then(any().repeated().count()));
    // nested input, memoization, laziness
    tri!(v, "a.repeated().collect().nested_in(any().repeated().at_most(2).to_slice())", a().repeated().collect::<String>().nested_in(any().repeated().at_most(2).to_slice()).then(any().repeated().count()));
    tri!(v, "a.then(b).memoized().or(a.then(',').memoized())", a().then(b()).memoized().or(a().then(c()).memoized()).repeated().collect::<Vec<_>>());
    tri!(v, "a.repeated().at_least(1).collect().lazy()", a().repeated().at_least(1).collect::<String>().lazy());
    // Pratt operators: different powers and associativities per operator
    tri!(v, "pratt(prefix(3,'a'), postfix(2,'b'), infix(left(1),','), infix(right(1),' '))", just::<_, &str, E>('1').map(|x| x.to_string()).pratt((prefix(3, just('a'), |_, x: String, _| format!("(a{})", x)), postfix(2, just('b'), |x: String, _, _| format!("({}b)", x)), infix(left(1), just(','), |l: String, _, rr: String, _| format!("({},{})", l, rr)), infix(right(1), just(' '), |l: String, _, rr: String, _| format!("({} {})", l, rr)))));
    // text
    tri!(v, "text::int(2).then(text::digits(10).to_slice().or_not())", text::int::<&str, E>(2).then(text::digits(10).to_slice().or_not()).then(any().repeated().count()));
    tri!(v, "text::keyword(\"ab\").or(text::ident()).padded().repeated().collect()", text::ascii::keyword::<&str, _, E>("ab").or(text::ascii::ident()).padded().repeated().collect::<Vec<&str>>());
    tri!(v, "regex(\"a+b?\").then(regex(\"[,1]*\"))", regex::<&str, E>("a+b?").then(regex("[,1]*")).then(any().repeated().count()));
    // recursion: clones share the definition; the handle used for the definition is dropped
    tri!(v, "recursive(|t| '(' t* ')' | a)", recursive(|t| t.repeated().count().delimited_by(just('('), just(')')).map(|n| n + 1).or(a().to(0usize))));
    tri!(v, "Recursive::declare/define, defining handle dropped", {
        let mut t = Recursive::declare();
        t.define(just::<_, &str, E>('(').ignore_then(t.clone().or_not()).then_ignore(just(')')).map(|d: Option<usize>| d.unwrap_or(0) + 1));
        let u = t.clone();
        drop(t);
        u
    });
    v
}

type Res = Result<(bool, Option<String>, Vec<String>), String>;

fn run1<'s>(q: &B<'s>, w: &'s str, check: bool) -> Res {
    guarded(|| {
        if check {
            let res = q.check(w);
            (res.has_output(), None, res.errors().map(|e| format!("{:?}@{:?}", e, e.span())).collect::<Vec<_>>())
        } else {
            let res = q.parse(w);
            (res.has_output(), res.output().cloned(), res.errors().map(|e| format!("{:?}@{:?}", e, e.span())).collect::<Vec<_>>())
        }
    })
}

/// `pick`: which parsers of the list (sanitizer jobs split the list over their shards)
pub fn sweep<'s>(acc: &mut Acc, words: &'s [String], pick: &dyn Fn(usize) -> bool) {
    let ps = list::<'s>();
    acc.count("clone_sweep_parsers", ps.iter().enumerate().filter(|(i, _)| pick(*i)).count() as u64);
    for (pi, (name, forms)) in ps.iter().enumerate() {
        if !pick(pi) {
            continue;
        }
        for w in words {
            for check in [false, true] {
                acc.evaluations += 1;
                acc.count("clone_sweep_cases", 1);
                let base = run1(&forms[0].1, w.as_str(), check);
                if matches!(&base, Ok((true, _, _))) {
                    acc.count("clone_sweep_accepting_cases", 1);
                    acc.nontrivial_rand.insert(crate::rng::hash64(format!("clone|{}|{}|{}", name, w, check).as_bytes()));
                }
                for (fname, f) in &forms[1..] {
                    let other = run1(f, w.as_str(), check);
                    if other != base {
                        acc.viol(Viol {
                            weight: 60 + w.len(),
                            what: format!("C13: [{}] on {:?} ({}): a fresh parser gives {:?} but {} gives {:?}", name, w, if check { "check" } else { "parse" }, base, fname, other),
                            detail: json!({"grammar_text": name, "input": w, "form": fname, "mode": if check { "check" } else { "parse" }}),
                        });
                    }
                }
            }
        }
    }
}
