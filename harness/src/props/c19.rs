//! C19 — every value produced by user mappers is dropped exactly once or handed to the caller; the
//! caller's tokens are only ever duplicated through `Clone`.
//!
//! (1) generated grammars (boxed builder with `Opts.track`: every node's output is paired with a
//! fresh drop-tracked value created by a `map`) x all small inputs, `parse` and `check`; the ledger is
//! read while the `ParseResult` is alive (live instances == instances reachable from the output, all
//! distinct) and after it was dropped (live == before, no double drop);
//! (2) statically typed grammars over drop-tracked *tokens* on slices and streams: originals are never
//! dropped by the parser, clones are balanced;
//! (2b) 10 statically typed grammars whose outputs are ZERO-SIZED values with a destructor (arrays via collect_exactly and group, Vec of zero-sized elements, memoized, folds, nested) x all words over {{a,b,c}}: live counter while the result is alive == instances held by the output, back to its previous value after the drop. (2c) 29 statically typed parsers built from public combinators outside the grammar AST whose values are drop-tracked (collect_exactly into Box<[T;N]> and nested boxes; collect into LinkedList, VecDeque, BTreeMap, HashMap, HashSet, Box<Vec>, Cell, RefCell, (), count, enumerate; Pratt tables with tracked operands and tracked operator values; then_with_ctx / ignore_with_ctx / with_ctx with a tracked context cloned by readers; to(); into_iter() with left-over items; unwrapped(); try_map / validate; and_is / not / rewind over value-producing parsers; foldr, foldl_with; skip_until / skip_then_retry_until / via_parser recovery with value-building fallbacks; nested_in; lazy; tuple and array groups) x all words <= {} over {{a,b,x,-,+,;}}, parse and check, same ledger oracle. (3) the same drivers under Miri (leak check, double free, uninitialised reads) and ASan+LSan.

use crate::classes;
use crate::drv::*;
use crate::ev::*;
use crate::gram::*;
use crate::mk::*;
use crate::obs::{Insp, Steps};
use crate::par::for_each_index;
use crate::rng::Rng;
use crate::track::{self, TTok};
use chumsky::error::Rich;
use chumsky::input::Stream;
use chumsky::prelude::*;
use serde_json::{json, Value};

pub fn basis() -> Basis {
    let mut b = classes::k01(true);
    b.ctors.extend(classes::rep_light());
    b.ctors.extend(classes::fold_ctors());
    b.ctors.extend(classes::validate_ctors());
    b.ctors.extend(classes::recover_ctors());
    b.ctors.push(ctor(1, |mut k| G::un(Op::Memo, k.remove(0))));
    b.ctors.push(ctor(3, |k| G::new(Op::GroupArr, k)));
    b.ctors.push(ctor(3, |k| G::new(Op::Group, k)));
    for (lo, hi, flav) in [(0u8, None, Flav::Arr2), (0, None, Flav::Arr3), (1, Some(2u8), Flav::Arr3), (0, Some(1), Flav::Arr2), (0, None, Flav::Vec), (2, Some(3), Flav::Vec), (3, None, Flav::Arr2), (4, Some(5), Flav::Arr3), (3, Some(3), Flav::Arr2)] {
        b.ctors.push(ctor(1, move |mut k| G::rep(k.remove(0), lo, hi, flav)));
    }
    b
}

/// Smaller basis for the exhaustive part (partial fixed-size collection in every position).
pub fn enum_basis() -> Basis {
    let mut b = classes::k01_core(true);
    b.ctors.push(ctor(2, |k| G::new(Op::GroupArr, k)));
    b.ctors.push(ctor(3, |k| G::new(Op::GroupArr, k)));
    b.ctors.push(ctor(2, |k| G::new(Op::Group, k)));
    for (lo, hi, flav) in [(0u8, None, Flav::Arr2), (0, None, Flav::Arr3), (0, Some(2u8), Flav::Arr3), (0, None, Flav::Vec), (0, None, Flav::Unit), (1, Some(2), Flav::Vec), (3, None, Flav::Arr2), (4, None, Flav::Arr3)] {
        b.ctors.push(ctor(1, move |mut k| G::rep(k.remove(0), lo, hi, flav)));
    }
    b.ctors.push(ctor(2, |mut k| {
        let s = k.remove(1);
        let i = k.remove(0);
        G::bin(Op::Sep, i, s).with(|p| p.flav = Flav::Arr2)
    }));
    b.ctors.push(ctor(2, |k| G::new(Op::RecVia, k)));
    b.ctors.push(ctor(1, |mut k| G::un(Op::Memo, k.remove(0))));
    b.ctors.extend(classes::fold_ctors());
    b
}

const TRACK: Opts = Opts { wrap: false, slice: false, obs: false, track: true, clone_iter: false };

fn has_fixed(g: &G) -> bool {
    g.any_node(&|n| n.op == Op::GroupArr || (matches!(n.op, Op::Rep | Op::Sep) && matches!(n.p.flav, Flav::Arr2 | Flav::Arr3)))
}

/// One tracked run.  Everything about the `ParseResult` is inspected inside the guarded closure so
/// that the result is dropped before the final ledger reading.
pub fn ledger_case<'s>(acc: &mut Acc, g: &G, p: &BP<'s, &'s str, Rich<'s, char>>, buf: &'s Buf, check: bool, enumerated: bool) {
    acc.evaluations += 1;
    let mode = if check { "check" } else { "parse" };
    let before = track::live();
    let (c0, cl0, _d0, dd0) = track::counts();
    let r = guarded(|| {
        let mut st = Insp::with_budget(0, STEP_BUDGET);
        if check {
            let r = p.check_with_state(buf.text.as_str(), &mut st);
            let live_with_result = track::live();
            let has = r.has_output();
            drop(r);
            (has, live_with_result, 0usize, None::<String>)
        } else {
            let r = p.parse_with_state(buf.text.as_str(), &mut st);
            let live_with_result = track::live();
            let mut ids = vec![];
            if let Some(o) = r.output() {
                o.tracked_ids(&mut ids);
            }
            let mut bad = None;
            for id in &ids {
                if !track::is_live(*id) {
                    bad = Some(format!("value #{} is part of the returned output but was already dropped", id));
                }
            }
            let mut sorted = ids.clone();
            sorted.sort();
            sorted.dedup();
            if sorted.len() != ids.len() {
                bad = Some("the same tracked instance occurs twice in the returned output".into());
            }
            let has = r.has_output();
            drop(r);
            (has, live_with_result, ids.len(), bad)
        }
    });
    let after = track::live();
    let (c1, cl1, _d1, dd1) = track::counts();
    let created = (c1 - c0) + (cl1 - cl0);
    match r {
        Ok((has, live_with_result, handed, bad)) => {
            acc.count("values_created_by_mappers", c1 - c0);
            acc.count("values_cloned", cl1 - cl0);
            acc.count("values_handed_to_the_caller", handed as u64);
            let abandoned = created.saturating_sub(handed as u64);
            if abandoned > 1 && handed > 0 {
                acc.sample(4099, || json!({"grammar": g.show(), "input": buf.text, "mode": mode, "tracked_values_created": created, "handed_to_the_caller": handed, "dropped_during_the_parse": abandoned, "live_after_result_dropped": after - before}));
            }
            acc.count("values_dropped_on_abandoned_or_internal_paths", abandoned);
            if abandoned > 0 {
                note_nontrivial(acc, enumerated, || format!("{}|{}|{}", g.show(), buf.text, mode));
                if has_fixed(g) {
                    acc.count("cases_with_fixed_size_collection_and_dropped_values", 1);
                    if !has {
                        acc.count("rejected_cases_with_fixed_size_collection_and_dropped_values", 1);
                    }
                }
            }
            let d = if let Some(b) = bad {
                Some(b)
            } else if dd1 != dd0 {
                Some(format!("{} value(s) dropped twice", dd1 - dd0))
            } else if after != before {
                Some(format!("{} value(s) created during {}() are still alive after the result was dropped (leak)", after - before, mode))
            } else if live_with_result - before != handed as i64 {
                Some(format!("when {}() returned, {} tracked value(s) were alive but only {} are reachable from the returned output", mode, live_with_result - before, handed))
            } else {
                None
            };
            if let Some(d) = d {
                acc.viol(Viol::case(format!("C19: {}", d), g, &buf.chars, json!({"mode": mode, "created": created, "handed": handed})));
            }
        }
        Err(e) if e == "STEP_BUDGET" => acc.pathological += 1,
        Err(_) => {
            // a panic is C20's business; the ledger after an unwind through MaybeUninit storage is not judged
            acc.count("panicking_cases_skipped", 1);
        }
    }
    if track::live() == 0 && c1 > 1_000_000 {
        track::reset();
    }
}

fn one_grammar<'s>(acc: &mut Acc, g: &G, bufs: &'s [Buf], enumerated: bool) {
    let p = build::<&str, Rich<char>>(g, TRACK);
    for buf in bufs {
        ledger_case(acc, g, &p, buf, false, enumerated);
        ledger_case(acc, g, &p, buf, true, enumerated);
    }
    drop(p);
}

// -----------------------------------------------------------------------------------------------
// (2) tracked tokens

type ET<'s> = extra::Full<Rich<'s, TTok>, Steps, ()>;

fn t(c: char) -> TTok {
    TTok::new(c)
}

macro_rules! tok_parsers {
    ($I:ty, $s:lifetime) => {{
        type E<$s> = extra::Full<Rich<$s, TTok>, Steps, ()>;
        fn mk<$s>() -> Vec<(&'static str, Boxed<$s, $s, $I, usize, E<$s>>)> {
        let v: Vec<(&'static str, Boxed<$s, $s, $I, usize, E<$s>>)> = vec![
            ("any().repeated().collect::<Vec<_>>()", any::<$I, E>().repeated().collect::<Vec<TTok>>().map(|v| v.len()).boxed()),
            ("any().repeated().collect_exactly::<[_;2]>().then(any().repeated())", any::<$I, E>().repeated().collect_exactly::<[TTok; 2]>().then(any().repeated()).map(|(a, _)| a.len()).boxed()),
            (
                "group([any(), any(), just(b)]).or(any().repeated().at_most(2).collect_exactly::<[_;3]>()).or_not().then(any().repeated())",
                group([any::<$I, E>().boxed(), any().boxed(), just(t('b')).boxed()])
                    .or(any().repeated().at_most(2).collect_exactly::<[TTok; 3]>())
                    .or_not()
                    .then(any().repeated())
                    .map(|(a, _)| a.map(|a| a.len()).unwrap_or(0))
                    .boxed(),
            ),
            ("just(a).then(any()).or(just(a).then(just(b)).then(just(c)).map(..)).repeated().collect()", {
                let ab = just::<_, $I, E>(t('a')).then(just(t('b'))).then(just(t('c'))).map(|((a, _b), _c)| a);
                ab.or(just(t('a')).then(any()).map(|(_, x)| x)).repeated().collect::<Vec<TTok>>().map(|v| v.len()).boxed()
            }),
            (
                "one_of([a,b]).separated_by(just(c)).allow_trailing().collect().then(none_of([a]).or_not())",
                one_of::<_, $I, E>([t('a'), t('b')]).separated_by(just(t('c'))).allow_trailing().collect::<Vec<TTok>>().then(none_of([t('a')]).or_not()).map(|(v, o)| v.len() + o.is_some() as usize).boxed(),
            ),
            (
                "any().filter(is a).or(any().try_map(reject c)).foldl(any().repeated(), keep last)",
                any::<$I, E>()
                    .filter(|x: &TTok| x.c == 'a')
                    .or(any().try_map(|x: TTok, s| if x.c == 'c' { Err(Rich::custom(s, "no c")) } else { Ok(x) }))
                    .foldl(any().repeated(), |_a, b| b)
                    .map(|_| 1usize)
                    .boxed(),
            ),
            (
                "select(a|b).repeated().at_least(1).collect().recover_with(via_parser(any().repeated().collect()))",
                chumsky::primitive::select(|x: TTok, _| if x.c != 'c' { Some(x) } else { None })
                    .repeated()
                    .at_least(1)
                    .collect::<Vec<TTok>>()
                    .then_ignore(end())
                    .recover_with(via_parser(any::<$I, E>().repeated().collect::<Vec<TTok>>()))
                    .map(|v| v.len())
                    .boxed(),
            ),
            (
                "any().memoized().then(just(b)).or(any().memoized().then(just(c))).repeated().collect()",
                any::<$I, E>().memoized().then(just(t('b'))).or(any().memoized().then(just(t('c')))).repeated().collect::<Vec<(TTok, TTok)>>().map(|v| v.len()).boxed(),
            ),
            (
                "any().and_is(just(a).not()).repeated().collect().then(any().rewind().or_not()).then(any().repeated())",
                any::<$I, E>().and_is(just(t('a')).not()).repeated().collect::<Vec<TTok>>().then(any().rewind().or_not()).then(any().repeated()).map(|((v, _), _)| v.len()).boxed(),
            ),
            (
                "any().repeated().at_least(1).at_most(2).collect::<Vec<_>>().repeated().collect_exactly::<[_;2]>().lazy()",
                any::<$I, E>().repeated().at_least(1).at_most(2).collect::<Vec<TTok>>().repeated().collect_exactly::<[Vec<TTok>; 2]>().lazy().map(|a| a.len()).boxed(),
            ),
            (
                "skip_then_retry_until recovery around just(a).then(just(b))",
                just::<_, $I, E>(t('a')).then(just(t('b'))).map(|(a, _)| vec![a]).recover_with(skip_then_retry_until(any().ignored(), end())).then(any().repeated().collect::<Vec<TTok>>()).map(|(a, b)| a.len() + b.len()).boxed(),
            ),
        ];
        v
        }
        mk()
    }};
}

fn tok_case(acc: &mut Acc, name: &str, word: &[char], kind: &str, mode: &str, originals: &[u32], handed_over: i64, f: impl FnOnce() -> bool) {
    acc.evaluations += 1;
    acc.count("token_cases", 1);
    let before = track::live();
    let (_c0, cl0, _d0, dd0) = track::counts();
    let r = guarded(f);
    let after = track::live();
    let (_c1, cl1, _d1, dd1) = track::counts();
    acc.count("token_clones_made_by_the_parser", cl1 - cl0);
    if cl1 > cl0 {
        acc.nontrivial_rand.insert(crate::rng::hash64(format!("{}|{:?}|{}|{}", name, word, kind, mode).as_bytes()));
    }
    let input: String = word.iter().collect();
    let viol = |acc: &mut Acc, d: String| {
        acc.viol(Viol { weight: 200 + word.len(), what: format!("C19: [{}] on {:?} ({} input, {}): {}", name, input, kind, mode, d), detail: json!({"grammar_text": name, "input": input, "kind": kind, "mode": mode}) });
    };
    match r {
        Ok(_) => {
            if dd1 != dd0 {
                viol(acc, format!("{} token instance(s) dropped twice", dd1 - dd0));
            } else if after != before - handed_over {
                viol(acc, format!("{} token instance(s) still alive after the result (and, for a stream, the stream owning the tokens) was dropped: leak if positive, an instance dropped that the parser did not own if negative", after - (before - handed_over)));
            }
            for id in originals {
                if !track::is_live(*id) {
                    viol(acc, format!("the caller's token #{} was dropped by the parser", id));
                    break;
                }
            }
        }
        Err(_) => acc.count("panicking_cases_skipped", 1),
    }
}

pub fn token_family(acc: &mut Acc, words: &[Vec<char>]) {
    for w in words {
        // slice input: the parser borrows the caller's tokens
        {
            let toks: Vec<TTok> = w.iter().map(|c| TTok::new(*c)).collect();
            let ids: Vec<u32> = toks.iter().map(|t| t.id).collect();
            let ps = tok_parsers!(&'s [TTok], 's);
            for (name, p) in &ps {
                let slice: &[TTok] = &toks;
                tok_case(acc, name, w, "slice", "parse", &ids, 0, || {
                    let r = p.parse_with_state(slice, &mut Steps::with_budget(STEP_BUDGET));
                    r.has_output()
                });
                tok_case(acc, name, w, "slice", "check", &ids, 0, || p.check_with_state(slice, &mut Steps::with_budget(STEP_BUDGET)).has_output());
            }
            drop(ps);
            drop(toks);
        }
        // stream input: the stream owns the tokens and hands out clones
        {
            let ps = tok_parsers!(Stream<std::vec::IntoIter<TTok>>, 's);
            for (name, p) in &ps {
                for mode in ["parse", "check"] {
                    let toks: Vec<TTok> = w.iter().map(|c| TTok::new(*c)).collect();
                    let before_all = track::live() - toks.len() as i64;
                    tok_case(acc, name, w, "stream", mode, &[], toks.len() as i64, || {
                        let s = Stream::from_iter(toks);
                        if mode == "parse" {
                            p.parse_with_state(s, &mut Steps::with_budget(STEP_BUDGET)).has_output()
                        } else {
                            p.check_with_state(s, &mut Steps::with_budget(STEP_BUDGET)).has_output()
                        }
                    });
                    // the stream (and with it the moved-in tokens) is gone: nothing of this case may be alive
                    if track::live() != before_all {
                        let input: String = w.iter().collect();
                        acc.viol(Viol { weight: 200 + w.len(), what: format!("C19: [{}] on {:?} (stream input, {}): {} token instance(s) alive after the stream was consumed and dropped", name, input, mode, track::live() - before_all), detail: json!({"grammar_text": name, "input": input, "kind": "stream", "mode": mode}) });
                    }
                }
            }
        }
    }
    if track::live() == 0 {
        track::reset();
    }
}

// -----------------------------------------------------------------------------------------------
// (2b) zero-sized values with a destructor (no id to carry: only a live counter)

thread_local! {
    static Z_LIVE: std::cell::Cell<i64> = std::cell::Cell::new(0);
    static Z_MADE: std::cell::Cell<u64> = std::cell::Cell::new(0);
}
/// A zero-sized output value whose construction and destruction are counted.
pub struct Z;
impl Z {
    fn new() -> Z {
        Z_LIVE.with(|c| c.set(c.get() + 1));
        Z_MADE.with(|c| c.set(c.get() + 1));
        Z
    }
}
impl Clone for Z {
    fn clone(&self) -> Z {
        Z::new()
    }
}
impl Drop for Z {
    fn drop(&mut self) {
        let _ = Z_LIVE.try_with(|c| c.set(c.get() - 1));
    }
}

type EZ<'s> = extra::Err<Rich<'s, char>>;
/// output: (number of Z instances the output holds, the output itself kept alive behind `Any`)
type ZOut = (usize, Box<dyn std::any::Any>);

fn zst_parsers<'s>() -> Vec<(&'static str, Boxed<'s, 's, &'s str, ZOut, EZ<'s>>)> {
    fn keep<T: 'static>(n: usize, t: T) -> ZOut {
        (n, Box::new(t))
    }
    let z = || any::<&str, EZ>().map(|_| Z::new());
    let za = || just::<_, &str, EZ>('a').map(|_| Z::new());
    vec![
        ("any().map(Z).repeated().collect_exactly::<[Z;3]>()", z().repeated().collect_exactly::<[Z; 3]>().map(|a| keep(3, a)).boxed()),
        ("just('a').map(Z).repeated().collect_exactly::<[Z;2]>().or_not().then(any().repeated())", za().repeated().collect_exactly::<[Z; 2]>().or_not().then_ignore(any().repeated()).map(|o| keep(o.as_ref().map(|a| a.len()).unwrap_or(0), o)).boxed()),
        ("any().map(Z).repeated().at_most(2).collect_exactly::<[Z;3]>().or(any().map(Z).repeated().collect::<Vec<Z>>().map(..))", z().repeated().at_most(2).collect_exactly::<[Z; 3]>().map(|a| keep(3, a)).or(z().repeated().collect::<Vec<Z>>().map(|v| keep(v.len(), v))).boxed()),
        ("just('a').map(Z).separated_by(just('b')).collect_exactly::<[Z;2]>().then(any().repeated())", za().separated_by(just('b')).collect_exactly::<[Z; 2]>().then_ignore(any().repeated()).map(|a| keep(2, a)).boxed()),
        ("group([za, za, za]).or(group([za, z]).map(..)).or_not().then(any().repeated())", group([za().boxed(), za().boxed(), za().boxed()]).map(|a| keep(3, a)).or(group([za().boxed(), z().boxed()]).map(|a| keep(2, a))).or_not().then_ignore(any().repeated()).map(|o| o.unwrap_or_else(|| keep(0, ()))).boxed()),
        ("any().map(Z).repeated().collect::<Vec<Z>>() (zero-sized elements)", z().repeated().collect::<Vec<Z>>().map(|v| keep(v.len(), v)).boxed()),
        ("za.memoized().then(just('b')).or(za.memoized().then(just('a'))).repeated().collect()", za().memoized().then(just('b')).or(za().memoized().then(just('a'))).repeated().collect::<Vec<(Z, char)>>().map(|v| keep(v.len(), v)).boxed()),
        ("za.foldl(any().map(Z).repeated(), keep the newer)", za().foldl(z().repeated(), |_old, new| new).map(|x| keep(1, x)).boxed()),
        ("just('a').map(Z).repeated().at_least(3).collect_exactly::<[Z;2]>().or_not().then(any().repeated())", za().repeated().at_least(3).collect_exactly::<[Z; 2]>().or_not().then_ignore(any().repeated()).map(|o| keep(o.as_ref().map(|_| 2).unwrap_or(0), o)).boxed()),
        ("collect_exactly::<[Z;2]> inside a repetition that abandons its last iteration", z().repeated().collect_exactly::<[Z; 2]>().repeated().collect::<Vec<[Z; 2]>>().then_ignore(any().or_not()).map(|v| keep(v.len() * 2, v)).boxed()),
    ]
}

pub fn zst_family<'s>(acc: &mut Acc, words: &'s [String]) {
    assert_eq!(std::mem::size_of::<Z>(), 0);
    let ps = zst_parsers::<'s>();
    for (name, p) in &ps {
        for w in words {
            for mode in ["parse", "check"] {
                acc.evaluations += 1;
                acc.count("zero_sized_value_cases", 1);
                let before = Z_LIVE.with(|c| c.get());
                let made0 = Z_MADE.with(|c| c.get());
                let r = guarded(|| {
                    if mode == "parse" {
                        let r = p.parse(w.as_str());
                        let held = r.output().map(|o| o.0).unwrap_or(0) as i64;
                        let live = Z_LIVE.with(|c| c.get());
                        drop(r);
                        (held, live)
                    } else {
                        let r = p.check(w.as_str());
                        let live = Z_LIVE.with(|c| c.get());
                        drop(r);
                        (0, live)
                    }
                });
                let after = Z_LIVE.with(|c| c.get());
                let made = Z_MADE.with(|c| c.get()) - made0;
                acc.count("zero_sized_values_created", made);
                if let Ok((held, live_with_result)) = r {
                    if made as i64 > held {
                        acc.nontrivial_rand.insert(crate::rng::hash64(format!("zst|{}|{}|{}", name, w, mode).as_bytes()));
                        acc.count("zero_sized_values_dropped_during_the_parse", (made as i64 - held) as u64);
                    }
                    let d = if after != before {
                        Some(format!("{} zero-sized value(s) with a destructor still alive after the result was dropped (negative: dropped more often than created)", after - before))
                    } else if live_with_result - before != held {
                        Some(format!("when {}() returned, {} zero-sized value(s) were alive but the output holds {}", mode, live_with_result - before, held))
                    } else {
                        None
                    };
                    if let Some(d) = d {
                        acc.viol(Viol { weight: 150 + w.len(), what: format!("C19: [{}] on {:?} ({}): {}", name, w, mode, d), detail: json!({"grammar_text": name, "input": w, "mode": mode, "created": made}) });
                        // re-base so that one leak is not reported for every following case
                        Z_LIVE.with(|c| c.set(before));
                    }
                }
            }
        }
    }
}

fn small_bufs(max_len: usize) -> Vec<Buf> {
    all_inputs(&['a', 'b', 'é'], max_len).iter().map(|w| Buf::new(w)).collect()
}

/// The native workload (parts 1, 2, 2b); runs in a child process because a double drop may corrupt the
/// allocator and take the process down.  `cvh child c19 <tier> <seed> <threads>`
pub fn child_native(args: &[String]) -> i32 {
    crate::ev::EAGER.store(true, std::sync::atomic::Ordering::Relaxed);
    let cx = &RunCtx { prop: "C19".into(), tier: args[0].clone(), seed: args[1].parse().unwrap_or(0), threads: args[2].parse().unwrap_or(8), evidence_path: String::new(), replay_dir: String::new(), known_path: String::new(), start: std::time::Instant::now() };
    let max_len = cx.t(4, 5);
    let bufs = small_bufs(max_len);
    let size = cx.t(3, 4);
    let eb = enum_basis();
    let grammars: Vec<G> = eb.up_to(size);
    let n_enum = grammars.len();
    let mut acc = for_each_index(grammars.len(), cx.threads, 8, |acc, gi| {
        acc.eager = true;
        one_grammar(acc, &grammars[gi], &bufs, true)
    });
    acc.count("enumerated_grammars", n_enum as u64);

    let n_rand = cx.t(160_000, 2_000_000);
    let seed = cx.seed;
    let rb = basis();
    let racc = for_each_index(n_rand, cx.threads, 32, |acc, i| {
        let mut rng = Rng::derive(seed, 0xC19, i as u64);
        let sz = rng.range(4, 13);
        let g = rb.random(&mut rng, sz);
        let bufs: Vec<Buf> = (0..6).map(|_| Buf::new(&random_input(&mut rng, &SIGMA_PLUS, 9))).collect();
        one_grammar(acc, &g, &bufs, false);
    });
    acc.merge(racc);
    acc.count("random_grammars", n_rand as u64);

    // (2)
    let words = all_inputs(&['a', 'b', 'c'], cx.t(4, 6));
    let nw = words.len();
    let tacc = for_each_index(words.len(), cx.threads, 4, |acc, i| token_family(acc, &words[i..i + 1]));
    acc.merge(tacc);

    // (2b)
    let zwords: Vec<String> = all_inputs(&['a', 'b', 'c'], cx.t(5, 6)).iter().map(|w| w.iter().collect()).collect();
    let zacc = for_each_index(16, cx.threads, 1, |acc, shard| {
        let mine: Vec<String> = zwords.iter().skip(shard).step_by(16).cloned().collect();
        zst_family(acc, &mine);
    });
    acc.merge(zacc);

    // (2c)
    let awords: Vec<String> = all_inputs(&super::c19api::ALPHABET, cx.t(4, 5)).iter().map(|w| w.iter().collect()).collect();
    let aacc = for_each_index(32, cx.threads, 1, |acc, shard| {
        let mine: Vec<String> = awords.iter().skip(shard).step_by(32).cloned().collect();
        super::c19api::family(acc, &mine);
    });
    acc.merge(aacc);

    println!("ACC {}", acc.to_json());
    0
}

fn sizes(cx: &RunCtx) -> (usize, usize, usize, usize) {
    (cx.t(4, 5), cx.t(3, 4), cx.t(160_000, 2_000_000), all_inputs(&['a', 'b', 'c'], cx.t(4, 6)).len())
}

pub fn run(cx: &RunCtx) -> i32 {
    let (max_len, size, n_rand, nw) = sizes(cx);
    let mut acc = Acc::default();
    let c = crate::proc::run_child(&["c19".into(), cx.tier.clone(), cx.seed.to_string(), cx.threads.to_string()], std::time::Duration::from_secs(cx.t(1800, 4 * 3600)), 24 << 20);
    let child_acc = c.stdout.lines().rev().find_map(|l| l.strip_prefix("ACC ").and_then(|j| serde_json::from_str::<Value>(j).ok())).map(|v| Acc::from_json(&v));
    acc.count("child_processes", 1);
    match (child_acc, c.code, c.timed_out) {
        (Some(a), Some(0), _) => acc.merge(a),
        (_, _, true) => {
            acc.inconclusive += 1;
            eprintln!("C19: the child running the drop-ledger workload was killed by the wall-clock watchdog (inconclusive): {}", c.describe());
        }
        _ => {
            // whatever the ledger reported before the process went down, then the death itself
            for l in c.stdout.lines().filter_map(|l| l.strip_prefix("VIOL ")) {
                if let Ok(v) = serde_json::from_str::<Value>(l) {
                    acc.viol(Viol { weight: v["weight"].as_u64().unwrap_or(0) as usize, what: v["what"].as_str().unwrap_or("").to_string(), detail: v["detail"].clone() });
                }
            }
            acc.viol(Viol { weight: 100_000, what: format!("C19: the process running the drop-ledger workload died ({}): memory corruption such as a double free of an output value", c.describe()), detail: json!({"grammar_text": "drop-ledger workload", "input": "", "child": c.describe()}) });
        }
    }

    // (3)
    crate::san::miri_job_flags(&mut acc, cx, "C19", "c19", cx.t(16, 48), cx.t(4, 8), "");
    if cx.thorough() {
        crate::san::asan_job(&mut acc, cx, "C19", "c19", 400, 8, true);
    }

    finish(
        cx,
        acc,
        Finish {
            rule: format!("(1) every grammar with <= {size} nodes over a class with group([..;2|3]), tuple groups, collect_exactly::<[_;2|3]> (repeated and separated_by), Vec / unit repetitions, folds, lookahead, filter/try_map, via_parser recovery and memoized() x every input <= {max_len} over {{a,b,é}}, and {n_rand} random grammars of 4..13 nodes (also validate, all recovery strategies) x 6 inputs; every node's output carries a fresh drop-tracked value created by a map(); parse and check. Ledger oracle: while the ParseResult is alive the live tracked instances are exactly those reachable from the output (each once, none already dropped); after dropping it the live count is back to its value before the call; no instance is dropped twice. (2) 11 statically typed grammars whose outputs contain the tokens themselves (Vec, [T;2], [T;3], group of an array, folds, select, memoized, recovery) over drop-tracked tokens x all {nw} words <= {} over {{a,b,c}} on &[T] (originals must stay alive, clones balanced) and on Stream (everything balanced once the stream is gone). (2b) 10 statically typed grammars whose outputs are ZERO-SIZED values with a destructor (arrays via collect_exactly and group, Vec of zero-sized elements, memoized, folds, nested) x all words over {{a,b,c}}: live counter while the result is alive == instances held by the output, back to its previous value after the drop. (2c) 29 statically typed parsers built from public combinators outside the grammar AST whose values are drop-tracked (collect_exactly into Box<[T;N]> and nested boxes; collect into LinkedList, VecDeque, BTreeMap, HashMap, HashSet, Box<Vec>, Cell, RefCell, (), count, enumerate; Pratt tables with tracked operands and tracked operator values; then_with_ctx / ignore_with_ctx / with_ctx with a tracked context cloned by readers; to(); into_iter() with left-over items; unwrapped(); try_map / validate; and_is / not / rewind over value-producing parsers; foldr, foldl_with; skip_until / skip_then_retry_until / via_parser recovery with value-building fallbacks; nested_in; lazy; tuple and array groups) x all words <= {} over {{a,b,x,-,+,;}}, parse and check, same ledger oracle. (3) the same drivers under Miri with leak checking (and ASan+LSan in the thorough tier). Non-trivial: runs in which values were created and dropped on abandoned / internal paths; token runs in which the parser cloned tokens", cx.t(4, 6), cx.t(4, 5)),
            exhaustive: false,
            exhaustive_note: format!("grammars <= {size} nodes of the enumeration class x inputs <= {max_len}: complete"),
            assumptions: vec![
                "the ledger after a panic is not judged (a panic is a C20 violation); such cases are counted".into(),
                "Recursive::declare/define reference cycles (documented parser-side leak, not an output value) are kept out of the leak-checked sanitizer workload".into(),
            ],
            require: vec![
                ("values_created_by_mappers".into(), 500_000),
                ("values_dropped_on_abandoned_or_internal_paths".into(), 100_000),
                ("values_handed_to_the_caller".into(), 50_000),
                ("rejected_cases_with_fixed_size_collection_and_dropped_values".into(), 1000),
                ("token_cases".into(), 1000),
                ("zero_sized_value_cases".into(), 1000),
                ("zero_sized_values_dropped_during_the_parse".into(), 1000),
                ("token_clones_made_by_the_parser".into(), 1000),
                ("api_family_cases".into(), 10_000),
                ("api_family_values_dropped_during_the_parse".into(), 10_000),
                ("api_family_values_handed_to_the_caller".into(), 10_000),
                ("miri_processes_clean".into(), 1),
            ],
            min_evaluations: 100_000,
        },
    )
}

/// Reduced slice for the sanitizer builds.
pub fn san_job(size: usize, seed: u64, shard: usize) -> Value {
    let mut acc = Acc::default();
    let mut rng = Rng::derive(seed, 0x5A19, shard as u64);
    // (no enumeration here: building the grammar list is itself slow under an interpreter)
    let eb = enum_basis();
    let bufs: Vec<Buf> = [vec![], vec!['a'], vec!['a', 'b'], vec!['b', 'a', 'é'], vec!['a', 'a', 'a', 'b']].iter().map(|w| Buf::new(w)).collect();
    for k in 0..size {
        let mut g = eb.random(&mut rng, 2 + k % 4).numbered();
        if k % 2 == 0 {
            // a fixed-size collection in every other grammar
            for _ in 0..20 {
                if has_fixed(&g) && g.well_formed() {
                    break;
                }
                g = eb.random(&mut rng, 3 + k % 3).numbered();
            }
        }
        if !g.well_formed() {
            continue;
        }
        one_grammar(&mut acc, &g, &bufs, false);
    }
    let words: Vec<Vec<char>> = vec![vec![], vec!['a'], vec!['a', 'b'], vec!['a', 'b', 'c'], vec!['c', 'a', 'b', 'b'], vec!['a', 'a', 'b', 'c', 'a']];
    let pick = vec![words[rng.below(words.len())].clone(), words[(shard + 1) % words.len()].clone()];
    token_family(&mut acc, &pick[..(1 + (size > 8) as usize)]);
    let zw: Vec<String> = ["", "a", "ab", "aab", "abab", "aaaa"].iter().map(|s| s.to_string()).collect();
    zst_family(&mut acc, &zw[..(2 + size.min(4))]);
    let aw: Vec<String> = ["", "a", "ab", "aab", "x+x", "-x;", "aba;", "x+-x", "ab;ab", "aaxb"].iter().map(|s| s.to_string()).collect();
    let mine: Vec<String> = aw.iter().take(6 + size / 8).cloned().collect();
    super::c19api::family_subset(&mut acc, &mine, &|pi| pi % 4 == shard % 4);
    acc.to_json()
}
