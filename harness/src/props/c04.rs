//! C04 — check mode and internal output elision are unobservable.  Differential monitor between
//! real executions: parse vs check on the same parser value, and paired formulations.

use crate::classes;
use crate::drv::*;
use crate::ev::*;
use crate::gram::*;
use crate::mk::*;
use crate::par::for_each_index;
use crate::rng::{hash64, Rng};
use crate::val::Val;
use chumsky::error::Rich;
use chumsky::prelude::*;
use serde_json::json;

type I<'s> = &'s str;
type ER<'s> = Rich<'s, char>;
type P<'s> = BP<'s, I<'s>, ER<'s>>;

pub fn basis() -> Basis {
    let mut b = classes::k01(true);
    b.leaves.push(G::leaf(Op::Probe));
    b.ctors.extend(classes::rep_light());
    b.ctors.extend(classes::fold_ctors());
    b.ctors.extend(classes::validate_ctors());
    b.ctors.extend(classes::recover_ctors());
    b.ctors.extend(classes::decor_ctors());
    b.ctors.push(ctor(1, |mut k| G::un(Op::Memo, k.remove(0))));
    b.ctors.push(ctor(1, |mut k| G::un(Op::ExtWrap, k.remove(0))));
    b.ctors.push(ctor(1, |mut k| G::un(Op::WithState, k.remove(0)).with(|p| p.n = 3)));
    b.ctors.push(ctor(1, |mut k| G::un(Op::WithCtx, k.remove(0)).with(|p| p.cs = vec!['a'])));
    b.ctors.push(ctor(2, |k| G::new(Op::ThenWithCtx, k)));
    b.ctors.push(ctor(1, |mut k| G::un(Op::RecNested, k.remove(0))));
    b
}

/// Side-by-side comparison of two runs; `out` = also compare outputs.
fn same(a: &RunOut, b: &RunOut, outputs: bool, what: &str) -> Option<String> {
    if a.has_output != b.has_output {
        return Some(format!("{}: acceptance differs ({} vs {})", what, a.has_output, b.has_output));
    }
    if a.errs != b.errs {
        return Some(format!(
            "{}: error lists differ: {:?} vs {:?}",
            what,
            a.errs.iter().map(|e| e.show()).collect::<Vec<_>>(),
            b.errs.iter().map(|e| e.show()).collect::<Vec<_>>()
        ));
    }
    if a.has_output && a.st != b.st {
        return Some(format!("{}: final inspector state differs {:?} vs {:?}", what, a.st, b.st));
    }
    if a.trace != b.trace {
        return Some(format!(
            "{}: probe traces (consumption as seen by zero-width probes) differ: {:?} vs {:?}",
            what,
            a.trace.iter().map(|p| (p.id, p.off, p.n)).collect::<Vec<_>>(),
            b.trace.iter().map(|p| (p.id, p.off, p.n)).collect::<Vec<_>>()
        ));
    }
    if outputs {
        if let (Some(x), Some(y)) = (&a.out, &b.out) {
            if x != y {
                return Some(format!("{}: outputs differ: {} vs {}", what, x.show(), y.show()));
            }
        }
    }
    None
}

fn parse_vs_check<'s>(acc: &mut Acc, g: &G, p: &P<'s>, buf: &'s Buf, enumerated: bool) {
    acc.evaluations += 1;
    let a = guarded(|| run_parse(p, buf, 0, STEP_BUDGET));
    let b = guarded(|| run_check(p, buf, 0, STEP_BUDGET));
    match (a, b) {
        (Ok(a), Ok(b)) => {
            let nontrivial = a.rewinds > 0 && (!a.trace.is_empty() || !a.errs.is_empty());
            if nontrivial {
                if enumerated {
                    acc.nontrivial_enum += 1;
                } else {
                    acc.nontrivial_rand.insert(hash64(format!("{}|{}", g.show(), buf.text).as_bytes()));
                }
            }
            acc.count("probe_hits_in_check_mode", b.trace.len() as u64);
            acc.count("errors_compared", a.errs.len() as u64);
            acc.count("accepted", a.has_output as u64);
            acc.count("accepted_with_errors", (a.has_output && !a.errs.is_empty()) as u64);
            if let Some(d) = same(&a, &b, false, "parse vs check") {
                acc.viol(Viol::case(format!("C04: {}", d), g, &buf.chars, json!({})));
            }
            if nontrivial && acc.samples.len() < 2 && acc.evaluations % 173 == 0 {
                acc.samples.push(json!({"grammar": g.show(), "input": buf.text, "parse_errors": a.errs.len(), "check_errors": b.errs.len(), "probe_trace_len": b.trace.len()}));
            }
        }
        (Err(x), Err(y)) if x == y => {
            // both modes fail alike (a panic is C20's business)
            acc.count("both_modes_panicked_alike", 1);
        }
        (a, b) => {
            let d = |r: &Result<RunOut, String>| match r {
                Ok(r) => format!("returned (has_output={})", r.has_output),
                Err(e) => e.clone(),
            };
            acc.viol(Viol::case(format!("C04: parse {} but check {}", d(&a), d(&b)), g, &buf.chars, json!({})));
        }
    }
}

/// Run two formulations of the same grammar in both modes and compare everything.
fn pair<'s, A: Parser<'s, I<'s>, Val, Ex<ER<'s>>>, B: Parser<'s, I<'s>, Val, Ex<ER<'s>>>>(
    acc: &mut Acc,
    name: &str,
    desc: &str,
    a: &A,
    b: &B,
    bufs: &'s [Buf],
) {
    for buf in bufs {
        acc.evaluations += 1;
        let r = guarded(|| (run_parse(a, buf, 0, STEP_BUDGET), run_check(a, buf, 0, STEP_BUDGET), run_parse(b, buf, 0, STEP_BUDGET), run_check(b, buf, 0, STEP_BUDGET)));
        match r {
            Ok((pa, ca, pb, cb)) => {
                acc.count(&format!("pairs_{}", name), 1);
                if pa.has_output {
                    acc.nontrivial_enum += 1;
                }
                let d = same(&pa, &pb, true, "parse(elided) vs parse(value-building)")
                    .or_else(|| same(&ca, &cb, false, "check(elided) vs check(value-building)"))
                    .or_else(|| same(&pa, &ca, false, "parse vs check (elided form)"));
                if let Some(d) = d {
                    acc.viol(Viol {
                        weight: desc.len() * 8 + buf.n(),
                        what: format!("C04: {} [{}]", d, name),
                        detail: json!({"pair": name, "formulations": desc, "input": buf.text}),
                    });
                }
            }
            Err(e) => {
                acc.count("pair_panics", 1);
                let _ = e;
            }
        }
    }
}

fn rep_of<'s>(p: P<'s>, lo: usize, hi: Option<usize>) -> chumsky::combinator::Repeated<P<'s>, Val, I<'s>, Ex<ER<'s>>> {
    let r = p.repeated().at_least(lo);
    match hi {
        Some(h) => r.at_most(h),
        None => r,
    }
}

fn sep_of<'s>(p: P<'s>, s: P<'s>, lead: bool, trail: bool, lo: usize, hi: Option<usize>) -> chumsky::combinator::SeparatedBy<P<'s>, P<'s>, Val, Val, I<'s>, Ex<ER<'s>>> {
    let r = p.separated_by(s).at_least(lo);
    let r = match hi {
        Some(h) => r.at_most(h),
        None => r,
    };
    let r = if lead { r.allow_leading() } else { r };
    if trail {
        r.allow_trailing()
    } else {
        r
    }
}

fn unit(_: ()) -> Val {
    Val::Unit
}

/// API sweep: public combinators that are outside the grammar AST (into_iter, from_str, unwrapped,
/// map_err_with_state, count/enumerate on iterables, select!, pratt, text parsers, nested collection
/// types ...), each statically typed, on all small inputs: `check` must agree with `parse`, and the
/// value-discarding wrappers `ignored()`, `to(..)`, `to_slice()` must agree with the value-building parse.
fn api_sweep<'s>(acc: &mut Acc, inputs: &'s [String]) {
    use chumsky::pratt::{infix, left, postfix, prefix};
    type E<'s> = extra::Err<Rich<'s, char>>;
    type B<'s> = Boxed<'s, 's, &'s str, String, E<'s>>;
    fn r<T: std::fmt::Debug>(t: T) -> String {
        format!("{:?}", t)
    }
    fn list<'s>() -> Vec<(&'static str, B<'s>)> {
        let digit = || any::<&str, E>().filter(|c: &char| c.is_ascii_digit());
        let chars = || any::<&str, E>().filter(|c: &char| *c != ',').repeated().collect::<Vec<char>>();
        vec![
            ("collect::<Vec<_>>().into_iter().collect_exactly::<[_;2]>()", chars().into_iter().collect_exactly::<[char; 2]>().map(r).boxed()),
            ("collect::<Vec<_>>().into_iter().collect::<String>()", chars().into_iter().collect::<String>().map(r).boxed()),
            ("into_iter().enumerate().collect()", chars().into_iter().enumerate().collect::<Vec<(usize, char)>>().map(r).boxed()),
            ("into_iter().count()", chars().into_iter().count().map(r).boxed()),
            ("into_iter().foldr(end, ..)", chars().into_iter().foldr(just(',').to(0usize), |c: char, n: usize| n * 2 + (c == 'a') as usize).map(r).boxed()),
            ("just('a').foldl(into_iter, ..)", just::<_, &str, E>('a').to(1usize).foldl(chars().into_iter(), |n, c: char| n * 3 + (c == 'b') as usize).map(r).boxed()),
            ("text::int(10).from_str::<u8>().try_map(Err->custom)", text::int::<&str, E>(10).from_str::<u8>().try_map(|x, span| x.map_err(|_| Rich::custom(span, "not a u8"))).map(r).boxed()),
            ("digits.collect::<String>().from_str::<u32>().unwrapped()", digit().repeated().at_least(1).at_most(3).collect::<String>().from_str::<u32>().unwrapped().map(r).boxed()),
            ("map_err_with_state", just::<_, &str, E>('a').then(just('b')).map_err_with_state(|e, _span, _state| e).map(r).boxed()),
            ("repeated().enumerate().collect()", just::<_, &str, E>('a').or(just('b')).repeated().enumerate().collect::<Vec<(usize, char)>>().map(r).boxed()),
            ("separated_by().exactly(2).collect_exactly::<[_;2]>()", just::<_, &str, E>('a').or(just('1')).separated_by(just(',')).exactly(2).collect_exactly::<[char; 2]>().map(r).boxed()),
            ("separated_by().collect::<HashMap>()", any::<&str, E>().filter(|c: &char| c.is_alphabetic()).then(digit()).separated_by(just(',')).allow_trailing().collect::<std::collections::BTreeMap<char, char>>().map(r).boxed()),
            ("select!", chumsky::select! { 'a' => 1u8, 'b' => 2u8, c if c == '1' => 3u8 }.repeated().collect::<Vec<u8>>().map(r).boxed()),
            (
                "pratt (prefix, postfix, infix)",
                digit()
                    .map(|c: char| c.to_string())
                    .pratt((prefix(3, just('a'), |_, x: String, _| format!("(a{})", x)), postfix(2, just('b'), |x: String, _, _| format!("({}b)", x)), infix(left(1), just(','), |l: String, _, rr: String, _| format!("({},{})", l, rr))))
                    .map(r)
                    .boxed(),
            ),
            ("text::ident().padded().repeated().collect()", text::ident::<&str, E>().padded().repeated().collect::<Vec<&str>>().map(r).boxed()),
            ("text::keyword(\"ab\").or(text::ident())", text::keyword::<&str, _, E>("ab").or(text::ident()).then_ignore(text::whitespace()).repeated().collect::<Vec<&str>>().map(r).boxed()),
            ("to_span / map_with slice", just::<_, &str, E>('a').repeated().to_span().then(any().repeated().to_slice()).map(r).boxed()),
            ("group((a, b.or_not(), any))", group((just::<_, &str, E>('a'), just('b').or_not(), any())).map(r).boxed()),
            ("nested collect: repeated(repeated.collect).collect", just::<_, &str, E>('a').repeated().at_least(1).collect::<String>().then_ignore(just(',').or_not()).repeated().collect::<Vec<String>>().map(r).boxed()),
            ("one_of(range) / none_of(range)", one_of::<_, &str, E>('a'..='b').then(none_of('a'..='b').or_not()).repeated().collect::<Vec<_>>().map(r).boxed()),
            ("just(&str).or(just(String))", just::<_, &str, E>("ab").or(just("a")).then(just(String::from("1")).or_not()).map(r).boxed()),
            ("lazy()", just::<_, &str, E>('a').repeated().at_least(1).collect::<String>().lazy().map(r).boxed()),
            ("recursive + memoized + labelled", recursive(|t| just::<_, &str, E>('a').ignore_then(t).then_ignore(just('b')).map(|d: usize| d + 1).memoized().labelled("nest").or(just('1').to(0usize))).map(r).boxed()),
        ]
    }
    fn run1<'s>(q: &B<'s>, w: &'s str, check: bool) -> Result<(bool, Vec<String>), String> {
        guarded(|| {
            if check {
                let res = q.check(w);
                (res.has_output(), res.errors().map(|e| format!("{:?}@{:?}", e.reason(), e.span())).collect::<Vec<_>>())
            } else {
                let res = q.parse(w);
                (res.has_output(), res.errors().map(|e| format!("{:?}@{:?}", e.reason(), e.span())).collect::<Vec<_>>())
            }
        })
    }
    let ps: Vec<(&'static str, B<'s>)> = list();
    for (name, p) in &ps {
        let forms: Vec<(&str, B<'s>)> = vec![("ignored()", p.clone().ignored().map(|_| String::new()).boxed()), ("to(..)", p.clone().to(String::new()).boxed()), ("to_slice()", p.clone().to_slice().map(|_| String::new()).boxed())];
        for w in inputs {
            acc.evaluations += 1;
            acc.count("api_sweep_cases", 1);
            let run = |q: &B<'s>, check: bool| run1(q, w.as_str(), check);
            let base = run(p, false);
            if matches!(&base, Ok((true, _))) {
                acc.nontrivial_rand.insert(hash64(format!("api|{}|{}", name, w).as_bytes()));
            }
            let mut report = |what: &str, other: &Result<(bool, Vec<String>), String>| {
                if *other != base {
                    acc.viol(Viol { weight: 50 + w.len(), what: format!("C04: [{}] on {:?}: parse() gives {:?} but {} gives {:?}", name, w, base, what, other), detail: json!({"grammar_text": name, "input": w, "form": what}) });
                }
            };
            report("check()", &run(p, true));
            for (fname, f) in &forms {
                report(&format!("{}.parse()", fname), &run(f, false));
                report(&format!("{}.check()", fname), &run(f, true));
            }
        }
    }
}

pub fn run(cx: &RunCtx) -> i32 {
    let alpha: Vec<char> = vec!['a', 'b', 'é'];
    let max_len = cx.t(4, 5);
    let inputs = all_inputs(&alpha, max_len);
    let bufs: Vec<Buf> = inputs.iter().map(|w| Buf::new(w)).collect();
    let b = basis();
    let size = cx.t(3, 4);
    let grammars = b.up_to(size);
    let n_enum = grammars.len();
    let mut acc = for_each_index(grammars.len(), cx.threads, 8, |acc, gi| {
        let g = &grammars[gi];
        let p = build::<&str, Rich<char>>(g, Opts::default());
        for buf in &bufs {
            parse_vs_check(acc, g, &p, buf, true);
        }
    });
    acc.count("enumerated_grammars", n_enum as u64);

    // paired formulations: children from a small class with probes and emitters
    let mut kb = classes::k01_core(true);
    kb.leaves.push(G::leaf(Op::Probe));
    kb.ctors.extend(classes::validate_ctors());
    kb.ctors.push(ctor(1, |mut k| G::rep(k.remove(0), 0, None, Flav::Vec)));
    let kids: Vec<G> = kb.up_to(cx.t(2, 3));
    let nk = kids.len();
    let pair_bufs: Vec<Buf> = all_inputs(&alpha, cx.t(3, 4)).iter().map(|w| Buf::new(w)).collect();
    let ext_stride = cx.t(1, 997);
    let pacc = for_each_index(nk * nk, cx.threads, 8, |acc, idx| {
        let (ga, gb) = (&kids[idx / nk], &kids[idx % nk]);
        // distinct ids so that probes of a and b are distinguishable
        let mut ga = ga.clone();
        let next = ga.renumber(0);
        let mut gb = gb.clone();
        gb.renumber(next);
        let o = Opts::default();
        let a = || build::<&str, Rich<char>>(&ga, o);
        let b = || build::<&str, Rich<char>>(&gb, o);
        let d = format!("a = {} ; b = {}", ga.show(), gb.show());
        pair(acc, "ignore_then", &d, &a().ignore_then(b()), &a().then(b()).map(|(_, b)| b), &pair_bufs);
        pair(acc, "then_ignore", &d, &a().then_ignore(b()), &a().then(b()).map(|(a, _)| a), &pair_bufs);
        pair(acc, "padded_by", &d, &a().padded_by(b()), &b().then(a()).then(b()).map(|((_, a), _)| a), &pair_bufs);
        if idx % nk == 0 {
            pair(acc, "ignored", &d, &a().ignored().map(unit), &a().map(|_| Val::Unit), &pair_bufs);
            pair(acc, "to", &d, &a().to(Val::Num(7)), &a().map(|_| Val::Num(7)), &pair_bufs);
            pair(
                acc,
                "to_span",
                &d,
                &a().to_span().map(|s: SimpleSpan| Val::Span(s.start, s.end)),
                &a().map_with(|_, e| {
                    let s: SimpleSpan = e.span();
                    Val::Span(s.start, s.end)
                }),
                &pair_bufs,
            );
            pair(
                acc,
                "to_slice",
                &d,
                &a().to_slice().map(|s: &str| Val::Str(s.to_string())),
                &a().map_with(|_, e| Val::Str(e.slice().to_string())),
                &pair_bufs,
            );
            pair(acc, "ext_check_path", &d, &chumsky::extension::v1::Ext(WrapExt(a())), &custom(move |inp| inp.parse(&a())), &pair_bufs);
        }
        if !ga.nullable() {
            if idx % nk == 0 {
                for (lo, hi) in [(0usize, None), (1, None), (0, Some(2usize)), (2, Some(2))] {
                    let rep = |p| rep_of(p, lo, hi);
                    pair(acc, "repeated_unit", &d, &rep(a()).map(unit), &rep(a()).collect::<Vec<Val>>().ignored().map(unit), &pair_bufs);
                }
            }
            if !gb.nullable() {
                for (lead, trail) in [(false, false), (true, true), (true, false), (false, true)] {
                    for (lo, hi) in [(0usize, None), (0, Some(1usize)), (1, Some(2)), (2, Some(2)), (0, Some(0))] {
                        if (lead != trail || hi == Some(0)) && idx % 2 == 1 {
                            continue;
                        }
                        // the thorough tier has ~10^3 times more (a, b) pairs: the extended combinations on a sample of them
                        let basic = lead == trail && (lo, hi) == (0, None);
                        if !basic && (idx / nk + idx % nk) % ext_stride != 0 {
                            continue;
                        }
                        let sep = |p, s| sep_of(p, s, lead, trail, lo, hi);
                        pair(acc, "separated_by_unit", &d, &sep(a(), b()).map(unit), &sep(a(), b()).collect::<Vec<Val>>().ignored().map(unit), &pair_bufs);
                        // ... and followed by something, so that what the list left unconsumed is visible
                        pair(acc, "separated_by_unit_then_rest", &d, &sep(a(), b()).ignore_then(any().repeated().collect::<String>()).map(Val::Str), &sep(a(), b()).collect::<Vec<Val>>().ignore_then(any().repeated().collect::<String>()).map(Val::Str), &pair_bufs);
                    }
                }
            }
        }
    });
    acc.merge(pacc);
    // repetitions as unit parsers whose items emit and then fail (the abandoned last iteration must leave no trace)
    let leaves = classes::leaves_small();
    let mut emit_items: Vec<G> = vec![];
    for x in &leaves {
        for y in &leaves {
            if x.nullable() {
                continue;
            }
            for n in [1u8, 2] {
                emit_items.push(G::bin(Op::Then, G::un(Op::Validate, x.clone()).with(|p| p.n = n), y.clone()).numbered());
                emit_items.push(G::bin(Op::Then, G::bin(Op::RecVia, x.clone(), G::leaf(Op::Any)), y.clone()).numbered());
            }
        }
    }
    let eacc = for_each_index(emit_items.len(), cx.threads, 4, |acc, i| {
        let ga = &emit_items[i];
        if ga.nullable() || !ga.well_formed() {
            return;
        }
        let o = Opts::default();
        let a = || build::<&str, Rich<char>>(ga, o);
        let d = format!("a = {}", ga.show());
        for (lo, hi) in [(0usize, None), (1, None), (0, Some(2usize)), (2, Some(2))] {
            let rep = |p| rep_of(p, lo, hi);
            pair(acc, "repeated_unit", &d, &rep(a()).map(unit), &rep(a()).collect::<Vec<Val>>().ignored().map(unit), &pair_bufs);
            pair(acc, "repeated_unit_to_slice", &d, &rep(a()).to_slice().map(|s: &str| Val::Str(s.to_string())), &rep(a()).collect::<Vec<Val>>().map_with(|_, e| Val::Str(e.slice().to_string())), &pair_bufs);
        }
        let sep = |p, s| sep_of(p, s, false, true, 0, None);
        pair(acc, "separated_by_unit", &d, &sep(a(), a()).map(unit), &sep(a(), a()).collect::<Vec<Val>>().ignored().map(unit), &pair_bufs);
    });
    acc.merge(eacc);
    let sweep_inputs: Vec<String> = all_inputs(&['a', 'b', '1', ',', ' '], cx.t(4, 5)).iter().map(|w| w.iter().collect()).collect();
    api_sweep(&mut acc, &sweep_inputs);
    // delimited_by over triples on a stride
    let stride = cx.t(37, 5);
    let dacc = for_each_index(nk * nk * nk / stride, cx.threads, 8, |acc, j| {
        let idx = j * stride;
        let mut ga = kids[idx / (nk * nk)].clone();
        let mut gl = kids[(idx / nk) % nk].clone();
        let mut gr = kids[idx % nk].clone();
        let n1 = ga.renumber(0);
        let n2 = gl.renumber(n1);
        gr.renumber(n2);
        let o = Opts::default();
        let a = || build::<&str, Rich<char>>(&ga, o);
        let l = || build::<&str, Rich<char>>(&gl, o);
        let r = || build::<&str, Rich<char>>(&gr, o);
        let d = format!("a = {} ; l = {} ; r = {}", ga.show(), gl.show(), gr.show());
        pair(acc, "delimited_by", &d, &a().delimited_by(l(), r()), &l().then(a()).then(r()).map(|((_, a), _)| a), &pair_bufs);
    });
    acc.merge(dacc);

    // random grammars
    let n_rand = cx.t(20_000, 400_000);
    let seed = cx.seed;
    let racc = for_each_index(n_rand, cx.threads, 64, |acc, i| {
        let mut rng = Rng::derive(seed, 0xC04, i as u64);
        let sz = rng.range(size + 1, 12);
        let g = b.random(&mut rng, sz);
        let bufs: Vec<Buf> = (0..5).map(|_| Buf::new(&random_input(&mut rng, &['a', 'b', 'é', '(', ')', '['], 10))).collect();
        let p = build::<&str, Rich<char>>(&g, Opts::default());
        for buf in &bufs {
            parse_vs_check(acc, &g, &p, buf, false);
        }
    });
    acc.merge(racc);

    finish(
        cx,
        acc,
        Finish {
            rule: format!("(1) parse() vs check() on the same parser value — acceptance, full Rich error list, final inspector state, probe trace — for every grammar with <= {size} nodes over a broad basis (C01 class + repetition/separator/fold + validate + all recovery strategies + labelled/as_context/map_err + memoized + Ext with a check path + with_state/with_ctx/then_with_ctx) x every input <= {max_len} over {{a,b,é}}, plus {n_rand} random grammars x 5 inputs; (2) paired formulations (ignore_then, then_ignore, padded_by, delimited_by, ignored, to, to_span, to_slice, repeated/separated_by as unit parsers vs collect().ignored(), Ext vs custom) with children from a class with probes and validate emitters, each run in both modes on all inputs; (3) API sweep: 23 statically typed parsers built from public combinators outside the grammar AST (into_iter with collect/collect_exactly/enumerate/count/foldl/foldr, from_str, unwrapped, map_err_with_state, select!, pratt, text parsers, BTreeMap / nested collections, ranges, lazy, recursive+memoized+labelled) on all inputs over {{a,b,1,comma,space}}: check(), ignored(), to(), to_slice() in both modes must report what parse() reports; non-trivial: at least one rewind happened and a probe or an error was observed (1) / the pair produced an output (2)"),
            exhaustive: false,
            exhaustive_note: format!("grammars <= {size} nodes x inputs <= {max_len}: complete"),
            assumptions: vec!["model-free differential: both sides are real executions".into(), "consumption in check mode is observed through zero-width custom() probes and the inspector".into()],
            require: vec![("probe_hits_in_check_mode".into(), 1000), ("errors_compared".into(), 1000), ("accepted_with_errors".into(), 100), ("pairs_ignore_then".into(), 100), ("pairs_delimited_by".into(), 100), ("pairs_repeated_unit".into(), 100), ("pairs_ext_check_path".into(), 10), ("api_sweep_cases".into(), 1000), ("pairs_repeated_unit_to_slice".into(), 100)],
            min_evaluations: 10_000,
        },
    )
}
