//! C10 — the result does not depend on how the input is represented.
//! Differential monitor between real executions of the same grammar on the same token sequence in
//! 14 input representations (results normalised to token indices by the documented re-basing), each
//! also compared with the reference model; pull log of a counting iterator under `Stream`; inputs
//! longer than Stream's 512-token batch; u8 family (IoInput vs &[u8] vs array vs Stream); Graphemes
//! against whole-string segmentation.

use crate::classes;
use crate::cmp::span_ok;
use crate::drv::*;
use crate::ev::*;
use crate::gram::*;
use crate::mk::*;
use crate::model::{Outcome, Sp};
use crate::obs::RErr;
use crate::par::for_each_index;
use crate::rng::Rng;
use crate::val::Val;
use chumsky::error::Rich;
use chumsky::input::{Input, ValueInput};
use chumsky::prelude::*;
use serde_json::json;

pub fn basis(value: bool) -> Basis {
    let mut b = classes::k01(value);
    b.ctors.retain(|c| {
        // to_slice exists only on slice kinds (C07 covers it)
        let probe = (c.make)(vec![G::just('a'); c.arity]);
        probe.op != Op::ToSlice
    });
    if !value {
        b.leaves.retain(|g| !matches!(g.op, Op::Any | Op::OneOf | Op::NoneOf | Op::Select));
    }
    b.leaves.push(G::leaf(Op::Probe));
    b.ctors.extend(classes::rep_light());
    b.ctors.extend(classes::fold_ctors());
    b.ctors.extend(classes::validate_ctors());
    b.ctors.extend(classes::recover_ctors());
    b
}

/// A run normalised to token indices.
#[derive(Clone, Debug, PartialEq)]
struct Norm {
    has_output: bool,
    out: Option<Val>,
    errs: Vec<RErr>,
    st: (u64, u64),
    trace: Vec<(u32, usize, u64, u64)>,
}

fn to_tok<'s, I: Kind<'s>>(buf: &Buf, sp: Sp) -> Option<Sp>
where
    I::Span: Clone + 's,
{
    let n = buf.n();
    for p in 0..=n {
        for q in p..=n {
            if span_ok::<I>(buf, (p, q), sp) {
                return Some((p, q));
            }
        }
    }
    None
}

fn normalise<'s, I: Kind<'s>>(buf: &Buf, r: &RunOut) -> Result<Norm, String>
where
    I::Span: Clone + 's,
{
    let bad = std::cell::RefCell::new(None::<String>);
    let f = |lo: usize, hi: usize| -> (usize, usize) {
        match to_tok::<I>(buf, (lo, hi)) {
            Some(x) => x,
            None => {
                bad.borrow_mut().get_or_insert(format!("span {}..{} does not correspond to any token range under the documented re-basing", lo, hi));
                (usize::MAX, usize::MAX)
            }
        }
    };
    let out = r.out.as_ref().map(|v| v.map_offsets(&f));
    let errs = r
        .errs
        .iter()
        .map(|e| {
            let mut e = e.clone();
            let raw = e.span;
            e.span = f(e.span.0, e.span.1);
            // documented re-basing of "end of input": the span handed to Input::map / Stream::map / IterInput::new.
            // (Empty *matches* at the end may sit anywhere between the last token and that span — C07 — but a
            // primitive that failed because the input ended reports the end-of-input span itself.)
            let n = buf.n();
            if I::GAPPED && n >= 1 && e.custom.is_none() && e.span == (n, n) && raw != (10 * n, 10 * n) {
                bad.borrow_mut().get_or_insert(format!("an error raised at the end of the input has span {}..{}, not the end-of-input span {}..{} the input was given", raw.0, raw.1, 10 * n, 10 * n));
            }
            for c in e.ctxs.iter_mut() {
                c.1 = f(c.1 .0, c.1 .1);
            }
            e
        })
        .collect();
    let trace = r.trace.iter().map(|p| (p.id, f(p.off, p.off_end).0, p.n, p.h)).collect();
    if let Some(b) = bad.into_inner() {
        return Err(b);
    }
    Ok(Norm { has_output: r.has_output, out, errs, st: r.st, trace })
}

fn norm_diff(a: &Norm, b: &Norm) -> Option<String> {
    if a.has_output != b.has_output {
        return Some(format!("acceptance differs ({} vs {})", a.has_output, b.has_output));
    }
    if a.out != b.out {
        return Some(format!("outputs differ: {} vs {}", a.out.as_ref().map(|v| v.show()).unwrap_or_default(), b.out.as_ref().map(|v| v.show()).unwrap_or_default()));
    }
    if a.errs.len() != b.errs.len() {
        return Some(format!("number of errors differs: {} vs {}", a.errs.len(), b.errs.len()));
    }
    for (i, (x, y)) in a.errs.iter().zip(&b.errs).enumerate() {
        if x != y {
            return Some(format!("error #{} differs (token positions): {} vs {}", i, x.show(), y.show()));
        }
    }
    if a.has_output && a.st != b.st {
        return Some("final inspector state differs".into());
    }
    if a.trace != b.trace {
        return Some(format!("probe traces differ: {:?} vs {:?}", a.trace, b.trace));
    }
    None
}

pub fn spec() -> Spec {
    Spec {
        prop: "C10",
        what: What { value: true, emits: true, primary: true, state: true, trace: true, no_found: true, ..Default::default() },
        nontrivial: |m| m.stats.backtracks > 0 && m.prefix_end.map(|e| e > 0).unwrap_or(false) || (m.out.is_none() && m.stats.deep_backtracks > 0),
        amb: |m| m.stats.ambiguous_a1 || m.stats.ambiguous_a2 || m.stats.ambiguous_a9,
        counters: no_counters,
        signature: no_sig,
        slice: false,
        obs: false,
        also_check: false,
    }
}

/// Run `g` on kind `I`, compare with the model and with the reference run (normalised).
fn on_kind<'s, I: Kind<'s>>(acc: &mut Acc, sp: &Spec, g: &G, buf: &'s Buf, reference: Option<&Norm>, enumerated: bool) -> Option<Norm>
where
    I::Span: Clone + 's,
{
    let p = build::<I, Rich<'s, char, I::Span>>(g, Opts::default());
    let (_m, r) = model_case::<I, Rich<'s, char, I::Span>>(acc, sp, g, &p, buf, enumerated)?;
    acc.count(&format!("runs_{}", I::NAME), 1);
    match normalise::<I>(buf, &r) {
        Err(d) => {
            acc.viol(Viol::case(format!("C10: on {}: {}", I::NAME, d), g, &buf.chars, json!({"kind": I::NAME})));
            None
        }
        Ok(n) => {
            if let Some(rf) = reference {
                acc.count("differential_comparisons", 1);
                if let Some(d) = norm_diff(rf, &n) {
                    acc.viol(Viol::case(format!("C10: &[char] vs {}: {}", I::NAME, d), g, &buf.chars, json!({"kind": I::NAME})));
                }
            }
            Some(n)
        }
    }
}

fn check_pulls(acc: &mut Acc, g: &G, buf: &Buf) {
    PULLS.with(|p| {
        let p = p.borrow();
        acc.count("stream_items_pulled", p.len() as u64);
        acc.maxc("max_stream_items_pulled_in_one_parse", p.len() as u64);
        for (i, x) in p.iter().enumerate() {
            if *x != i {
                acc.viol(Viol::case(format!("C10: Stream pulled item #{} from its iterator as pull number {} (every item at most once, in order)", x, i), g, &buf.chars, json!({"pulls": p.iter().take(40).collect::<Vec<_>>() })));
                break;
            }
        }
        if p.len() > buf.n() {
            acc.viol(Viol::case(format!("C10: Stream pulled {} items from an iterator of {}", p.len(), buf.n()), g, &buf.chars, json!({})));
        }
    });
}

fn all_kinds<'s>(acc: &mut Acc, sp: &Spec, g: &G, buf: &'s Buf, value: bool, level: usize, enumerated: bool) {
    let rf = match on_kind::<&[char]>(acc, sp, g, buf, None, enumerated) {
        Some(n) => n,
        None => return,
    };
    let rf = Some(&rf);
    if !value {
        on_kind::<IterK>(acc, sp, g, buf, rf, enumerated);
    }
    on_kind::<&str>(acc, sp, g, buf, rf, enumerated);
    on_kind::<StreamK>(acc, sp, g, buf, rf, enumerated);
    on_kind::<MappedK>(acc, sp, g, buf, rf, enumerated);
    if level >= 1 {
        on_kind::<CountStreamK>(acc, sp, g, buf, rf, enumerated);
        check_pulls(acc, g, buf);
        on_kind::<StreamMapK>(acc, sp, g, buf, rf, enumerated);
        on_kind::<BoxedStreamK>(acc, sp, g, buf, rf, enumerated);
        on_kind::<ExactStreamK>(acc, sp, g, buf, rf, enumerated);
        on_kind::<WithCtxK>(acc, sp, g, buf, rf, enumerated);
        on_kind::<MapSpanK>(acc, sp, g, buf, rf, enumerated);
        match buf.n() {
            0 => drop(on_kind::<&[char; 0]>(acc, sp, g, buf, rf, enumerated)),
            1 => drop(on_kind::<&[char; 1]>(acc, sp, g, buf, rf, enumerated)),
            2 => drop(on_kind::<&[char; 2]>(acc, sp, g, buf, rf, enumerated)),
            3 => drop(on_kind::<&[char; 3]>(acc, sp, g, buf, rf, enumerated)),
            4 => drop(on_kind::<&[char; 4]>(acc, sp, g, buf, rf, enumerated)),
            5 => drop(on_kind::<&[char; 5]>(acc, sp, g, buf, rf, enumerated)),
            6 => drop(on_kind::<&[char; 6]>(acc, sp, g, buf, rf, enumerated)),
            _ => {}
        }
    }
}

// -----------------------------------------------------------------------------------------------
// u8 family: hand-listed statically typed grammars, generic over the input

pub type EU<'s> = extra::Err<Rich<'s, u8>>;

pub fn u8_grammars<'s, I: ValueInput<'s, Token = u8, Span = SimpleSpan>>() -> Vec<(&'static str, Boxed<'s, 's, I, String, EU<'s>>)> {
    let digit = || any::<I, EU<'s>>().filter(|b: &u8| b.is_ascii_digit());
    let letter = || any::<I, EU<'s>>().filter(|b: &u8| b.is_ascii_alphabetic());
    let show = |v: Vec<u8>| String::from_utf8_lossy(&v).to_string();
    vec![
        ("digits then letters", digit().repeated().at_least(1).collect::<Vec<u8>>().then(letter().repeated().collect::<Vec<u8>>()).map(move |(a, b)| format!("{}|{}", show(a), show(b))).boxed()),
        (
            "choice with shared prefix",
            choice((just(b'a').then(just(b'b')).then(just(b'c')).to("abc".to_string()), just(b'a').then(just(b'b')).to("ab".to_string()), just(b'a').to("a".to_string())))
                .then(any().repeated().collect::<Vec<u8>>())
                .map(move |(a, r)| format!("{}+{}", a, show(r)))
                .boxed(),
        ),
        (
            "separated list with trailing",
            digit().repeated().at_least(1).collect::<Vec<u8>>().separated_by(just(b',')).allow_trailing().collect::<Vec<Vec<u8>>>().map(move |v| v.into_iter().map(show).collect::<Vec<_>>().join(";")).boxed(),
        ),
        (
            "lookahead and recovery",
            just(b'(')
                .ignore_then(letter().repeated().at_least(1).collect::<Vec<u8>>())
                .then_ignore(just(b')'))
                .map(show)
                .recover_with(via_parser(just(b'(').ignore_then(none_of(b")").repeated()).then_ignore(just(b')')).to("<rec>".to_string())))
                .repeated()
                .collect::<Vec<String>>()
                .map(|v| v.join(","))
                .boxed(),
        ),
        ("not / and_is / rewind", any().and_is(just(b'x').not()).repeated().collect::<Vec<u8>>().then(just(b'x').rewind().or_not()).then(any().repeated().collect::<Vec<u8>>()).map(move |((a, o), b)| format!("{}{}{}", show(a), if o.is_some() { "!" } else { "." }, show(b))).boxed()),
        ("fold", digit().map(|d| (d - b'0') as u32).foldl(just(b'+').ignore_then(digit().map(|d| (d - b'0') as u32)).repeated(), |a, b| a * 10 + b).map(|n| n.to_string()).boxed()),
        (
            "and_is: long first operand, short second (cursor restored forwards)",
            any().repeated().at_least(2).at_most(3).collect::<Vec<u8>>().and_is(just(b'a')).then(any().repeated().collect::<Vec<u8>>()).map(move |(a, b)| format!("{}&{}", show(a), show(b))).boxed(),
        ),
        (
            "identifier that is not a keyword (ident.and_is(kw.not()))",
            letter().repeated().at_least(1).collect::<Vec<u8>>().and_is(just(b'a').then(just(b'b')).then(letter().not()).not()).then(any().repeated().collect::<Vec<u8>>()).map(move |(a, b)| format!("{}~{}", show(a), show(b))).boxed(),
        ),
        (
            "rewind after a long match, then re-parse a shorter one",
            letter().repeated().collect::<Vec<u8>>().rewind().then(letter().then(letter().or_not()).map(|(a, b)| vec![a, b.unwrap_or(b'-')])).then(any().repeated().collect::<Vec<u8>>()).map(move |((a, b), c)| format!("{}<{}>{}", show(a), show(b), show(c))).boxed(),
        ),
        (
            "nested choices failing at different depths, then a forward jump",
            choice((just(b'a').then(just(b'a')).then(just(b'a')).then(just(b'(')).to("aaa(".to_string()), just(b'a').then(just(b'a')).then(just(b',')).to("aa,".to_string()), just(b'a').then(just(b'1')).to("a1".to_string())))
                .or_not()
                .then(any().and_is(any().then(any()).rewind().or_not()).repeated().collect::<Vec<u8>>())
                .map(move |(a, r)| format!("{:?}/{}", a, show(r)))
                .boxed(),
        ),
        (
            "skip_then_retry_until recovery",
            digit().repeated().at_least(1).collect::<Vec<u8>>().then_ignore(just(b',')).map(show).recover_with(skip_then_retry_until(any().ignored(), end())).repeated().collect::<Vec<String>>().map(|v| v.join(";")).boxed(),
        ),
        // nothing behind them: whether the whole input was matched is decided by end() alone, after
        // alternatives / items that ran into the end of the input were abandoned
        ("longer keyword, shorter keyword, nothing after", choice((just(b'a').then(just(b'b')).then(just(b'a')).then(just(b'b')).to("abab".to_string()), just(b'a').then(just(b'b')).to("ab".to_string()), just(b'a').to("a".to_string()))).boxed()),
        ("optional long suffix, nothing after", just(b'a').then(just(b'b').then(just(b'1')).then(just(b'(')).or_not()).map(|(_, o)| format!("a{}", o.is_some())).boxed()),
        ("repeated pairs, nothing after", just(b'a').then(just(b'b')).repeated().count().map(|n| n.to_string()).boxed()),
        ("try_map user error", any().repeated().at_most(3).collect::<Vec<u8>>().try_map(move |v: Vec<u8>, span| if v.len() == 2 { Err(Rich::custom(span, "two")) } else { Ok(show(v)) }).boxed()),
    ]
}

fn run_u8<'s, I: ValueInput<'s, Token = u8, Span = SimpleSpan>>(p: &Boxed<'s, 's, I, String, EU<'s>>, input: I) -> (Option<String>, Vec<String>) {
    let r = p.parse(input);
    let errs = r.errors().map(|e| format!("{:?}@{}..{}", e.reason(), e.span().start, e.span().end)).collect();
    (r.into_output(), errs)
}

fn u8_family(acc: &mut Acc, inputs: &[Vec<u8>]) {
    let n_g = u8_grammars::<&[u8]>().len();
    for gi in 0..n_g {
        for w in inputs {
            let name;
            let reference = {
                let gs = u8_grammars::<&[u8]>();
                name = gs[gi].0;
                match guarded(|| run_u8(&gs[gi].1, &w[..])) {
                    Ok(r) => r,
                    Err(e) => {
                        acc.viol(Viol { weight: w.len(), what: format!("C10: u8 grammar '{}' on &[u8]: {}", name, e), detail: json!({"grammar": name, "input": String::from_utf8_lossy(w)}) });
                        continue;
                    }
                }
            };
            acc.evaluations += 1;
            if reference.0.is_some() && !w.is_empty() {
                acc.nontrivial_rand.insert(crate::rng::hash64(format!("u8|{}|{:?}", gi, w).as_bytes()));
            }
            let mut cmp = |kind: &str, r: Result<(Option<String>, Vec<String>), String>| {
                acc.evaluations += 1;
                acc.count(&format!("runs_{}", kind), 1);
                match r {
                    Ok(r) if r == reference => {}
                    Ok(r) => acc.viol(Viol {
                        weight: w.len(),
                        what: format!("C10: &[u8] vs {}: results differ for grammar '{}': {:?} vs {:?}", kind, name, reference, r),
                        detail: json!({"grammar": name, "input": String::from_utf8_lossy(w), "kind": kind}),
                    }),
                    Err(e) => acc.viol(Viol { weight: w.len(), what: format!("C10: u8 grammar '{}' on {}: {}", name, kind, e), detail: json!({"grammar": name, "input": String::from_utf8_lossy(w), "kind": kind}) }),
                }
            };
            cmp("io_input", guarded(|| run_u8(&u8_grammars::<chumsky::input::IoInput<std::io::Cursor<Vec<u8>>>>()[gi].1, chumsky::input::IoInput::new(std::io::Cursor::new(w.clone())))));
            // a reader that has already been read from: the input is what lies behind the reader's position
            for (kind, prefix) in [("io_input_mid_stream", b"a1 ,b".to_vec()), ("io_input_mid_stream_same_prefix", w.clone())] {
                cmp(
                    kind,
                    guarded(|| {
                        let mut v = prefix.clone();
                        v.extend_from_slice(w);
                        let mut c = std::io::Cursor::new(v);
                        c.set_position(prefix.len() as u64);
                        run_u8(&u8_grammars::<chumsky::input::IoInput<std::io::Cursor<Vec<u8>>>>()[gi].1, chumsky::input::IoInput::new(c))
                    }),
                );
            }
            cmp("stream_u8", guarded(|| run_u8(&u8_grammars::<chumsky::input::Stream<std::vec::IntoIter<u8>>>()[gi].1, chumsky::input::Stream::from_iter(w.clone()))));
            if w.len() == 3 {
                let arr: &[u8; 3] = (&w[..]).try_into().unwrap();
                cmp("array_u8", guarded(|| run_u8(&u8_grammars::<&[u8; 3]>()[gi].1, arr)));
            }
        }
    }
}

// -----------------------------------------------------------------------------------------------
// Graphemes

fn graphemes(acc: &mut Acc, texts: &[String]) {
    use chumsky::text::unicode::{Grapheme, Graphemes};
    use unicode_segmentation::UnicodeSegmentation;
    for t in texts {
        acc.evaluations += 1;
        let want: Vec<&str> = t.graphemes(true).collect();
        let got = guarded(|| {
            let p = any::<&Graphemes, extra::Err<Rich<&Grapheme>>>().map_with(|g: &Grapheme, e| (g.as_str().to_string(), e.span())).repeated().collect::<Vec<_>>();
            p.parse(Graphemes::new(t)).into_result().map_err(|e| format!("{} errors", e.len()))
        });
        match got {
            Ok(Ok(v)) => {
                acc.count("grapheme_clusters_compared", v.len() as u64);
                if want.iter().any(|g| g.chars().count() > 1) {
                    acc.nontrivial_rand.insert(crate::rng::hash64(t.as_bytes()));
                }
                let toks: Vec<&str> = v.iter().map(|(s, _)| s.as_str()).collect();
                let mut d = None;
                if toks != want {
                    d = Some(format!("tokens {:?} but the extended grapheme clusters of the string are {:?}", toks, want));
                } else {
                    // spans tile the string
                    let mut at = 0;
                    for (s, sp) in &v {
                        let sp: &SimpleSpan = sp;
                        if sp.start != at || sp.end != at + s.len() {
                            d = Some(format!("cluster {:?} has span {}..{} but lies at {}..{}", s, sp.start, sp.end, at, at + s.len()));
                            break;
                        }
                        at = sp.end;
                    }
                }
                if let Some(d) = d {
                    acc.viol(Viol { weight: t.len(), what: format!("C10: Graphemes input: {}", d), detail: json!({"input": t}) });
                }
            }
            Ok(Err(e)) => acc.viol(Viol { weight: t.len(), what: format!("C10: any().repeated() over a Graphemes input failed: {}", e), detail: json!({"input": t}) }),
            Err(e) => acc.viol(Viol { weight: t.len(), what: format!("C10: Graphemes input: {}", e), detail: json!({"input": t}) }),
        }
    }
}

pub fn run(cx: &RunCtx) -> i32 {
    let alpha: Vec<char> = vec!['a', 'b', 'é'];
    let max_len = cx.t(4, 5);
    let bufs: Vec<Buf> = all_inputs(&alpha, max_len).iter().map(|w| Buf::new(w)).collect();
    let sp = spec();
    let size = cx.t(3, 4);

    // (1) every small grammar x every small input on all kinds
    let b = basis(true);
    let grammars: Vec<G> = b.up_to(size);
    let n_enum = grammars.len();
    let mut acc = for_each_index(grammars.len(), cx.threads, 4, |acc, gi| {
        let g = &grammars[gi];
        for (bi, buf) in bufs.iter().enumerate() {
            let level = if (gi + bi) % 3 == 0 || g.size() <= 2 { 1 } else { 0 };
            all_kinds(acc, &sp, g, buf, true, level, true);
        }
    });
    acc.count("enumerated_grammars", n_enum as u64);
    // IterInput basis
    let bi = basis(false);
    let gi_all: Vec<G> = bi.up_to(size);
    let n_iter = gi_all.len();
    let iacc = for_each_index(gi_all.len(), cx.threads, 4, |acc, gi| {
        for buf in &bufs {
            all_kinds(acc, &sp, &gi_all[gi], buf, false, 0, true);
        }
    });
    acc.merge(iacc);
    acc.count("enumerated_grammars_input_only_basis", n_iter as u64);

    // (2) random larger grammars
    let n_rand = cx.t(4_000, 100_000);
    let seed = cx.seed;
    let racc = for_each_index(n_rand, cx.threads, 16, |acc, i| {
        let mut rng = Rng::derive(seed, 0xC10, i as u64);
        let sz = rng.range(size + 1, 12);
        let value = i % 4 != 0;
        let g = if value { b.random(&mut rng, sz) } else { bi.random(&mut rng, sz) };
        let bufs: Vec<Buf> = (0..4).map(|_| Buf::new(&random_input(&mut rng, &SIGMA_PLUS, 8))).collect();
        for buf in &bufs {
            all_kinds(acc, &sp, &g, buf, value, 1, false);
        }
    });
    acc.merge(racc);
    acc.count("random_grammars", n_rand as u64);

    // (3) inputs longer than Stream's 512-token batch, alternatives failing after crossing batch boundaries
    let ab = G::set(Op::OneOf, "ab");
    let long_grammars: Vec<G> = vec![
        G::bin(Op::Or, G::bin(Op::Then, G::rep(ab.clone(), 0, None, Flav::Count), G::just('!')), G::rep(G::leaf(Op::Any), 0, None, Flav::Count)),
        G::new(Op::Choice, vec![
            G::bin(Op::Then, G::rep(G::just_seq("ab"), 0, None, Flav::Count), G::just('!')),
            G::bin(Op::Then, G::rep(G::bin(Op::Then, G::just('a'), G::un(Op::OrNot, G::just('b'))), 0, None, Flav::Count), G::just('?')),
            G::rep(G::bin(Op::Or, G::just_seq("abab"), G::leaf(Op::Any)), 0, None, Flav::Count),
        ]),
        G::bin(Op::Then, G::un(Op::Rewind, G::rep(G::leaf(Op::Any), 0, None, Flav::Count)), G::rep(G::bin(Op::AndIs, G::leaf(Op::Any), G::set(Op::NoneOf, "!")), 0, None, Flav::Count)),
        G::bin(Op::Then, G::un(Op::OrNot, G::bin(Op::Then, G::rep(ab.clone(), 200, None, Flav::Unit), G::just('!'))), G::rep(G::leaf(Op::Any), 0, None, Flav::Count)),
        G::new(Op::RecSkipUntil, vec![G::bin(Op::Then, G::rep(ab.clone(), 0, None, Flav::Count), G::just('!')), G::leaf(Op::Any), G::leaf(Op::End)]),
        G::rep(G::new(Op::Sep, vec![ab.clone(), G::just(',')]).with(|p| { p.flav = Flav::Count; p.lo = 1 }), 0, None, Flav::Vec),
    ]
    .into_iter()
    .map(|g| g.numbered())
    .collect();
    let mut long_inputs: Vec<Vec<char>> = vec![];
    for n in [511usize, 512, 513, 1023, 1024, 1025, 1300] {
        let base: Vec<char> = (0..n).map(|i| if i % 2 == 0 { 'a' } else { 'b' }).collect();
        long_inputs.push(base.clone());
        let mut w = base.clone();
        w.push('!');
        long_inputs.push(w);
        let mut w = base.clone();
        w[n - 2] = 'é';
        long_inputs.push(w);
        let mut w = base;
        w[n / 2] = ',';
        long_inputs.push(w);
    }
    let long_bufs: Vec<Buf> = long_inputs.iter().map(|w| Buf::new(w)).collect();
    let lacc = for_each_index(long_grammars.len() * long_bufs.len(), cx.threads, 1, |acc, i| {
        let g = &long_grammars[i / long_bufs.len()];
        let buf = &long_bufs[i % long_bufs.len()];
        let rf = match on_kind::<&[char]>(acc, &sp, g, buf, None, true) {
            Some(n) => n,
            None => return,
        };
        on_kind::<CountStreamK>(acc, &sp, g, buf, Some(&rf), true);
        check_pulls(acc, g, buf);
        on_kind::<StreamK>(acc, &sp, g, buf, Some(&rf), true);
        on_kind::<BoxedStreamK>(acc, &sp, g, buf, Some(&rf), true);
        on_kind::<&str>(acc, &sp, g, buf, Some(&rf), true);
        acc.count("long_input_cases", 1);
    });
    acc.merge(lacc);

    // (4) u8 family
    let mut u8_inputs: Vec<Vec<u8>> = all_inputs(&['1', 'a', ',', '('], 3).iter().map(|w| w.iter().map(|c| *c as u8).collect()).collect();
    let mut rng = Rng::derive(seed, 0xC10, 0xFFFF);
    for _ in 0..cx.t(300, 3000) {
        let n = rng.below(12);
        u8_inputs.push((0..n).map(|_| *rng.pick(b"12ab,()+x ")).collect());
    }
    // long enough to cross IoInput's BufReader refills is not needed for semantics; a few long ones for seeks
    for n in [100usize, 9000] {
        u8_inputs.push((0..n).map(|i| b"1a,(b)2+x"[i % 9]).collect());
    }
    let mut uacc = Acc::default();
    u8_family(&mut uacc, &u8_inputs);
    acc.merge(uacc);

    // (5) Graphemes
    let gal: Vec<&str> = vec!["a", "e\u{301}", "\u{1F1E9}", "\u{1F1EA}", "\u{1F468}", "\u{200D}", "\u{1F469}", "\r", "\n", "\u{0600}", "각", "\u{1100}", "\u{1161}", "\u{FE0F}", "\u{1F3FD}"];
    let mut texts: Vec<String> = vec![];
    for a in &gal {
        texts.push(a.to_string());
        for b in &gal {
            texts.push(format!("{}{}", a, b));
            for c in &gal {
                texts.push(format!("{}{}{}", a, b, c));
            }
        }
    }
    for _ in 0..cx.t(2000, 50_000) {
        let n = rng.range(1, 12);
        texts.push((0..n).map(|_| *rng.pick(&gal)).collect::<String>());
    }
    let mut gacc = Acc::default();
    graphemes(&mut gacc, &texts);
    acc.merge(gacc);
    acc.count("grapheme_texts", texts.len() as u64);

    finish(
        cx,
        acc,
        Finish {
            rule: format!("(1) every grammar with <= {size} nodes over the C01/C02/C08 class (probes, validate, all recovery strategies; to_slice left to C07) x every input <= {max_len} over {{a,b,é}}: &[char] is the reference; &str, Stream, mapped (token,span) slice always, and on every 3rd case also counting Stream, Stream::map, boxed Stream, exact-size boxed Stream, with_context, map_span and &[char; N]; the Input-only leaf basis on IterInput; every run normalised to token indices by the documented re-basing and compared field by field (acceptance, output with every node's extent, all errors with spans/expected/found/contexts, inspector state, probe trace), and each run also against the reference model; (2) {n_rand} random grammars x 4 multi-byte inputs on all kinds; (3) 6 hand-listed backtracking grammars x 28 inputs of 511..1301 tokens on &[char], &str, Stream, boxed and counting Stream; the counting iterator's pull log must be 0,1,2,... ; (4) 12 statically typed u8 grammars on &[u8] vs IoInput<Cursor>, Stream<u8>, &[u8;3]; (5) Graphemes: any().repeated() tokens vs unicode-segmentation on the whole string, spans tile the string. Non-trivial: the reference evaluation backtracked after consuming / accepted u8 input / text with a multi-codepoint cluster"),
            exhaustive: false,
            exhaustive_note: format!("grammars <= {size} nodes x inputs <= {max_len}: complete on &[char], &str, Stream, mapped"),
            assumptions: vec![
                "IterInput implements only Input (no ValueInput): its leaf basis is just/end/empty/custom".into(),
                "empty spans on gapped-span kinds may lie anywhere between the neighbouring tokens".into(),
                "Graphemes oracle uses the same unicode-segmentation crate on the whole string (catches cursor/slicing mistakes, not table errors)".into(),
            ],
            require: vec![
                ("differential_comparisons".into(), 100_000),
                ("runs_iter".into(), 1000),
                ("runs_stream_map".into(), 1000),
                ("runs_with_context".into(), 1000),
                ("runs_map_span".into(), 1000),
                ("runs_array3".into(), 100),
                ("runs_exact_size_boxed_stream".into(), 1000),
                ("runs_io_input".into(), 100),
                ("long_input_cases".into(), 100),
                ("max_stream_items_pulled_in_one_parse".into(), 1025),
                ("grapheme_clusters_compared".into(), 1000),
            ],
            min_evaluations: 10_000,
        },
    )
}
