//! C18 (API family) — a model-free monitor of the inspector contract: *whenever* user code observes the
//! state, the state equals the fold of exactly the tokens before the current position.
//!
//! The observation carries its own position (`MapExtra::span().end` for `map_with` / `validate` /
//! `foldl_with` / `select!` / Pratt fold callbacks, the cursor's empty span for zero-width `custom`
//! probes, which also run in Check mode and on paths that are abandoned later), so the oracle needs
//! neither a grammar model nor the parse result: `state == fold(on_token, input[..position])`.
//! This reaches the parsers outside the grammar AST that move the cursor by other means than
//! `next()`: `text::*` (`padded()` → `skip_while`, `newline()` → `skip`), `regex()`, string `just`,
//! the recovery strategies, `nested_delimiters`, Pratt, `InputRef::{next,peek,skip,parse,check,rewind}`
//! driven by hand, on `&str`, `&[char]` and `Stream`.

use crate::ev::*;
use crate::mk::guarded;
use crate::obs::Insp;
use chumsky::error::Rich;
use chumsky::input::{InputRef, Stream, ValueInput};
use chumsky::inspector::Inspector;
use chumsky::pratt::{infix, left, postfix, prefix, right};
use chumsky::prelude::*;
use chumsky::recovery::{nested_delimiters, skip_then_retry_until, skip_until, via_parser};
use serde_json::json;
use std::cell::RefCell;

thread_local! {
    /// `(position, n, h, where)` for every observation of the current run
    static LOG: RefCell<Vec<(usize, u64, u64, &'static str)>> = RefCell::new(Vec::new());
}

fn log(pos: usize, st: &Insp, tag: &'static str) {
    LOG.with(|l| l.borrow_mut().push((pos, st.n, st.h, tag)));
}

pub const SEED: u8 = 3;

/// States after feeding the first k tokens, indexed by the position (byte offset for `&str`, token index otherwise).
fn prefix_states(w: &str, bytes: bool) -> Vec<Option<(u64, u64)>> {
    let mut st = Insp::fresh(SEED);
    let n = if bytes { w.len() } else { w.chars().count() };
    let mut v = vec![None; n + 1];
    v[0] = Some((st.n, st.h));
    let mut at = 0;
    for c in w.chars() {
        <Insp as Inspector<'_, &str>>::on_token(&mut st, &c);
        at += if bytes { c.len_utf8() } else { 1 };
        v[at] = Some((st.n, st.h));
    }
    v
}

type E<'s, I> = extra::Full<Rich<'s, char, <I as chumsky::input::Input<'s>>::Span>, Insp, ()>;

/// zero-width probe: runs in Emit and Check mode, on kept and abandoned paths
fn pr<'s, I>(tag: &'static str) -> impl Parser<'s, I, (), E<'s, I>> + Clone
where
    I: ValueInput<'s, Token = char, Span = SimpleSpan>,
{
    custom(move |inp: &mut InputRef<'s, '_, I, E<'s, I>>| {
        let c = inp.cursor();
        let sp: SimpleSpan = inp.span_since(&c);
        let st: &mut Insp = inp.state();
        log(sp.start, st, tag);
        Ok(())
    })
}

/// `p.map_with(observe)` keeping the output
macro_rules! ob {
    ($p:expr, $tag:expr) => {
        $p.map_with(|v, e| {
            let sp: SimpleSpan = e.span();
            let st: &mut Insp = e.state();
            log(sp.end, st, $tag);
            v
        })
    };
}

/// Parsers that only need `ValueInput<Token = char>`: built for `&str`, `&[char]` and `Stream`.
macro_rules! common_parsers {
    ($I:ty, $int:expr, $ws:expr, $ws1:expr, $iws1:expr, $nl:expr) => {{
        type EE<'s> = E<'s, $I>;
        let a = || just::<_, $I, EE<'s>>('a');
        let any_ = || any::<$I, EE<'s>>();
        let p = |t: &'static str| pr::<'s, $I>(t);
        // unit parsers: a decimal integer, whitespace*, whitespace+, inline whitespace+, a line terminator
        let int = || $int;
        let ws = || $ws;
        let ws1 = || $ws1;
        let iws1 = || $iws1;
        let nl = || $nl;
        let v: Vec<(&'static str, Boxed<'s, 's, $I, (), EE<'s>>)> = vec![
            ("any().then(probe).padded().then(probe).repeated()", ob!(any_().then(p("after any")), "map_with(any)").padded().then(p("after padded")).repeated().collect::<Vec<_>>().map(|_| ()).boxed()),
            ("a.padded().repeated().then(rest)", ob!(a().padded(), "map_with(a.padded())").then_ignore(p("after a.padded()")).repeated().collect::<Vec<_>>().then(ob!(any_().repeated().collect::<Vec<_>>(), "map_with(rest)")).map(|_| ()).boxed()),
            (
                "whitespace().then(probe).then(int.padded()).separated_by(','.padded())",
                ws()
                    .then(p("after whitespace"))
                    .ignore_then(ob!(int(), "map_with(int)").padded().then_ignore(p("after int.padded()")).separated_by(just(',').padded().then(p("after separator"))).allow_trailing().collect::<Vec<_>>())
                    .map(|_| ())
                    .boxed(),
            ),
            (
                "newline().then(probe).or(any().then(probe)).repeated()",
                ob!(nl(), "map_with(newline)").then(p("after newline")).ignored().or(any_().then(p("after any")).ignored()).repeated().collect::<Vec<_>>().map(|_| ()).boxed(),
            ),
            (
                "inline_whitespace().at_least(1).then(probe) | newline | other",
                choice((iws1().then(p("after inline_whitespace")).ignored(), nl().then(p("after newline")).ignored(), ob!(any_(), "map_with(any)").ignored())).repeated().collect::<Vec<_>>().map(|_| ()).boxed(),
            ),
            (
                "unit repetition of padded items (check-mode fast path), then probe",
                a().or(just('1')).padded().then(p("inside item")).repeated().then(p("after unit repetition")).then(ob!(any_().repeated().collect::<Vec<_>>(), "map_with(rest)")).map(|_| ()).boxed(),
            ),
            (
                "one_of/none_of runs, padded, with lookahead",
                ob!(one_of::<_, $I, EE<'s>>("a1é").repeated().at_least(1).collect::<String>(), "map_with(run)")
                    .padded()
                    .and_is(none_of(",").padded().then(p("inside and_is")))
                    .then_ignore(any_().padded().then(p("inside not")).not().or(any_().rewind().ignored()))
                    .or(ob!(any_().to(String::new()), "map_with(other)"))
                    .repeated()
                    .collect::<Vec<_>>()
                    .map(|_| ())
                    .boxed(),
            ),
            (
                "(int.padded()) recover_with(skip_until(any, ')')) then probe",
                ob!(int().padded().delimited_by(just('('), just(')')).ignored(), "map_with(parenthesised)")
                    .recover_with(skip_until(any_().then(p("inside skip step")).ignored(), just(')').then(p("after until")).ignored(), || ()))
                    .then_ignore(p("after recovery site"))
                    .padded()
                    .repeated()
                    .collect::<Vec<_>>()
                    .then(ob!(any_().repeated().collect::<Vec<_>>(), "map_with(rest)"))
                    .map(|_| ())
                    .boxed(),
            ),
            (
                "item recover_with(skip_then_retry_until(any.padded(), ','))",
                ob!(a().then(just('1')).padded().ignored(), "map_with(item)")
                    .recover_with(skip_then_retry_until(any_().padded().then(p("inside skip step")).ignored(), just(',').ignored()))
                    .then_ignore(p("after recovery site"))
                    .separated_by(just(',').padded())
                    .allow_leading()
                    .collect::<Vec<_>>()
                    .then(ob!(any_().repeated().collect::<Vec<_>>(), "map_with(rest)"))
                    .map(|_| ())
                    .boxed(),
            ),
            (
                "a recover_with(via_parser(nested_delimiters('(', ')', [('[', ']')]))) then probe",
                a().ignored()
                    .recover_with(via_parser(nested_delimiters('(', ')', [('[', ']')], |_| ())))
                    .then_ignore(p("after nested_delimiters site"))
                    .padded()
                    .repeated()
                    .collect::<Vec<_>>()
                    .then(ob!(any_().repeated().collect::<Vec<_>>(), "map_with(rest)"))
                    .map(|_| ())
                    .boxed(),
            ),
            (
                "pratt: int.padded() atoms; infix 'a' (left), infix ',' (right), prefix '(', postfix ')' — fold callbacks observe",
                ob!(int().padded(), "map_with(atom)")
                    .pratt((
                        infix(left(1), just('a').padded().then(p("after infix op")), |_, _, _, e: &mut chumsky::input::MapExtra<'s, '_, $I, EE<'s>>| {
                            let sp: SimpleSpan = e.span();
                            log(sp.end, e.state(), "infix fold")
                        }),
                        infix(right(2), just(',').padded(), |_, _, _, e: &mut chumsky::input::MapExtra<'s, '_, $I, EE<'s>>| {
                            let sp: SimpleSpan = e.span();
                            log(sp.end, e.state(), "infix(right) fold")
                        }),
                        prefix(3, just('(').padded().then(p("after prefix op")), |_, _, e: &mut chumsky::input::MapExtra<'s, '_, $I, EE<'s>>| {
                            let sp: SimpleSpan = e.span();
                            log(sp.end, e.state(), "prefix fold")
                        }),
                        postfix(4, just(')').padded(), |_, _, e: &mut chumsky::input::MapExtra<'s, '_, $I, EE<'s>>| {
                            let sp: SimpleSpan = e.span();
                            log(sp.end, e.state(), "postfix fold")
                        }),
                    ))
                    .then_ignore(p("after pratt"))
                    .then(ob!(any_().repeated().collect::<Vec<_>>(), "map_with(rest)"))
                    .map(|_| ())
                    .boxed(),
            ),
            (
                "foldl_with / foldr_with over padded items",
                ob!(int().padded(), "map_with(first)")
                    .foldl_with(just(',').padded().ignore_then(int().padded()).repeated(), |_, _, e| {
                        let sp: SimpleSpan = e.span();
                        log(sp.end, e.state(), "foldl_with callback")
                    })
                    .then_ignore(p("after foldl_with"))
                    .then(a().padded().repeated().foldr_with(any_().or_not().ignored(), |_, _, e| {
                        let _: SimpleSpan = e.span();
                    }))
                    .then(ob!(any_().repeated().collect::<Vec<_>>(), "map_with(rest)"))
                    .map(|_| ())
                    .boxed(),
            ),
            (
                "select! / filter / try_map / validate observing the state",
                choice((
                    select! { 'a' = e => { let sp: SimpleSpan = e.span(); log(sp.end, e.state(), "select!"); } },
                    any_().filter(|c: &char| c.is_ascii_digit()).then(p("after filter")).ignored(),
                    any_().try_map(|c: char, sp| if c == '(' { Ok(()) } else { Err(Rich::custom(sp, "no")) }).then(p("after try_map")).ignored(),
                    any_().padded().validate(|_, e, _| {
                        let sp: SimpleSpan = e.span();
                        log(sp.end, e.state(), "validate")
                    }),
                ))
                .repeated()
                .collect::<Vec<_>>()
                .map(|_| ())
                .boxed(),
            ),
            (
                "custom parsers driving InputRef by hand (next, peek, skip, parse, check, save/rewind)",
                custom(|inp: &mut InputRef<'s, '_, $I, EE<'s>>| {
                    let obs = |inp: &mut InputRef<'s, '_, $I, EE<'s>>, tag: &'static str| {
                        let c = inp.cursor();
                        let sp: SimpleSpan = inp.span_since(&c);
                        log(sp.start, inp.state(), tag);
                    };
                    let start = inp.cursor();
                    match inp.peek() {
                        None => {
                            let sp = inp.span_since(&start);
                            return Err(Rich::custom(sp, "end"));
                        }
                        Some(' ') => {
                            inp.skip();
                            obs(inp, "after InputRef::skip");
                        }
                        Some('a') => {
                            let cp = inp.save();
                            let _ = inp.next();
                            let _ = inp.next_maybe();
                            obs(inp, "after next+next_maybe");
                            inp.rewind(cp);
                            obs(inp, "after InputRef::rewind");
                            let _ = inp.next();
                        }
                        Some('1') => {
                            let cp = inp.save();
                            if inp.parse($int.padded()).is_err() {
                                inp.rewind(cp);
                                inp.skip();
                            }
                            obs(inp, "after InputRef::parse(int.padded())");
                        }
                        Some(_) => {
                            let cp = inp.save();
                            if inp.check(any::<$I, EE<'s>>().then($ws1)).is_err() {
                                inp.rewind(cp);
                                inp.skip();
                            }
                            obs(inp, "after InputRef::check(any.then(whitespace))");
                        }
                    }
                    Ok(())
                })
                .then(p("after custom"))
                .repeated()
                .collect::<Vec<_>>()
                .map(|_| ())
                .boxed(),
            ),
            (
                "memoized / labelled / map_err around padded parsers",
                ob!(int().padded().memoized().labelled("number"), "map_with(number)")
                    .or(ob!(a().padded().ignored().map_err(|e| e).memoized(), "map_with(a)"))
                    .or(any_().padded().then(p("after other")).ignored())
                    .repeated()
                    .collect::<Vec<_>>()
                    .map(|_| ())
                    .boxed(),
            ),
        ];
        v
    }};
}

/// Parsers that need a string-like input (`&str` only here)
fn str_parsers<'s>() -> Vec<(&'static str, Boxed<'s, 's, &'s str, (), E<'s, &'s str>>)> {
    type EE<'s> = E<'s, &'s str>;
    let p = |t: &'static str| pr::<'s, &'s str>(t);
    let any_ = || any::<&'s str, EE<'s>>();
    let mut v: Vec<(&'static str, Boxed<'s, 's, &'s str, (), EE<'s>>)> = vec![
        ("ident.padded().repeated()", ob!(text::ident::<&str, EE<'s>>(), "map_with(ident)").padded().then_ignore(p("after ident.padded()")).repeated().collect::<Vec<_>>().then(ob!(any_().repeated().to_slice(), "map_with(rest)")).map(|_| ()).boxed()),
        (
            "keyword(\"a1\") | ascii::ident | int, padded",
            choice((ob!(text::ascii::keyword::<&str, _, EE<'s>>("a1"), "map_with(keyword)").then(p("after keyword")).ignored(), ob!(text::ascii::ident(), "map_with(ident)").ignored(), ob!(text::int(10), "map_with(int)").ignored(), any_().ignored()))
                .padded()
                .then_ignore(p("after token"))
                .repeated()
                .collect::<Vec<_>>()
                .map(|_| ())
                .boxed(),
        ),
        (
            "just(\"a1\") | just(\"a\") | just(\"é(\"), to_slice",
            ob!(just::<_, &str, EE<'s>>("a1").or(just("a")).or(just("é(")).to_slice(), "map_with(just str)").then_ignore(p("after just")).or(any_().to_slice()).repeated().collect::<Vec<_>>().map(|_| ()).boxed(),
        ),
        (
            "ident.and_is(keyword.not()) with probes in the lookahead",
            ob!(text::ident::<&str, EE<'s>>().and_is(text::keyword("a1").then(p("inside not(keyword)")).not()), "map_with(non-keyword)").padded().or(any_().padded().to_slice()).repeated().collect::<Vec<_>>().map(|_| ()).boxed(),
        ),
        (
            "lines: any.and_is(newline.not()).repeated().to_slice().separated_by(newline)",
            ob!(any_().and_is(text::newline().not()).repeated().to_slice(), "map_with(line)").then_ignore(p("after line")).separated_by(text::newline().then(p("after newline"))).collect::<Vec<_>>().map(|_| ()).boxed(),
        ),
    ];
    if !cfg!(miri) {
        v.push((
            "regex(\"[a-zé]+|[0-9]+\") | any, then probe",
            ob!(regex::<&str, EE<'s>>("[a-zé]+|[0-9]+"), "map_with(regex)").then_ignore(p("after regex")).or(any_().to_slice()).repeated().collect::<Vec<_>>().map(|_| ()).boxed(),
        ));
        v.push((
            "regex(\"\\\\s*\").then(probe).then(regex(\"[^\\\\s]\"))",
            regex::<&str, EE<'s>>("\\s*").then(p("after regex(\\s*)")).then(regex("[^\\s]")).then_ignore(p("after token")).repeated().collect::<Vec<_>>().then(ob!(any_().repeated().to_slice(), "map_with(rest)")).map(|_| ()).boxed(),
        ));
    }
    v
}

fn judge(acc: &mut Acc, kind: &str, name: &str, w: &str, mode: &str, states: &[Option<(u64, u64)>], r: Result<(bool, usize, (u64, u64)), String>) {
    let obs = LOG.with(|l| std::mem::take(&mut *l.borrow_mut()));
    acc.evaluations += 1;
    acc.count("api_family_cases", 1);
    acc.count("api_family_observations", obs.len() as u64);
    let detail = |extra: serde_json::Value| {
        let mut d = json!({"grammar_text": name, "input": w, "input_kind": kind, "mode": mode, "part": "api family"});
        if let (serde_json::Value::Object(o), serde_json::Value::Object(e)) = (&mut d, extra) {
            o.extend(e);
        }
        d
    };
    for (pos, n, h, tag) in &obs {
        match states.get(*pos).copied().flatten() {
            None => acc.viol(Viol { weight: 200 + w.len(), what: format!("C18: [{}] on {:?} as {} ({}): observation `{}` at position {} which is not a token boundary of the input", name, w, kind, mode, tag, pos), detail: detail(json!({"observation": tag})) }),
            Some((en, eh)) => {
                if (en, eh) != (*n, *h) {
                    acc.viol(Viol {
                        weight: 100 + w.len(),
                        what: format!("C18: [{}] on {:?} as {} ({}): `{}` observed at position {} a state that has seen {} tokens (hash {:x}); the {} tokens before that position give hash {:x}", name, w, kind, mode, tag, pos, n, h, en, eh),
                        detail: detail(json!({"observation": tag, "position": pos})),
                    });
                    break;
                }
            }
        }
    }
    match r {
        Ok((has_output, _nerr, fin)) => {
            if has_output {
                acc.count("api_family_final_states_compared", 1);
                if !obs.is_empty() {
                    acc.nontrivial_enum += 1;
                }
                let want = states.last().copied().flatten().unwrap();
                if fin != want {
                    acc.viol(Viol {
                        weight: 150 + w.len(),
                        what: format!("C18: [{}] on {:?} as {} ({}): after a successful parse the state has seen {} tokens (hash {:x}) but the whole input has {} (hash {:x})", name, w, kind, mode, fin.0, fin.1, want.0, want.1),
                        detail: detail(json!({"observation": "final state"})),
                    });
                }
            }
        }
        Err(e) => acc.viol(Viol { weight: 300 + w.len(), what: format!("C18: [{}] on {:?} as {} ({}): {}", name, w, kind, mode, e), detail: detail(json!({"panic": e})) }),
    }
}

macro_rules! run_list {
    ($acc:expr, $ps:expr, $kind:expr, $w:expr, $states:expr, $mk:expr) => {{
        for (name, p) in $ps.iter() {
            for mode in ["parse", "check"] {
                LOG.with(|l| l.borrow_mut().clear());
                let r = guarded(|| {
                    let mut st = Insp::with_budget(SEED, 2_000_000);
                    if mode == "parse" {
                        let r = p.parse_with_state($mk, &mut st);
                        let (h, n) = (r.has_output(), r.errors().len());
                        drop(r);
                        (h, n, (st.n, st.h))
                    } else {
                        let r = p.check_with_state($mk, &mut st);
                        let (h, n) = (r.has_output(), r.errors().len());
                        drop(r);
                        (h, n, (st.n, st.h))
                    }
                });
                judge($acc, $kind, name, $w, mode, $states, r);
            }
        }
    }};
}

/// Every parser of the family on every word, as `&str`, `&[char]` and `Stream`, in both modes.
pub fn family<'s>(acc: &mut Acc, words: &'s [String], chars: &'s [Vec<char>]) {
    let on_str = common_parsers!(
        &'s str,
        text::int::<&'s str, E<'s, &'s str>>(10).ignored().or(text::digits(10).ignored()),
        text::whitespace::<&'s str, E<'s, &'s str>>(),
        text::whitespace::<&'s str, E<'s, &'s str>>().at_least(1),
        text::inline_whitespace::<&'s str, E<'s, &'s str>>().at_least(1),
        text::newline::<&'s str, E<'s, &'s str>>()
    );
    let on_str2 = str_parsers::<'s>();
    let on_slice = common_parsers!(
        &'s [char],
        one_of::<_, &'s [char], E<'s, &'s [char]>>("0123456789").repeated().at_least(1),
        one_of::<_, &'s [char], E<'s, &'s [char]>>(" \n\r\t").repeated(),
        one_of::<_, &'s [char], E<'s, &'s [char]>>(" \n\r\t").repeated().at_least(1),
        one_of::<_, &'s [char], E<'s, &'s [char]>>(" \t").repeated().at_least(1),
        just::<_, &'s [char], E<'s, &'s [char]>>('\r').then(just('\n').or_not()).ignored().or(just('\n').ignored())
    );
    let on_stream = common_parsers!(
        Stream<std::vec::IntoIter<char>>,
        one_of::<_, Stream<std::vec::IntoIter<char>>, E<'s, Stream<std::vec::IntoIter<char>>>>("0123456789").repeated().at_least(1),
        one_of::<_, Stream<std::vec::IntoIter<char>>, E<'s, Stream<std::vec::IntoIter<char>>>>(" \n\r\t").repeated(),
        one_of::<_, Stream<std::vec::IntoIter<char>>, E<'s, Stream<std::vec::IntoIter<char>>>>(" \n\r\t").repeated().at_least(1),
        one_of::<_, Stream<std::vec::IntoIter<char>>, E<'s, Stream<std::vec::IntoIter<char>>>>(" \t").repeated().at_least(1),
        just::<_, Stream<std::vec::IntoIter<char>>, E<'s, Stream<std::vec::IntoIter<char>>>>('\r').then(just('\n').or_not()).ignored().or(just('\n').ignored())
    );
    for (w, cs) in words.iter().zip(chars.iter()) {
        let by_byte = prefix_states(w, true);
        let by_tok = prefix_states(w, false);
        run_list!(acc, on_str, "&str", w, &by_byte, w.as_str());
        run_list!(acc, on_str2, "&str", w, &by_byte, w.as_str());
        run_list!(acc, on_slice, "&[char]", w, &by_tok, cs.as_slice());
        run_list!(acc, on_stream, "Stream", w, &by_tok, Stream::from_iter(cs.clone().into_iter()));
    }
}

pub const N_PARSERS: usize = 15 * 3 + 7;
