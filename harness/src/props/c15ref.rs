//! C15 (static family) — configurable parsers configured *by reference* (`(&p).configure(..)`, the
//! blanket `ConfigParser for &T`), against the owned formulation and against the statically configured
//! parser, in Emit and Check positions.  Model-free differential between real executions.

use crate::ev::*;
use crate::mk::guarded;
use chumsky::error::Rich;
use chumsky::prelude::*;
use serde_json::json;

type E<'s> = extra::Err<Rich<'s, char>>;
type ES<'s> = extra::Full<Rich<'s, char>, (), String>;
type EN<'s> = extra::Full<Rich<'s, char>, (), usize>;
type B<'s, 'b> = Boxed<'s, 'b, &'s str, String, E<'s>>;

fn r<T: std::fmt::Debug>(t: T) -> String {
    format!("{:?}", t)
}

type Res = Result<(bool, Option<String>, Vec<String>), String>;

fn run1<'s, P: Parser<'s, &'s str, String, E<'s>>>(q: &P, w: &'s str, check: bool) -> Res {
    guarded(|| {
        if check {
            let res = q.check(w);
            (res.has_output(), None, res.errors().map(|e| format!("{:?}@{:?}", e, e.span())).collect::<Vec<_>>())
        } else {
            let res = q.parse(w);
            (res.has_output(), res.output().cloned(), res.errors().map(|e| format!("{:?}@{:?}", e, e.span())).collect::<Vec<_>>())
        }
    })
}

fn compare<'s, 'b>(acc: &mut Acc, name: &str, forms: &[(&str, B<'s, 'b>)], words: &'s [String]) {
    for w in words {
        for check in [false, true] {
            acc.evaluations += 1;
            acc.count("by_reference_cases", 1);
            let base = run1(&forms[0].1, w.as_str(), check);
            if matches!(&base, Ok((true, _, _))) {
                acc.count("by_reference_accepting_cases", 1);
                acc.nontrivial_rand.insert(crate::rng::hash64(format!("ref|{}|{}|{}", name, w, check).as_bytes()));
            }
            for (fname, f) in &forms[1..] {
                let other = run1(f, w.as_str(), check);
                if other != base {
                    acc.viol(Viol {
                        weight: 80 + w.len(),
                        what: format!("C15: [{}] on {:?} ({}): {} gives {:?} but {} gives {:?}", name, w, if check { "check" } else { "parse" }, forms[0].0, base, fname, other),
                        detail: json!({"grammar_text": name, "input": w, "form": fname, "mode": if check { "check" } else { "parse" }}),
                    });
                }
            }
        }
    }
}

/// Words over {a,b,é}; every grammar is built in the owned and in the borrowed formulation, each as
/// value-building parser, under `to_slice()` and under `ignored()` (Check-mode positions).
pub fn family<'s>(acc: &mut Acc, words: &'s [String]) {
    // the borrowed configurable parsers must outlive the grammars that refer to them
    // (`boxed()` wants `Self: 'src`, so they are leaked: four small objects per call)
    let closer: &'s _ = Box::leak(Box::new(just::<_, &str, ES>(String::new())));
    let closer2: &'s _ = Box::leak(Box::new(just::<_, &str, ES>(String::from("zz"))));
    let items: &'s _ = Box::leak(Box::new(just::<_, &str, EN>('b').repeated()));
    let items2: &'s _ = Box::leak(Box::new(just::<_, &str, EN>("bé").repeated().at_least(7)));

    // 1. delimiter echo: open = [ab]{1,2}, body = any* up to the echo of `open`
    {
        let open = || one_of::<_, &str, E>("ab").repeated().at_least(1).at_most(2).collect::<String>();
        macro_rules! echo {
            ($j:expr) => {
                open().then_with_ctx(any::<&str, ES>().and_is($j.not()).repeated().collect::<String>().then($j.to_slice()))
            };
        }
        let owned = || just::<_, &str, ES>(String::new()).configure(|cfg, ctx: &String| cfg.seq(ctx.clone()));
        let by_ref = || closer.configure(|cfg, ctx: &String| cfg.seq(ctx.clone()));
        let by_ref2 = || closer2.configure(|cfg, ctx: &String| cfg.seq(ctx.clone()));
        let forms: Vec<(&str, B<'s, '_>)> = vec![
            ("the owned formulation", echo!(owned()).map(r).boxed()),
            ("configure on a reference", echo!(by_ref()).map(r).boxed()),
            ("configure on a reference to a parser with another static sequence", echo!(by_ref2()).map(r).boxed()),
        ];
        compare(acc, "delimiter echo: open.then_with_ctx(any.and_is(J.not())* J), J = just(..).configure(seq(ctx))", &forms, words);
        let forms: Vec<(&str, B<'s, '_>)> = vec![
            ("the owned formulation", echo!(owned()).to_slice().map(r).boxed()),
            ("configure on a reference", echo!(by_ref()).to_slice().map(r).boxed()),
            ("configure on a reference to a parser with another static sequence", echo!(by_ref2()).to_slice().map(r).boxed()),
        ];
        compare(acc, "delimiter echo under to_slice()", &forms, words);
        let forms: Vec<(&str, B<'s, '_>)> = vec![
            ("the owned formulation", echo!(owned()).ignored().then(any().repeated().collect::<String>()).map(r).boxed()),
            ("configure on a reference", echo!(by_ref()).ignored().then(any().repeated().collect::<String>()).map(r).boxed()),
        ];
        compare(acc, "delimiter echo under ignored(), then the rest", &forms, words);
        // the configured parser in positions whose output is dropped
        macro_rules! dropped {
            ($j:expr) => {
                open().ignore_with_ctx($j.ignore_then(any::<&str, ES>().repeated().collect::<String>()).or(any().repeated().at_most(1).collect::<String>().then_ignore($j)))
            };
        }
        let forms: Vec<(&str, B<'s, '_>)> = vec![("the owned formulation", dropped!(owned()).map(r).boxed()), ("configure on a reference", dropped!(by_ref()).map(r).boxed()), ("configure on a reference to a parser with another static sequence", dropped!(by_ref2()).map(r).boxed())];
        compare(acc, "open.ignore_with_ctx(J.ignore_then(rest) | any?.then_ignore(J))", &forms, words);
        // against the statically configured parser, per context value
        for o in ["a", "b", "ab", "ba", "aa", "bb"] {
            let stat = just::<_, &str, E>(o.to_string()).then(any::<&str, E>().and_is(just(o.to_string()).not()).repeated().collect::<String>().then(just(o.to_string()).to_slice()));
            let dynm = just::<_, &str, E>(o.to_string()).then_with_ctx(any::<&str, ES>().and_is(by_ref().not()).repeated().collect::<String>().then(by_ref().to_slice()));
            let forms: Vec<(&str, B<'s, '_>)> = vec![("the statically configured parser", stat.map(r).boxed()), ("configure on a reference, context from then_with_ctx", dynm.map(r).boxed())];
            compare(acc, "fixed opener, echo configured from context vs static", &forms, words);
        }
    }
    // 2. length-prefixed: a^n then exactly / at most n items, the configured repetition used as a unit parser
    {
        let count = || just::<_, &str, E>('a').repeated().count();
        macro_rules! lp {
            ($rep:expr) => {
                count().then_with_ctx($rep.to_slice().then(any::<&str, EN>().repeated().collect::<String>()))
            };
        }
        let forms: Vec<(&str, B<'s, '_>)> = vec![
            ("the owned formulation", lp!(just::<_, &str, EN>('b').repeated().configure(|cfg, n: &usize| cfg.exactly(*n))).map(r).boxed()),
            ("configure on a reference", lp!(items.configure(|cfg, n: &usize| cfg.exactly(*n))).map(r).boxed()),
        ];
        compare(acc, "a^n then_with_ctx (b.repeated().configure(exactly(n)) as unit parser, to_slice) then rest", &forms, words);
        let forms: Vec<(&str, B<'s, '_>)> = vec![
            ("the owned formulation", lp!(just::<_, &str, EN>("bé").repeated().configure(|cfg, n: &usize| cfg.at_least(*n / 2).at_most(*n))).map(r).boxed()),
            ("configure on a reference (static bounds to be replaced)", lp!(items2.configure(|cfg, n: &usize| cfg.at_least(*n / 2).at_most(*n))).map(r).boxed()),
        ];
        compare(acc, "a^n then_with_ctx (\"bé\".repeated().configure(at_least(n/2).at_most(n)) as unit parser) then rest", &forms, words);
        for n in 0..4usize {
            let stat = just::<_, &str, E>('a').repeated().exactly(n).count().then(just::<_, &str, E>("bé").repeated().at_least(n / 2).at_most(n).to_slice().then(any().repeated().collect::<String>()));
            let dynm = just::<_, &str, E>('a').repeated().exactly(n).count().then_with_ctx(items2.configure(|cfg, n: &usize| cfg.at_least(*n / 2).at_most(*n)).to_slice().then(any::<&str, EN>().repeated().collect::<String>()));
            let dyno = just::<_, &str, E>('a').repeated().exactly(n).count().then_with_ctx(just::<_, &str, EN>("bé").repeated().configure(|cfg, n: &usize| cfg.at_least(*n / 2).at_most(*n)).collect::<Vec<&str>>().to_slice().then(any::<&str, EN>().repeated().collect::<String>()));
            let forms: Vec<(&str, B<'s, '_>)> = vec![("the statically configured parser", stat.map(r).boxed()), ("configure on a reference", dynm.map(r).boxed()), ("owned, collected", dyno.map(r).boxed())];
            compare(acc, "fixed count, ranged repetition configured from context vs static bounds", &forms, words);
        }
    }
    // 3. every pair of bounds, also contradictory ones (at_least > at_most: whatever the statically configured
    //    parser does with them, the parser configured with the same settings must do the same)
    {
        for lo in 0..4usize {
            for hi in 0..4usize {
                let item = || just::<_, &str, E>("bé").or(just("b"));
                let item_n = || just::<_, &str, EN>("bé").or(just("b"));
                let rest = || any::<&str, E>().repeated().collect::<String>();
                let rest_n = || any::<&str, EN>().repeated().collect::<String>();
                let forms: Vec<(&str, B<'s, '_>)> = vec![
                    ("the statically configured parser", item().repeated().at_least(lo).at_most(hi).collect::<Vec<&str>>().then(rest()).map(r).boxed()),
                    ("configure(at_least, at_most) with constants", item().repeated().configure(move |cfg, _: &()| cfg.at_least(lo).at_most(hi)).collect::<Vec<&str>>().then(rest()).map(r).boxed()),
                    ("static at_most, configured at_least", item().repeated().at_most(hi).configure(move |cfg, _: &()| cfg.at_least(lo)).collect::<Vec<&str>>().then(rest()).map(r).boxed()),
                    ("static at_least, configured at_most", item().repeated().at_least(lo).configure(move |cfg, _: &()| cfg.at_most(hi)).collect::<Vec<&str>>().then(rest()).map(r).boxed()),
                    ("try_configure(at_least, at_most)", item().repeated().try_configure(move |cfg, _: &(), _| Ok(cfg.at_least(lo).at_most(hi))).collect::<Vec<&str>>().then(rest()).map(r).boxed()),
                    (
                        "bounds taken from the context (with_ctx)",
                        item_n().repeated().configure(move |cfg, n: &usize| cfg.at_least(*n / 4).at_most(*n % 4)).collect::<Vec<&str>>().then(rest_n()).map(r).with_ctx(lo * 4 + hi).boxed(),
                    ),
                ];
                compare(acc, "item.repeated() with every pair of bounds in 0..4 (incl. at_least > at_most), collected, then rest", &forms, words);
                let forms: Vec<(&str, B<'s, '_>)> = vec![
                    ("the statically configured parser", item().repeated().at_least(lo).at_most(hi).to_slice().then(rest()).map(r).boxed()),
                    ("configure(at_least, at_most) with constants", item().repeated().configure(move |cfg, _: &()| cfg.at_least(lo).at_most(hi)).to_slice().then(rest()).map(r).boxed()),
                    ("bounds taken from the context (with_ctx)", item_n().repeated().configure(move |cfg, n: &usize| cfg.at_least(*n / 4).at_most(*n % 4)).to_slice().then(rest_n()).map(r).with_ctx(lo * 4 + hi).boxed()),
                ];
                compare(acc, "item.repeated() with every pair of bounds in 0..4 as a unit parser under to_slice, then rest", &forms, words);
                let forms: Vec<(&str, B<'s, '_>)> = vec![
                    ("the statically configured parser", item().repeated().at_least(lo).at_most(hi).count().then(rest()).map(r).boxed()),
                    ("configure(at_least, at_most) with constants", item().repeated().configure(move |cfg, _: &()| cfg.at_least(lo).at_most(hi)).count().then(rest()).map(r).boxed()),
                ];
                compare(acc, "item.repeated() with every pair of bounds in 0..4, count(), then rest", &forms, words);
            }
        }
    }
}

/// Context providers used as *iterables* (`hdr.ignore_with_ctx(items)` / `hdr.then_with_ctx(items)` driven item by
/// item, alone and chained behind other iterables with `then`) against the parser-level formulation
/// (`hdr.then_with_ctx(items.collect())`): every item is tagged with the context it was parsed under, so a
/// provider that runs at the wrong place or time shows in the tags, in the bounds and in acceptance.
/// Words over {a, 1, 2, x}.
pub fn iter_family<'s>(acc: &mut Acc, words: &'s [String]) {
    let hdr = || one_of::<_, &str, E>("0123").map(|c: char| c.to_digit(10).unwrap() as usize);
    let item = || one_of::<_, &str, EN>("xa").map_with(|c: char, e| format!("{}{}", c, *e.ctx()));
    let items = || item().repeated().configure(|cfg, n: &usize| cfg.exactly(*n));
    let plain = || just::<_, &str, E>('a').map(|_| "a-".to_string()).repeated();
    let cat = |v: Vec<String>| v.concat();
    // one section
    let forms: Vec<(&str, B<'s, '_>)> = vec![
        ("parser-level provider: plain.collect().then(hdr.ignore_with_ctx(items.collect()))", plain().collect::<Vec<String>>().then(hdr().ignore_with_ctx(items().collect::<Vec<String>>())).map(|(mut a, b)| { a.extend(b); a }).map(cat).boxed()),
        ("iterable chain: plain.then(hdr.ignore_with_ctx(items)).collect()", plain().then(hdr().ignore_with_ctx(items())).collect::<Vec<String>>().map(cat).boxed()),
        ("iterable chain: plain.then(hdr.then_with_ctx(items)).collect()", plain().then(hdr().then_with_ctx(items())).collect::<Vec<String>>().map(cat).boxed()),
    ];
    compare(acc, "a* then one length-prefixed section (d item{d}), items tagged with the context they saw", &forms, words);
    // two sections in a row
    let forms: Vec<(&str, B<'s, '_>)> = vec![
        (
            "parser-level providers",
            plain().collect::<Vec<String>>().then(hdr().ignore_with_ctx(items().collect::<Vec<String>>())).then(hdr().ignore_with_ctx(items().collect::<Vec<String>>())).map(|((mut a, b), c)| { a.extend(b); a.extend(c); a }).map(cat).boxed(),
        ),
        ("iterable chain: plain.then(section).then(section).collect()", plain().then(hdr().ignore_with_ctx(items())).then(hdr().ignore_with_ctx(items())).collect::<Vec<String>>().map(cat).boxed()),
        ("iterable chain: plain.then(section.then(section)).collect()", plain().then(hdr().ignore_with_ctx(items()).then(hdr().then_with_ctx(items()))).collect::<Vec<String>>().map(cat).boxed()),
    ];
    compare(acc, "a* then two length-prefixed sections", &forms, words);
    // the provider alone as an iterable, under the drivers
    let forms: Vec<(&str, B<'s, '_>)> = vec![
        ("parser-level provider, count of the collected items", hdr().ignore_with_ctx(items().collect::<Vec<String>>()).map(|v| v.len()).then(any::<&str, E>().repeated().collect::<String>()).map(r).boxed()),
        ("hdr.ignore_with_ctx(items).count()", hdr().ignore_with_ctx(items()).count().then(any::<&str, E>().repeated().collect::<String>()).map(r).boxed()),
        ("hdr.then_with_ctx(items).enumerate().count()", hdr().then_with_ctx(items()).enumerate().count().then(any::<&str, E>().repeated().collect::<String>()).map(r).boxed()),
        ("empty().foldl(hdr.ignore_with_ctx(items))", empty::<&str, E>().to(0usize).foldl(hdr().ignore_with_ctx(items()), |n, _| n + 1).then(any::<&str, E>().repeated().collect::<String>()).map(r).boxed()),
    ];
    compare(acc, "one section alone: number of items, then the rest", &forms, words);
}
