//! C09 — Pratt parsing: textbook binding-power reference over token slices.

use crate::drv::*;
use crate::ev::*;
use crate::gram::all_inputs;
use crate::mk::*;
use crate::par::for_each_index;
use crate::prattk::*;
use crate::rng::{hash64, Rng};
use crate::val::Val;
use serde_json::json;

fn flatten(v: &Val, out: &mut String) {
    match v {
        Val::Node { v, .. } => flatten(v, out),
        Val::Tok(c) => out.push(*c),
        Val::Seq(xs) => xs.iter().for_each(|x| flatten(x, out)),
        _ => {}
    }
}

fn expected(t: &[OpSpec], w: &[char]) -> (Option<Val>, u64) {
    let mut r = Ref { w, t, steps: 0 };
    let e = r.expr(0, 0).map(|(tree, q)| Val::pair(tree, Val::Str(w[q..].iter().collect())));
    (e, r.steps)
}

fn case(acc: &mut Acc, t: &[OpSpec], buf: &Buf, enumerated: bool, reps: u8) {
    acc.evaluations += 1;
    let (exp, _) = expected(t, &buf.chars);
    let vio = |acc: &mut Acc, what: String| {
        acc.viol(Viol {
            weight: t.len() * 64 + buf.n(),
            what,
            detail: json!({"table": show_table(t), "table_spec": t.iter().map(|o| json!({"kind": format!("{:?}", o.kind), "sym": o.sym.to_string(), "bp": o.bp})).collect::<Vec<_>>(), "input": buf.text}),
        })
    };
    let mut results: Vec<(&str, Result<RunOut, String>)> = vec![("Vec<Boxed>", run_vec(t, buf, false))];
    if reps & 1 != 0 {
        if let Some(r) = run_boxed_tuple(t, buf, false) {
            results.push(("tuple of boxed operators", r));
        }
    }
    if reps & 2 != 0 {
        if let Some(r) = run_tuple(t, buf, false) {
            results.push(("plain tuple", r));
        }
    }
    if reps & 4 != 0 {
        results.push(("Vec<Boxed> in check mode", run_vec(t, buf, true)));
    }
    let nontrivial = exp.is_some() && buf.n() >= 3;
    if nontrivial {
        if enumerated {
            acc.nontrivial_enum += 1;
        } else {
            acc.nontrivial_rand.insert(hash64(format!("{}|{}", show_table(t), buf.text).as_bytes()));
        }
    }
    acc.count("accepted_expressions", exp.is_some() as u64);
    for (name, r) in results {
        let r = match r {
            Ok(r) => r,
            Err(e) => {
                vio(acc, format!("C09: {} table: {}", name, e));
                continue;
            }
        };
        acc.count("table_runs", 1);
        if r.has_output != exp.is_some() {
            vio(acc, format!("C09: {} table: accepts={} but the binding-power algorithm {}", name, r.has_output, if exp.is_some() { "parses an expression" } else { "finds no expression" }));
            continue;
        }
        if name.ends_with("check mode") {
            continue;
        }
        if let (Some(e), Some(o)) = (&exp, &r.out) {
            // spans in the real tree are byte offsets; symbols and atoms are ASCII so they coincide with token indices
            if e != o {
                let (et, er) = match e {
                    Val::Pair(a, b) => (render(a), b.flat_string()),
                    _ => unreachable!(),
                };
                let (ot, or) = match o {
                    Val::Pair(a, b) => (render(a), b.flat_string()),
                    _ => (o.show(), String::new()),
                };
                if et != ot || er != or {
                    vio(acc, format!("C09: {} table: tree {} rest {:?}, binding-power algorithm gives {} rest {:?}", name, ot, or, et, er));
                } else {
                    vio(acc, format!("C09: {} table: same tree {} but fold callbacks saw different spans/state: {} vs expected {}", name, ot, o.show(), e.show()));
                }
                continue;
            }
            // flattening yields the consumed tokens in order
            if let Val::Pair(tree, rest) = o {
                let mut flat = String::new();
                flatten(tree, &mut flat);
                let consumed: String = buf.chars[..buf.n() - rest.flat_string().chars().count()].iter().collect();
                if flat != consumed {
                    vio(acc, format!("C09: {} table: flattening {:?} is not the consumed prefix {:?}", name, flat, consumed));
                }
                acc.count("operators_left_unconsumed", (!rest.flat_string().is_empty()) as u64);
            }
        }
    }
    if nontrivial && acc.samples.len() < 2 && acc.evaluations % 257 == 0 {
        if let Some(Val::Pair(a, b)) = &exp {
            acc.samples.push(json!({"table": show_table(t), "input": buf.text, "tree": render(a), "unconsumed": b.flat_string()}));
        }
    }
}

pub fn run(cx: &RunCtx) -> i32 {
    // enumerated: all tables with <= 2 operators over 3 symbols x 4 powers x 4 kinds
    let syms = ['+', '-', '*'];
    let mut ops: Vec<OpSpec> = vec![];
    for kind in [OpKind::Pre, OpKind::Post, OpKind::InL, OpKind::InR] {
        for &sym in &syms {
            for bp in 0..4u16 {
                ops.push(OpSpec { kind, sym, bp });
            }
        }
    }
    let mut tables: Vec<Vec<OpSpec>> = ops.iter().map(|o| vec![*o]).collect();
    for a in &ops {
        for b in &ops {
            tables.push(vec![*a, *b]);
        }
    }
    let max_len = cx.t(6, 8);
    let alpha = ['x', '+', '-', '*'];
    let inputs = all_inputs(&alpha, max_len);
    let bufs: Vec<Buf> = inputs.iter().map(|w| Buf::new(w)).collect();
    let n_tables = tables.len();
    let thorough = cx.thorough();
    let mut acc = for_each_index(tables.len(), cx.threads, 4, |acc, ti| {
        let t = &tables[ti];
        for (bi, buf) in bufs.iter().enumerate() {
            // every representation on a stride of the inputs, Vec<Boxed> on all of them
            let reps = if (bi + ti) % if thorough { 3 } else { 7 } == 0 { 7 } else { 0 };
            case(acc, t, buf, true, reps);
        }
    });
    acc.count("enumerated_tables", n_tables as u64);
    acc.count("enumerated_inputs", bufs.len() as u64);

    // random tables of 3..6 operators over 6 symbols and 4 power levels, random strings
    let n_rand = cx.t(30_000, 600_000);
    let seed = cx.seed;
    let syms6 = ['+', '-', '*', '/', '!', '~'];
    let racc = for_each_index(n_rand, cx.threads, 64, |acc, i| {
        let mut rng = Rng::derive(seed, 0xC09, i as u64);
        let n = rng.range(3, 6);
        let t: Vec<OpSpec> = (0..n)
            .map(|_| OpSpec { kind: *rng.pick(&[OpKind::Pre, OpKind::Post, OpKind::InL, OpKind::InR]), sym: *rng.pick(&syms6), bp: rng.below(4) as u16 })
            .collect();
        let used: Vec<char> = {
            let mut u: Vec<char> = t.iter().map(|o| o.sym).collect();
            u.push(ATOM);
            u.push(ATOM);
            u.push(*rng.pick(&syms6));
            u
        };
        for _ in 0..4 {
            let len = rng.range(1, 24);
            // bias towards well-formed-ish strings: alternate atoms and operators with noise
            let w: Vec<char> = (0..len).map(|j| if rng.chance(3, 4) { if j % 2 == 0 { if rng.chance(1, 4) { *rng.pick(&used) } else { ATOM } } else { *rng.pick(&used) } } else { *rng.pick(&used) }).collect();
            let buf = Buf::new(&w);
            let t3 = if t.len() > 3 { &t[..3] } else { &t[..] };
            case(acc, &t, &buf, false, 1 | 4);
            // plain tuples exist up to arity 3: run the 3-operator prefix of the table through all representations
            case(acc, t3, &buf, false, 7);
        }
    });
    acc.merge(racc);

    finish(
        cx,
        acc,
        Finish {
            rule: format!("atom.pratt(table).then(rest) vs a textbook binding-power loop over the token slice: all {n_tables} operator tables with <= 2 operators (kind in prefix/postfix/infix-left/infix-right x 3 symbols x 4 powers, same symbol allowed in several roles) x all strings of length <= {max_len} over {{x,+,-,*}}, the table given as Vec<Boxed> on every input and additionally as tuple of boxed operators, plain tuple and in check mode on a stride; plus {n_rand} random tables of 3..6 operators over 6 symbols x 4 strings <= 24 tokens (+ their 3-operator prefix as plain tuple); compared: acceptance, fully parenthesised tree, span and inspector state seen by every fold callback, unconsumed remainder, flattening = consumed tokens; non-trivial = an expression is recognised in an input of >= 3 tokens"),
            exhaustive: false,
            exhaustive_note: format!("tables <= 2 operators x strings <= {max_len}: complete (Vec<Boxed> representation)"),
            assumptions: vec!["P4: power mapping left(x)=(2x,2x+1), right(x)=(2x+1,2x), prefix operand power 2x, postfix power 2x+1 (from the property's anchors)".into(), "operators tried in declaration order: all postfix operators before infix operators in each loop iteration".into()],
            require: vec![("accepted_expressions".into(), 1000), ("operators_left_unconsumed".into(), 100), ("table_runs".into(), 10_000)],
            min_evaluations: 100_000,
        },
    )
}
