//! C12 — recursive parsers equal their unrolling and nest to any depth.
//!
//! (1) generated guarded recursive grammars (`recursive()` and `declare`/`define`, one and two
//!     mutually recursive definitions) against the reference model (whose `Ref` rule *is* the
//!     unrolling) and, real vs real, against the explicitly unrolled grammar;
//! (2) handles cloned / boxed / wrapped / dropped in every order before use;
//! (3) nesting towers of depth 10^2 .. 10^6 parsed in a child process on a thread with a 512 KiB
//!     stack: dying there = violation, watchdog = inconclusive;
//! (4) a second `define` must panic, the message naming the caller's definition site, and the parser
//!     must keep its first definition;
//! (5) a small-depth slice under Miri (without `stacker`) for the `Rc::new_cyclic` / once-cell code.

use crate::classes;
use crate::drv::*;
use crate::ev::*;
use crate::gram::*;
use crate::mk::*;
use crate::obs::Steps;
use crate::par::for_each_index;
use crate::proc::run_children;
use crate::rng::Rng;
use chumsky::error::Rich;
use chumsky::pratt::{infix, left, postfix, prefix, right};
use chumsky::prelude::*;
use chumsky::recursive::Recursive;
use serde_json::{json, Value};
use std::rc::Rc;
use std::time::Duration;

fn rf(n: u8) -> G {
    G::leaf(Op::Ref).with(|p| p.n = n)
}

/// Leaves that refer to definition `n` behind a consuming prefix (so recursion is guarded).
fn guarded_refs(n: u8) -> Vec<G> {
    vec![
        G::bin(Op::Then, G::just('a'), rf(n)),
        G::bin(Op::IgnoreThen, G::leaf(Op::Any), rf(n)),
        G::new(Op::Delim, vec![rf(n), G::just('a'), G::just('b')]),
        G::bin(Op::Then, G::just('é'), G::un(Op::OrNot, rf(n))),
        G::bin(Op::Then, G::just('a'), G::rep(G::bin(Op::Then, G::just('b'), rf(n)), 0, Some(2), Flav::Vec)),
    ]
}

pub fn body_basis(defs: &[u8]) -> Basis {
    let mut b = classes::k01_core(true);
    for n in defs {
        b.leaves.extend(guarded_refs(*n));
    }
    b.ctors.extend(classes::rep_light());
    b.ctors.push(ctor(2, |k| G::new(Op::Group, k)));
    b.ctors.push(ctor(1, |mut k| G::un(Op::Validate, k.remove(0)).with(|p| p.n = 1)));
    b.ctors.push(ctor(2, |k| G::new(Op::RecVia, k)));
    b
}

fn refs_in(g: &G, n: u8) -> usize {
    let mut c = 0;
    g.walk(&mut |x| {
        if x.op == Op::Ref && x.p.n == n {
            c += 1
        }
    });
    c
}

fn rec(n: u8, declare: bool, body: G) -> G {
    G::un(Op::Rec, body).with(|p| {
        p.n = n;
        p.ok = !declare
    })
}

pub fn spec() -> Spec {
    Spec {
        prop: "C12",
        what: What { value: true, emits: true, primary: true, state: true, trace: true, no_found: true, ..Default::default() },
        nontrivial: |m| m.stats.max_rec_depth >= 2,
        amb: |m| m.stats.ambiguous_a1 || m.stats.ambiguous_a2,
        counters: |acc, m, _r| {
            acc.maxc("max_recursion_depth_compared_with_the_model", m.stats.max_rec_depth as u64);
            acc.count("cases_with_recursion_depth_ge_3", (m.stats.max_rec_depth >= 3) as u64);
        },
        signature: no_sig,
        slice: false,
        obs: false,
        also_check: true,
    }
}

/// Replace every `Ref n` in `body` by `with`.
fn subst(body: &G, n: u8, with: &G) -> G {
    if body.op == Op::Ref && body.p.n == n {
        return with.clone();
    }
    let mut g = body.clone();
    g.kids = body.kids.iter().map(|k| subst(k, n, with)).collect();
    g
}

/// The `depth`-fold unrolling of `rec n body`, the innermost reference replaced by a parser that always fails.
fn unroll(body: &G, n: u8, depth: usize) -> G {
    let mut cur = G::new(Op::Choice, vec![]);
    // `choice(vec![])` always fails without consuming
    for _ in 0..depth {
        cur = subst(body, n, &cur);
    }
    cur
}

/// Node ids differ between the recursive grammar and its unrolling (every copy is renumbered): drop them.
fn no_ids(v: &crate::val::Val) -> crate::val::Val {
    use crate::val::Val;
    match v {
        Val::Tag(_, x) => Val::Tag(0, Box::new(no_ids(x))),
        Val::Node { v, .. } => no_ids(v),
        Val::Num(_) => Val::Num(0),
        Val::Fb(_) => Val::Fb(0),
        Val::Seq(xs) => Val::Seq(xs.iter().map(no_ids).collect()),
        Val::Opt(o) => Val::Opt(o.as_ref().map(|x| Box::new(no_ids(x)))),
        Val::Pair(a, b) => Val::pair(no_ids(a), no_ids(b)),
        other => other.strip(),
    }
}

fn strip_run(r: &RunOut) -> (bool, Option<crate::val::Val>, Vec<crate::obs::RErr>, (u64, u64)) {
    (r.has_output, r.out.as_ref().map(no_ids), r.errs.clone(), r.st)
}

fn one_grammar<'s>(acc: &mut Acc, sp: &Spec, g: &G, bufs: &'s [Buf], enumerated: bool, unrolled: Option<&G>) {
    let p = build::<&str, Rich<char>>(g, Opts::default());
    let pu = unrolled.map(|u| build::<&str, Rich<char>>(u, Opts { wrap: false, ..Opts::default() }));
    let pr = unrolled.map(|_| build::<&str, Rich<char>>(g, Opts { wrap: false, ..Opts::default() }));
    for buf in bufs {
        model_case::<&str, Rich<char>>(acc, sp, g, &p, buf, enumerated);
        if let (Some(pu), Some(pr), Some(u)) = (&pu, &pr, unrolled) {
            // real vs real: the recursive parser against its explicit unrolling (deep enough for this input)
            let a = guarded(|| run_parse(pr, buf, 0, STEP_BUDGET));
            let b = guarded(|| run_parse(pu, buf, 0, STEP_BUDGET));
            acc.evaluations += 1;
            if let (Ok(a), Ok(b)) = (a, b) {
                acc.count("unrolling_differentials", 1);
                let (sa, sb) = (strip_run(&a), strip_run(&b));
                // the always-failing innermost reference contributes an empty failure at the deepest
                // position only when the input is longer than the unrolling is deep, which the bounds exclude
                if sa.0 != sb.0 || sa.1 != sb.1 || sa.3 != sb.3 || (sa.2.len() != sb.2.len()) || sa.2.iter().zip(&sb.2).any(|(x, y)| x.span != y.span) {
                    acc.viol(Viol::case(
                        format!(
                            "C12: recursive parser and its explicit unrolling disagree: recursive (accept={}, out={:?}, errors={:?}) vs unrolled (accept={}, out={:?}, errors={:?})",
                            sa.0,
                            sa.1.as_ref().map(|v| v.show()),
                            sa.2.iter().map(|e| e.show()).collect::<Vec<_>>(),
                            sb.0,
                            sb.1.as_ref().map(|v| v.show()),
                            sb.2.iter().map(|e| e.show()).collect::<Vec<_>>()
                        ),
                        g,
                        &buf.chars,
                        json!({"unrolled": u.show()}),
                    ));
                }
            }
        }
    }
}

// -----------------------------------------------------------------------------------------------
// (2) handle juggling: clone / box / wrap / drop orders (statically typed)

type EJ<'s> = extra::Full<Rich<'s, char>, Steps, ()>;
type BJ<'s> = Boxed<'s, 's, &'s str, usize, EJ<'s>>;

/// depth of a balanced `a^n x? b^n` tower, or None
fn tower_ref(s: &str) -> Option<usize> {
    let cs: Vec<char> = s.chars().collect();
    let n = cs.iter().take_while(|c| **c == 'a').count();
    let mut i = n;
    if i < cs.len() && cs[i] == 'x' {
        i += 1;
    }
    let m = cs[i..].iter().take_while(|c| **c == 'b').count();
    if i + m == cs.len() && m == n {
        Some(n)
    } else {
        None
    }
}

fn tower_body<'s, P: Parser<'s, &'s str, usize, EJ<'s>> + Clone + 's>(t: P) -> impl Parser<'s, &'s str, usize, EJ<'s>> + Clone + 's {
    just('a').ignore_then(t).then_ignore(just('b')).map(|d: usize| d + 1).or(just('x').or_not().to(0usize))
}

/// Every way of obtaining a usable handle on `t = 'a' t 'b' | 'x'?`.
fn juggled<'s>() -> Vec<(&'static str, Box<dyn Fn(&'s str) -> (bool, Option<usize>) + 's>)> {
    fn run<'s, P: Parser<'s, &'s str, usize, EJ<'s>>>(p: &P, s: &'s str) -> (bool, Option<usize>) {
        let r = p.parse_with_state(s, &mut Steps::with_budget(STEP_BUDGET));
        (r.has_errors(), r.into_output())
    }
    let mut v: Vec<(&'static str, Box<dyn Fn(&'s str) -> (bool, Option<usize>) + 's>)> = vec![];
    {
        let p = recursive(|t| tower_body(t));
        v.push(("recursive(): original", Box::new(move |s| run(&p, s))));
    }
    {
        let p = recursive(|t| tower_body(t));
        let q = p.clone();
        drop(p);
        v.push(("recursive(): clone used after the original was dropped", Box::new(move |s| run(&q, s))));
    }
    {
        let p = recursive(|t| tower_body(t));
        let q = p.clone().boxed();
        let q2 = q.clone();
        drop(p);
        drop(q);
        v.push(("recursive(): clone of boxed clone, originals dropped", Box::new(move |s| run(&q2, s))));
    }
    {
        let p = Rc::new(recursive(|t| tower_body(t)));
        let q = p.clone();
        v.push(("recursive(): through Rc, both handles alive", Box::new(move |s| {
            let a = run(&p, s);
            let b = run(&q, s);
            if a == b {
                a
            } else {
                (true, Some(usize::MAX))
            }
        })));
    }
    {
        let p = recursive(|t| tower_body(t.clone().boxed().or(t)));
        v.push(("recursive(): handle cloned and boxed inside the definition", Box::new(move |s| run(&p, s))));
    }
    {
        let mut r = Recursive::declare();
        r.define(tower_body(r.clone()));
        v.push(("declare/define: original", Box::new(move |s| run(&r, s))));
    }
    {
        let mut r = Recursive::declare();
        let early = r.clone();
        r.define(tower_body(r.clone()));
        drop(r);
        v.push(("declare/define: clone taken before define, declaring handle dropped", Box::new(move |s| run(&early, s))));
    }
    {
        let mut r = Recursive::declare();
        let early_boxed = r.clone().boxed();
        r.define(tower_body(early_boxed.clone()));
        let moved = r;
        v.push(("declare/define: boxed before define, handle moved", Box::new(move |s| {
            let a = run(&moved, s);
            let b = run(&early_boxed, s);
            if a == b {
                a
            } else {
                (true, Some(usize::MAX))
            }
        })));
    }
    {
        // mutual recursion: t = 'a' u 'b' | 'x'? ; u = t
        let mut t = Recursive::declare();
        let mut u = Recursive::declare();
        t.define(tower_body(u.clone()));
        u.define(t.clone().map(|d: usize| d));
        drop(t);
        v.push(("mutual declare/define: entered through the second definition, first handle dropped", Box::new(move |s| run(&u, s))));
    }
    {
        let mut t = Recursive::declare();
        let mut u = Recursive::declare();
        u.define(t.clone().boxed());
        t.define(tower_body(u.clone()).boxed());
        let tt = t.clone();
        drop(u);
        v.push(("mutual declare/define: defined in reverse order, boxed bodies", Box::new(move |s| run(&tt, s))));
    }
    {
        let p = recursive(|t| tower_body(t));
        let e: chumsky::prelude::Boxed<&str, usize, EJ> = p.boxed();
        let w = either::Either::<_, BJ>::Left(e);
        v.push(("recursive(): inside Either::Left", Box::new(move |s| run(&w, s))));
    }
    v
}

fn juggle_family<'s>(acc: &mut Acc, inputs: &'s [String]) {
    let ps = juggled::<'s>();
    for (name, f) in &ps {
        for s in inputs {
            acc.evaluations += 1;
            acc.count("handle_juggling_cases", 1);
            let want = tower_ref(s);
            let got = guarded(|| f(s.as_str()));
            let depth = want.unwrap_or(0);
            if depth >= 2 {
                acc.nontrivial_rand.insert(crate::rng::hash64(format!("juggle|{}|{}", name, s).as_bytes()));
            }
            let ok = match (&got, want) {
                (Ok((false, Some(d))), Some(w)) => *d == w,
                (Ok((true, None)), None) => true,
                _ => false,
            };
            if !ok {
                acc.viol(Viol { weight: 100 + s.len(), what: format!("C12: [{}] on {:?}: expected {:?} (depth of the balanced tower), parser gave {:?}", name, s, want, got), detail: json!({"grammar_text": format!("t = 'a' t 'b' | 'x'?  via {}", name), "input": s}) });
            }
        }
    }
}

// -----------------------------------------------------------------------------------------------
// (4) second definition

fn second_define(acc: &mut Acc) {
    use std::sync::Mutex;
    static LOC: Mutex<Option<String>> = Mutex::new(None);
    let prev = std::panic::take_hook();
    std::panic::set_hook(Box::new(|info| {
        *LOC.lock().unwrap() = Some(format!("{}", info.location().map(|l| format!("{}:{}", l.file(), l.line())).unwrap_or_default()));
    }));
    type E<'s> = extra::Err<Rich<'s, char>>;
    let mut outcomes = vec![];
    for variant in 0..3 {
        acc.evaluations += 1;
        acc.count("second_define_attempts", 1);
        let mut r: Recursive<chumsky::recursive::Indirect<&str, usize, E>> = Recursive::declare();
        r.define(just::<_, &str, E>('a').ignore_then(r.clone()).map(|d: usize| d + 1).or(just('x').to(0usize)));
        let line = line!() + 3;
        let res = std::panic::catch_unwind(std::panic::AssertUnwindSafe(|| match variant {
            0 => r.define(just('y').to(7usize)),
            1 => r.clone().define(just('y').to(7usize)),
            _ => r.define(r.clone()),
        }));
        let loc = LOC.lock().unwrap().take();
        let msg = match &res {
            Ok(()) => None,
            Err(p) => p.downcast_ref::<String>().cloned().or_else(|| p.downcast_ref::<&str>().map(|s| s.to_string())),
        };
        // (guarded: if the second definition was installed after all, `r := r` recurses until the stack-growth
        // guard runs out of memory and panics)
        let after = std::panic::catch_unwind(std::panic::AssertUnwindSafe(|| (r.parse("aax").into_output(), r.parse("y").has_output()))).unwrap_or((None, true));
        let _ = LOC.lock().unwrap().take();
        outcomes.push(json!({"variant": variant, "panicked": res.is_err(), "message": msg, "panic_location": loc, "after": format!("{:?}", after)}));
        let near = |l: &str| l.contains("c12.rs") && (line - 2..=line + 2).any(|n| l.ends_with(&format!(":{}", n)));
        let d = if res.is_ok() {
            Some("a second define() was accepted silently".to_string())
        } else if !msg.as_deref().map(|m| m.contains("c12.rs")).unwrap_or(false) {
            Some(format!("the panic message of the refused second define() does not name the definition site: {:?}", msg))
        } else if !msg.as_deref().map(near).unwrap_or(false) && !msg.as_deref().map(|m| (line - 2..=line + 2).any(|n| m.contains(&format!("c12.rs:{}:", n)))).unwrap_or(false) {
            Some(format!("the panic message names {:?}, not the second define() near line {}", msg, line))
        } else if after != (Some(2), false) {
            Some(format!("after the refused second define() the parser no longer behaves as its first definition: {:?}", after))
        } else {
            None
        };
        if let Some(d) = d {
            acc.viol(Viol { weight: 20, what: format!("C12: {}", d), detail: json!({"grammar_text": "Recursive::declare(); define(a); define(b)", "input": "aax / y", "variant": variant}) });
        } else {
            acc.count("second_define_refused_at_the_definition_site", 1);
        }
    }
    acc.samples.push(json!({"second_define": outcomes}));
    std::panic::set_hook(prev);
}

// -----------------------------------------------------------------------------------------------
// (3) depth, in a child process on a small stack

type ED<'s> = extra::Full<Rich<'s, char>, Steps, ()>;

fn depth_shapes<'s>() -> Vec<(&'static str, u8, Boxed<'s, 's, &'s str, usize, ED<'s>>)> {
    // (name, input family, parser -> depth)
    let mut v: Vec<(&'static str, u8, Boxed<&str, usize, ED>)> = vec![];
    v.push(("recursive(|t| '(' t ')' +1 | 'x'*)", 0, recursive(|t| just::<_, &str, ED>('(').ignore_then(t).then_ignore(just(')')).map(|d: usize| d + 1).or(just('x').repeated().count().map(|_| 0usize))).boxed()));
    {
        let mut t = Recursive::declare();
        t.define(just::<_, &str, ED>('(').ignore_then(t.clone()).then_ignore(just(')')).map(|d: usize| d + 1).or(just('x').repeated().count().map(|_| 0usize)));
        v.push(("declare/define: t = '(' t ')' | 'x'*", 0, t.boxed()));
    }
    {
        let mut t = Recursive::declare();
        let mut u = Recursive::declare();
        t.define(just::<_, &str, ED>('(').ignore_then(u.clone()).then_ignore(just(')')).map(|d: usize| d + 1).or(just('x').repeated().count().map(|_| 0usize)));
        u.define(t.clone().boxed().or_not().map(|o: Option<usize>| o.unwrap_or(0)));
        v.push(("mutual: t = '(' u ')' | 'x'* ; u = t.boxed()?", 0, t.boxed()));
    }
    v.push((
        "right-nested list: recursive(|l| 'x' (',' l)?)",
        1,
        recursive(|l| just::<_, &str, ED>('x').ignore_then(just(',').ignore_then(l).or_not()).map(|o: Option<usize>| o.map(|d| d + 1).unwrap_or(0))).boxed(),
    ));
    v.push((
        "pratt prefix chain: atom.pratt((prefix(1, '-', +1),))",
        2,
        just::<_, &str, ED>('x').to(0usize).pratt((prefix(1, just('-'), |_, d: usize, _| d + 1),)).boxed(),
    ));
    v.push((
        "pratt with parenthesised atom: recursive(|e| ('x' | '(' e ')').pratt((infix(left(1), '+'),)))",
        0,
        recursive(|e| {
            just::<_, &str, ED>('x')
                .to(0usize)
                .or(just('(').ignore_then(e).then_ignore(just(')')).map(|d: usize| d + 1))
                .pratt((infix(left(1), just('+'), |a: usize, _, b: usize, _| a.max(b)),))
                .or(just('x').repeated().count().map(|_| 0usize))
        })
        .boxed(),
    ));
    v.push((
        "pratt right-associative infix chain: atom.pratt((infix(right(1), '^', max+1),))",
        3,
        just::<_, &str, ED>('x').to(0usize).pratt((infix(right(1), just('^'), |_a: usize, _, b: usize, _| b + 1),)).boxed(),
    ));
    v.push((
        "pratt left-associative infix chain: atom.pratt((infix(left(1), '^', +1),))",
        3,
        just::<_, &str, ED>('x').to(0usize).pratt((infix(left(1), just('^'), |a: usize, _, _b: usize, _| a + 1),)).boxed(),
    ));
    v.push((
        "pratt postfix chain then mixed powers: atom.pratt((postfix(2, '!'), infix(right(1), '^'), prefix(3, '-')))",
        4,
        just::<_, &str, ED>('x')
            .to(0usize)
            .pratt((postfix(2, just('!'), |a: usize, _, _| a + 1), infix(right(1), just('^'), |_a: usize, _, b: usize, _| b + 1), prefix(3, just('-'), |_, a: usize, _| a + 1)))
            .boxed(),
    ));
    v.push((
        "recursion through memoized(): recursive(|t| ('(' t ')').memoized() | 'x'*)",
        0,
        recursive(|t| just::<_, &str, ED>('(').ignore_then(t).then_ignore(just(')')).map(|d: usize| d + 1).memoized().or(just('x').repeated().count().map(|_| 0usize))).boxed(),
    ));
    v
}

fn depth_input(family: u8, d: usize) -> String {
    match family {
        0 => "(".repeat(d) + &")".repeat(d),
        1 => "x,".repeat(d) + "x",
        3 => "x^".repeat(d) + "x",
        4 => "x".to_string() + &"!".repeat(d),
        _ => "-".repeat(d) + "x",
    }
}

/// `cvh child c12-depth <shape> <depth> <stack_kib>`
pub fn child_depth(args: &[String]) -> i32 {
    let shape: usize = args[0].parse().unwrap();
    let depth: usize = args[1].parse().unwrap();
    let stack_kib: usize = args[2].parse().unwrap();
    let h = std::thread::Builder::new()
        .stack_size(stack_kib << 10)
        .spawn(move || {
            let fam = depth_shapes()[shape].1;
            let input = depth_input(fam, depth);
            let shapes = depth_shapes();
            let (name, _fam, p) = &shapes[shape];
            let mut st = Steps::with_budget(0);
            let r = p.parse_with_state(input.as_str(), &mut st);
            let errs = r.errors().count();
            let out = r.output().copied();
            // check mode as well
            let rc = p.check_with_state(input.as_str(), &mut Steps::with_budget(0));
            println!("{}", json!({"shape": name, "depth": depth, "output": out, "errors": errs, "check_ok": !rc.has_errors(), "steps": st.steps.get(), "stack_kib": stack_kib}));
            (out == Some(depth) && errs == 0 && !rc.has_errors()) as i32
        })
        .unwrap();
    match h.join() {
        Ok(1) => 0,
        Ok(_) => 4,
        Err(_) => 6,
    }
}

fn depth_part(acc: &mut Acc, cx: &RunCtx) {
    let n_shapes = depth_shapes().len();
    let depths: Vec<usize> = if cx.thorough() { vec![100, 10_000, 100_000, 1_000_000] } else { vec![100, 10_000, 200_000] };
    let mut jobs = vec![];
    for s in 0..n_shapes {
        for d in &depths {
            jobs.push(vec!["c12-depth".to_string(), s.to_string(), d.to_string(), "512".to_string()]);
        }
    }
    // a *small* native stack: the guard has to move to heap segments from the very first levels on
    // (the unchanged tree parses these on 12 KiB, the smallest stack a thread can be given here; 24 KiB
    // leaves twice that for the frames before the first guarded call)
    for s in 0..n_shapes {
        for (d, kib) in [(60usize, "24"), (300, "24"), (10_000, "24"), (10_000, "64")] {
            jobs.push(vec!["c12-depth".to_string(), s.to_string(), d.to_string(), kib.to_string()]);
        }
    }
    // one deepest run of the first shape at a million levels in both tiers (the property's own figure)
    if !cx.thorough() {
        jobs.push(vec!["c12-depth".to_string(), "0".to_string(), "1000000".to_string(), "512".to_string()]);
    }
    let outs = run_children(&jobs, cx.threads.min(8), Duration::from_secs(cx.t(1200, 7200)), 24 << 20);
    for (job, c) in jobs.iter().zip(outs) {
        acc.evaluations += 1;
        acc.count("depth_runs", 1);
        let d: u64 = job[2].parse().unwrap();
        let line = c.stdout.lines().last().and_then(|l| serde_json::from_str::<Value>(l).ok());
        if c.timed_out {
            acc.inconclusive += 1;
            eprintln!("C12: depth run {:?} killed by the wall-clock watchdog (inconclusive): {}", job, c.describe());
            continue;
        }
        match (c.code, &line) {
            (Some(0), Some(l)) => {
                acc.count(if job[3] != "512" { "depth_runs_survived_on_a_24_or_64KiB_stack" } else { "depth_runs_survived_on_a_512KiB_stack" }, 1);
                acc.maxc("max_depth_survived", d);
                acc.maxc("max_child_peak_rss_mib", c.peak_rss_kb / 1024);
                acc.nontrivial_enum += 1;
                if d >= 100_000 && acc.samples.len() < 5 {
                    acc.samples.push(l.clone());
                }
            }
            (Some(4), Some(l)) => {
                acc.viol(Viol { weight: 60, what: format!("C12: nesting depth {}: the parser returned, but not the tower's depth without errors: {}", d, l), detail: json!({"grammar_text": l["shape"], "input": format!("tower of depth {}", d), "result": l}) });
            }
            _ => {
                // exhausting the address-space limit is "limited by memory", which the statement allows; a signal is not
                let oom = c.stderr_tail.contains("memory allocation of") || c.stderr_tail.contains("out of memory");
                if oom && c.signal != Some(11) {
                    acc.inconclusive += 1;
                    eprintln!("C12: depth run {:?} ran out of memory under the address-space limit (inconclusive): {}", job, c.describe());
                } else {
                    let name = depth_shapes().get(job[1].parse::<usize>().unwrap()).map(|s| s.0).unwrap_or("?");
                    acc.viol(Viol { weight: 60, what: format!("C12: parsing a tower nested {} levels deep with [{}] on a {} KiB thread stack killed the process: {}", d, name, job[3], c.describe()), detail: json!({"grammar_text": name, "input": format!("tower of depth {}", d), "child": c.describe()}) });
                }
            }
        }
    }
}

// -----------------------------------------------------------------------------------------------

fn gen_grammars(size: usize, unroll_depth: usize) -> Vec<(G, Option<G>)> {
    let mut out = vec![];
    let b = body_basis(&[1]);
    for body in b.up_to(size) {
        let nrefs = refs_in(&body, 1);
        if nrefs == 0 || !body.well_formed() {
            continue;
        }
        for declare in [false, true] {
            let g = rec(1, declare, body.clone()).numbered();
            // explicit unrolling, deep enough for every input of the exhaustive part (each level consumes >= 1 token)
            let un = if nrefs <= 2 && body.size() <= 7 { Some(unroll(&body, 1, unroll_depth)) } else { None };
            out.push((g, un));
        }
    }
    out
}

pub fn random_grammar(rng: &mut Rng) -> G {
    // one or two definitions; the second is nested in the first and may refer to both (mutual recursion)
    let two = rng.chance(1, 2);
    if !two {
        let b = body_basis(&[1]);
        loop {
            let sz = rng.range(3, 10);
            let body = b.random(rng, sz);
            if refs_in(&body, 1) > 0 && body.well_formed() {
                return rec(1, rng.chance(1, 2), body).numbered();
            }
        }
    }
    let b2 = body_basis(&[1, 2]);
    loop {
        let sz = rng.range(3, 8);
        let inner_body = b2.random(rng, sz);
        if refs_in(&inner_body, 1) == 0 || !inner_body.well_formed() {
            continue;
        }
        let inner = rec(2, rng.chance(1, 2), inner_body);
        // outer body: a guarded use of the inner definition, possibly next to a direct self-reference
        let outer_body = match rng.below(3) {
            0 => G::bin(Op::Or, G::bin(Op::Then, G::just('b'), inner), G::leaf(Op::Empty)),
            1 => G::bin(Op::Then, G::set(Op::OneOf, "ab"), G::un(Op::OrNot, inner)),
            _ => G::bin(Op::Or, G::bin(Op::Then, G::just('a'), G::bin(Op::Then, inner, G::un(Op::OrNot, G::bin(Op::Then, G::just('é'), rf(1))))), G::just('b')),
        };
        let g = rec(1, rng.chance(1, 2), outer_body).numbered();
        if g.well_formed() {
            return g;
        }
    }
}

pub fn run(cx: &RunCtx) -> i32 {
    let mut acc = Acc::default();
    second_define(&mut acc);

    let alpha: Vec<char> = vec!['a', 'b', 'é'];
    let max_len = cx.t(5, 6);
    let bufs: Vec<Buf> = all_inputs(&alpha, max_len).iter().map(|w| Buf::new(w)).collect();
    let size = cx.t(3, 4);
    let gs = gen_grammars(size, max_len + 1);
    let n_enum = gs.len();
    let sp = spec();
    let eacc = for_each_index(gs.len(), cx.threads, 4, |acc, gi| {
        let (g, un) = &gs[gi];
        one_grammar(acc, &sp, g, &bufs, true, un.as_ref());
    });
    acc.merge(eacc);
    acc.count("enumerated_recursive_grammars", n_enum as u64);

    // towers: depth 0..64 against the model for the tower-shaped bodies
    let tower_bodies = vec![
        G::bin(Op::Or, G::new(Op::Delim, vec![rf(1), G::just('a'), G::just('b')]), G::un(Op::OrNot, G::just('é'))),
        G::bin(Op::Or, G::bin(Op::Then, G::just('a'), G::bin(Op::Then, rf(1), G::just('b'))), G::leaf(Op::Empty)),
        G::un(Op::OrNot, G::bin(Op::Then, G::just('a'), rf(1))),
    ];
    let tower_bufs: Vec<Buf> = (0..=64usize)
        .flat_map(|d| {
            let a: Vec<char> = std::iter::repeat('a').take(d).chain(std::iter::repeat('b').take(d)).collect();
            let b: Vec<char> = std::iter::repeat('a').take(d).chain(['é']).chain(std::iter::repeat('b').take(d.saturating_sub(1))).collect();
            let c: Vec<char> = std::iter::repeat('a').take(d).collect();
            vec![Buf::new(&a), Buf::new(&b), Buf::new(&c)]
        })
        .collect();
    let mut tacc = Acc::default();
    for body in &tower_bodies {
        for declare in [false, true] {
            let g = rec(1, declare, body.clone()).numbered();
            one_grammar(&mut tacc, &sp, &g, &tower_bufs, true, None);
        }
    }
    acc.merge(tacc);

    let n_rand = cx.t(20_000, 400_000);
    let seed = cx.seed;
    let racc = for_each_index(n_rand, cx.threads, 16, |acc, i| {
        let mut rng = Rng::derive(seed, 0xC12, i as u64);
        let g = random_grammar(&mut rng);
        let bufs: Vec<Buf> = (0..8).map(|_| Buf::new(&random_input(&mut rng, &['a', 'b', 'é', 'a', 'b', 'c'], 14))).collect();
        one_grammar(acc, &sp, &g, &bufs, false, None);
        if g.count_op(&|o| o == Op::Rec) >= 2 {
            acc.count("random_mutually_recursive_grammars", 1);
        }
    });
    acc.merge(racc);
    acc.count("random_recursive_grammars", n_rand as u64);

    // (2)
    let j_inputs: Vec<String> = all_inputs(&['a', 'b', 'x'], cx.t(6, 8)).iter().map(|w| w.iter().collect::<String>()).chain((0..40).map(|d| "a".repeat(d) + "x" + &"b".repeat(d))).collect();
    let mut jacc = Acc::default();
    juggle_family(&mut jacc, &j_inputs);
    acc.merge(jacc);

    // (3)
    depth_part(&mut acc, cx);

    // (5)
    crate::san::miri_job(&mut acc, cx, "C12", "c12", cx.t(12, 40), cx.t(2, 6));

    finish(
        cx,
        acc,
        Finish {
            rule: format!("(1) every guarded recursive definition whose body has <= {size} nodes over a class with 5 guarded reference shapes (prefix, skip-any, delimited, optional, inside a bounded repetition), built with recursive() and with declare/define, x every input <= {max_len} over {{a,b,é}}: acceptance, output with the extent of every node at every recursion level, emitted errors, primary error, probe trace and inspector state against the reference model (whose reference rule is the unrolling), in parse and check mode; for bodies with <= 2 references also real-vs-real against the explicit (max input length + 1)-fold unrolling; 3 tower grammars x depths 0..64; {n_rand} random definitions incl. two mutually recursive ones x 8 inputs <= 14. (2) 11 ways of juggling handles (clone / boxed / Rc / Either / moved / dropped before use, declare-define in both orders, mutual) x all inputs <= {} over {{a,b,x}} and towers to depth 40 against a hand-written depth counter. (3) 10 nesting shapes (recursive, declare/define, mutual through boxed, right-nested list, Pratt prefix chain, right- and left-associative infix chains, postfix chain, Pratt with recursive parenthesised atom, through memoized) x depths up to 10^6 in child processes on a thread with a 512 KiB stack, and depths 60 / 300 / 10^4 on threads with a 24 KiB and a 64 KiB stack (the guard has to carry the recursion from its first levels on): must exit normally with the tower's depth. (4) a second define() (3 variants) must panic, the message naming the harness' call site, and the parser must keep its first definition. (5) a small-depth slice under Miri. Non-trivial: reference evaluation reached recursion depth >= 2 / tower of depth >= 2 / depth run survived", cx.t(6, 8)),
            exhaustive: false,
            exhaustive_note: format!("bodies <= {size} nodes x inputs <= {max_len}: complete"),
            assumptions: vec![
                "'limited by memory': shown up to 10^6 levels on a 512 KiB thread stack and up to 10^4 levels on 24 KiB / 64 KiB thread stacks under a 24 GiB address-space limit; running out of that memory is inconclusive, dying by a signal is a violation".into(),
                "Miri runs without the stacker feature (psm is FFI), so the stack-growth guard itself is exercised natively only".into(),
            ],
            require: vec![
                ("cases_with_recursion_depth_ge_3".into(), 10_000),
                ("unrolling_differentials".into(), 10_000),
                ("handle_juggling_cases".into(), 1000),
                ("depth_runs_survived_on_a_512KiB_stack".into(), 10),
                ("depth_runs_survived_on_a_24_or_64KiB_stack".into(), 10),
                ("max_depth_survived".into(), 1_000_000),
                ("second_define_refused_at_the_definition_site".into(), 3),
                ("random_mutually_recursive_grammars".into(), 1000),
            ],
            min_evaluations: 100_000,
        },
    )
}

/// Small-depth slice for Miri (no stacker): the `Rc::new_cyclic` / once-cell code and handle juggling.
pub fn san_job(size: usize, seed: u64, shard: usize) -> Value {
    let mut acc = Acc::default();
    let mut rng = Rng::derive(seed, 0x5A12, shard as u64);
    let inputs: Vec<String> = vec!["".into(), "x".into(), "ab".into(), "aaxbb".into(), "aab".into(), "aaabbb".into()];
    juggle_family(&mut acc, &inputs[..(2 + size.min(4))]);
    let sp = spec();
    for _ in 0..size {
        let g = random_grammar(&mut rng);
        // declare/define cycles leak by design; the job runs with leak checking off
        let bufs: Vec<Buf> = (0..2).map(|_| Buf::new(&random_input(&mut rng, &['a', 'b', 'é'], 6))).collect();
        one_grammar(&mut acc, &sp, &g, &bufs, false, None);
    }
    acc.to_json()
}
