//! C02 — repetition / separators: bounds, greediness, possessiveness, leading/trailing rules, and
//! what collect / collect_exactly / count / enumerate / foldl / foldr see.  Reference-model monitor;
//! the unconsumed remainder is captured by a following `any().repeated().to_slice()`.

use crate::classes;
use crate::drv::*;
use crate::ev::*;
use crate::gram::*;
use crate::mk::*;
use crate::par::for_each_index;
use crate::rng::{hash64, Rng};
use chumsky::error::Rich;
use serde_json::json;

fn rest() -> G {
    G::un(Op::ToSlice, G::rep(G::leaf(Op::Any), 0, None, Flav::Unit))
}

fn with_rest(r: G) -> G {
    G::bin(Op::Then, r, rest()).numbered()
}

/// Non-nullable item/separator grammars of the C01 class with <= `n` nodes.
fn items(n: usize) -> Vec<G> {
    classes::k01(true).up_to(n).into_iter().filter(|g| !g.nullable()).collect()
}

fn bounds(max: u8, cfg: bool, sep: bool) -> Vec<(u8, Option<u8>, Via)> {
    let mut v = vec![];
    for lo in 0..=max {
        v.push((lo, None, Via::Static));
        if cfg && !sep {
            v.push((lo, None, Via::Configure));
            v.push((lo, None, Via::MixedLo));
            v.push((lo, None, Via::ConfigureNoop));
        }
        for hi in lo..=max {
            v.push((lo, Some(hi), Via::Static));
            if cfg && !sep {
                v.push((lo, Some(hi), Via::Configure));
                v.push((lo, Some(hi), Via::MixedLo));
                v.push((lo, Some(hi), Via::MixedHi));
                v.push((lo, Some(hi), Via::ConfigureNoop));
                if hi >= 1 {
                    v.push((lo, Some(hi), Via::Override));
                }
            }
            if lo == hi {
                v.push((lo, Some(hi), Via::Exactly));
                if cfg && !sep {
                    v.push((lo, Some(hi), Via::ConfigureExactly));
                    v.push((lo, Some(hi), Via::OverrideExactly));
                }
            }
        }
    }
    v
}

fn one<'s, I: Kind<'s>>(acc: &mut Acc, g: &G, p: &BP<'s, I, Rich<'s, char, I::Span>>, buf: &'s Buf, enumerated: bool)
where
    I::Span: Clone + 's,
{
    let m = model_of(g, &buf.chars, true);
    acc.evaluations += 1;
    if m.pathological {
        acc.pathological += 1;
        return;
    }
    let r = guarded(|| run_parse(p, buf, 0, STEP_BUDGET));
    let r = match settle(acc, "C02", g, &buf.chars, I::NAME, &m, r) {
        Some(r) => r,
        None => return,
    };
    // non-trivial: the repetition took at least one item and left a non-empty remainder, or failed on bounds
    let took = m.stats.max_depth > 0 && m.prefix_end.is_some();
    let nontrivial = took && buf.n() >= 2;
    if nontrivial {
        if enumerated {
            acc.nontrivial_enum += 1;
        } else {
            acc.nontrivial_rand.insert(hash64(format!("{}|{}", g.show(), buf.text).as_bytes()));
        }
    }
    acc.count("accepted", m.out.is_some() as u64);
    acc.count("rejected_by_bounds_or_items", m.out.is_none() as u64);
    acc.count("item_attempts_abandoned", m.stats.backtracks);
    let amb = m.stats.ambiguous_a1 || m.stats.ambiguous_a2;
    acc.count("ambiguous_A1", m.stats.ambiguous_a1 as u64);
    acc.count("ambiguous_A2", m.stats.ambiguous_a2 as u64);
    if let Some(d) = judge::<I>(buf, &m, &r, What { value: true, state: true, ..Default::default() }) {
        if amb {
            acc.ambiguous += 1;
        } else {
            acc.viol(Viol::case(format!("C02: {}", d), g, &buf.chars, json!({"kind": I::NAME})));
        }
    }
    if nontrivial && m.out.is_some() && acc.samples.len() < 2 && acc.evaluations % 131 == 0 {
        acc.samples.push(json!({"grammar": g.show(), "input": buf.text, "kind": I::NAME, "output": r.out.as_ref().map(|v| v.strip().show())}));
    }
}

pub fn grammars(cx: &RunCtx) -> Vec<G> {
    let max = 4u8;
    let leaf_items = items(1);
    let items2 = items(2);
    let mut out: Vec<G> = vec![];
    // repeated(): every bound combination x flavour x static/configure x item
    for it in &items2 {
        for &(lo, hi, via) in &bounds(max, true, false) {
            for &flav in ALL_FLAVS {
                let g = G::un(Op::Rep, it.clone()).with(|p| {
                    p.lo = lo;
                    p.hi = hi;
                    p.via = via;
                    p.flav = flav;
                });
                out.push(with_rest(g));
            }
        }
    }
    // separated_by(): bounds x lead x trail x flavour x (item, separator)
    let sep_items: Vec<(G, G)> = {
        let mut v = vec![];
        for a in &leaf_items {
            for b in &leaf_items {
                v.push((a.clone(), b.clone()));
            }
        }
        // richer items / separators on a stride
        let stride = cx.t(9, 3);
        for (i, a) in items2.iter().enumerate() {
            for (j, b) in items2.iter().enumerate() {
                if (i * 31 + j) % (stride * 17) == 0 && a.size() + b.size() > 2 {
                    v.push((a.clone(), b.clone()));
                }
            }
        }
        v
    };
    for (it, sp) in &sep_items {
        for &(lo, hi, via) in &bounds(max, false, true) {
            for lead in [false, true] {
                for trail in [false, true] {
                    for &flav in ALL_FLAVS {
                        let g = G::bin(Op::Sep, it.clone(), sp.clone()).with(|p| {
                            p.lo = lo;
                            p.hi = hi;
                            p.via = via;
                            p.flav = flav;
                            p.lead = lead;
                            p.trail = trail;
                        });
                        out.push(with_rest(g));
                    }
                }
            }
        }
    }
    // folds over repetitions and separated lists, all bounds
    for it in &leaf_items {
        for &(lo, hi, via) in &bounds(max, true, false) {
            for with in [false, true] {
                let rep = G::un(Op::Rep, it.clone()).with(|p| {
                    p.lo = lo;
                    p.hi = hi;
                    p.via = via;
                    p.flav = Flav::Unit;
                });
                let fl = G::bin(Op::Foldl, G::leaf(Op::Any), rep.clone()).with(|p| p.ok = with);
                let fr = G::bin(Op::Foldr, rep, G::leaf(Op::Any)).with(|p| p.ok = with);
                out.push(with_rest(fl));
                out.push(with_rest(fr));
            }
        }
        for sp in &leaf_items {
            for &(lo, hi, via) in &bounds(2, false, true) {
                for (lead, trail) in [(false, false), (true, false), (false, true), (true, true)] {
                    for with in [false, true] {
                        let sep = G::bin(Op::Sep, it.clone(), sp.clone()).with(|p| {
                            p.lo = lo;
                            p.hi = hi;
                            p.via = via;
                            p.flav = Flav::Unit;
                            p.lead = lead;
                            p.trail = trail;
                        });
                        let fl = G::bin(Op::Foldl, G::leaf(Op::Empty), sep.clone()).with(|p| p.ok = with);
                        let fr = G::bin(Op::Foldr, sep, G::leaf(Op::Empty)).with(|p| p.ok = with);
                        out.push(with_rest(fl));
                        out.push(with_rest(fr));
                    }
                }
            }
        }
    }
    out.into_iter().filter(|g| g.well_formed()).collect()
}

pub fn run(cx: &RunCtx) -> i32 {
    let alpha: Vec<char> = vec!['a', 'b', 'é'];
    let max_len = cx.t(5, 7);
    let inputs = all_inputs(&alpha, max_len);
    let bufs: Vec<Buf> = inputs.iter().map(|w| Buf::new(w)).collect();
    let grammars = grammars(cx);
    let n_enum = grammars.len();
    let mut acc = for_each_index(grammars.len(), cx.threads, 16, |acc, gi| {
        let g = &grammars[gi];
        let p = build::<&str, Rich<char>>(g, Opts::default());
        for buf in &bufs {
            one::<&str>(acc, g, &p, buf, true);
        }
        if gi % 8 == 0 {
            let ps = build::<&[char], Rich<char>>(g, Opts::default());
            for buf in bufs.iter().step_by(5) {
                one::<&[char]>(acc, g, &ps, buf, true);
            }
        }
        // the same repetition driven through an explicit .clone() of the iterable parser (bounds and flags
        // are plain fields that a hand-written Clone impl has to carry over)
        let pc = build::<&str, Rich<char>>(g, Opts { clone_iter: true, ..Opts::default() });
        for buf in bufs.iter().skip(gi % 2).step_by(2) {
            one::<&str>(acc, g, &pc, buf, true);
            acc.count("cases_through_a_cloned_iterable", 1);
        }
    });
    acc.count("enumerated_grammars", n_enum as u64);
    acc.count("enumerated_inputs", bufs.len() as u64);

    // random long inputs (unbounded fast path, multi-byte text) on a random subset of the grammars
    let n_rand = cx.t(20_000, 300_000);
    let seed = cx.seed;
    let gref = &grammars;
    let racc = for_each_index(n_rand, cx.threads, 64, |acc, i| {
        let mut rng = Rng::derive(seed, 0xC02, i as u64);
        let g = &gref[rng.below(gref.len())];
        let alpha: &[char] = if rng.chance(1, 2) { &['a', 'b'] } else { &SIGMA_PLUS };
        let bufs: Vec<Buf> = (0..3).map(|_| Buf::new(&random_input(&mut rng, alpha, 200))).collect();
        let p = build::<&str, Rich<char>>(g, Opts::default());
        for buf in &bufs {
            one::<&str>(acc, g, &p, buf, false);
        }
    });
    acc.merge(racc);
    acc.count("random_long_cases", 3 * n_rand as u64);

    finish(
        cx,
        acc,
        Finish {
            rule: format!(
                "REP.then(any().repeated().to_slice()) for REP in: item.repeated() with every (at_least, at_most|unbounded|exactly) in 0..4, bounds given statically and through configure(), x 8 flavours (unit, Vec, String, usize, count(), enumerate, [_;2], [_;3]) x every non-nullable C01-class item of <= 2 nodes; item.separated_by(sep) with the same bounds x allow_leading x allow_trailing x 8 flavours x leaf items/separators (+ a stride of 2-node ones); foldl/foldr/foldl_with/foldr_with over both; x every input of length <= {max_len} over {{a,b,é}} (every second input once more with the iterable parser driven through an explicit .clone() of itself); plus {n_rand} random grammar picks x 3 random inputs of up to 200 tokens; non-trivial = the repetition matched a prefix of an input of >= 2 tokens (items taken and a remainder or bound decision to observe); enumerated cases distinct by construction"
            ),
            exhaustive: false,
            exhaustive_note: format!("the listed grammar family x all inputs <= {max_len} tokens over 3 letters: complete"),
            assumptions: vec![
                "oracle = reference PEG interpreter (greedy, possessive, bounds, separator rules)".into(),
                "A1 (separator following the at_most-th item under allow_trailing) and A2 (lone leading separator) are lenient: such cases are compared, a mismatch there is counted as ambiguous, not as a violation".into(),
                "fold functions are non-commutative and non-associative pair constructors, so order and direction are visible".into(),
            ],
            require: vec![("accepted".into(), 1000), ("item_attempts_abandoned".into(), 1000), ("cases_through_a_cloned_iterable".into(), 10_000)],
            min_evaluations: 100_000,
        },
    )
}
