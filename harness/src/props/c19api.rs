//! C19 (2c) — API family: statically typed parsers built from the public combinators that sit
//! outside the grammar AST (every `Container` / `ContainerExactly` implementation, Pratt folds whose
//! operators and operands are tracked values, context providers that clone their value, `to()`,
//! `into_iter()`, `unwrapped()`, `nested_in`, the skip-based recovery strategies with value-building
//! fallbacks, `foldr`, lookahead over value-producing parsers, `lazy()`), every output value being a
//! drop-tracked `Tracked` instance.  Oracle = the ledger: while the `ParseResult` is alive exactly the
//! instances held by the output are alive; after dropping it the live count is back to its previous
//! value; no instance is dropped twice.

use crate::mk::guarded;
use crate::ev::*;
use crate::track::{self, Tracked};
use chumsky::error::Rich;
use chumsky::pratt::{infix, left, postfix, prefix, right};
use chumsky::prelude::*;
use serde_json::json;
use std::collections::{BTreeMap, HashMap, HashSet, LinkedList, VecDeque};

type EZ<'s> = extra::Err<Rich<'s, char>>;
type EC<'s> = extra::Full<Rich<'s, char>, (), Tracked>;
/// output: (number of tracked instances the output holds, the output itself kept alive behind `Any`)
pub type Out = (usize, Box<dyn std::any::Any>);

fn keep<T: 'static>(n: usize, t: T) -> Out {
    (n, Box::new(t))
}
fn tv(n: u32) -> Tracked {
    Tracked::new(n)
}

pub const ALPHABET: [char; 6] = ['a', 'b', 'x', '-', '+', ';'];

pub fn parsers<'s>() -> Vec<(&'static str, Boxed<'s, 's, &'s str, Out, EZ<'s>>)> {
    let z = || any::<&str, EZ>().map(|_| tv(0));
    let za = || just::<_, &str, EZ>('a').map(|_| tv(1));
    let rest = || any::<&str, EZ>().repeated();
    let mut v: Vec<(&'static str, Boxed<'s, 's, &'s str, Out, EZ<'s>>)> = vec![];
    // ---- ContainerExactly / Container implementations
    v.push(("any().map(T).repeated().collect_exactly::<Box<[T;3]>>().or(just('a').map(T).repeated().collect::<Vec<_>>())", z().repeated().collect_exactly::<Box<[Tracked; 3]>>().map(|b| keep(3, b)).or(za().repeated().collect::<Vec<_>>().map(|v| keep(v.len(), v))).then_ignore(rest()).boxed()));
    v.push(("just('a').map(T).separated_by(just('b')).allow_trailing().collect_exactly::<Box<[T;2]>>().or_not().then(rest)", za().separated_by(just('b')).allow_trailing().collect_exactly::<Box<[Tracked; 2]>>().or_not().then_ignore(rest()).map(|o| keep(o.as_ref().map(|_| 2).unwrap_or(0), o)).boxed()));
    v.push(("collect_exactly::<Box<[Box<[T;2]>;2]>> (nested boxes, inner partial failure)", za().or(just('b').map(|_| tv(2))).repeated().collect_exactly::<Box<[Tracked; 2]>>().repeated().collect_exactly::<Box<[Box<[Tracked; 2]>; 2]>>().map(|b| keep(4, b)).or(z().repeated().at_most(1).collect::<Vec<_>>().map(|v| keep(v.len(), v))).then_ignore(rest()).boxed()));
    // the iterable asks for more items than the array holds: the collection is full before the iterable is satisfied
    v.push(("just('a').map(T).repeated().at_least(4).collect_exactly::<[T;3]>().or_not().then(rest)", za().repeated().at_least(4).collect_exactly::<[Tracked; 3]>().or_not().then_ignore(rest()).map(|o| keep(o.as_ref().map(|_| 3).unwrap_or(0), o)).boxed()));
    v.push(("any().map(T).repeated().exactly(3).collect_exactly::<Box<[T;2]>>().or(any().map(T).repeated().collect::<Vec<_>>())", z().repeated().exactly(3).collect_exactly::<Box<[Tracked; 2]>>().map(|b| keep(2, b)).or(z().repeated().collect::<Vec<_>>().map(|v| keep(v.len(), v))).then_ignore(rest()).boxed()));
    v.push(("just('a').map(T).separated_by(just('b')).at_least(3).collect_exactly::<[T;2]>().then(rest) else Vec", za().separated_by(just('b')).at_least(3).collect_exactly::<[Tracked; 2]>().map(|a| keep(2, a)).or(z().repeated().at_most(2).collect::<Vec<_>>().map(|v| keep(v.len(), v))).then_ignore(rest()).boxed()));
    v.push(("collect::<LinkedList<T>>() after at_least(2), else collect::<VecDeque<T>>()", za().repeated().at_least(2).collect::<LinkedList<Tracked>>().map(|l| keep(l.len(), l)).or(z().repeated().at_most(3).collect::<VecDeque<Tracked>>().map(|l| keep(l.len(), l))).then_ignore(rest()).boxed()));
    v.push(("collect::<BTreeMap<char,T>>() (duplicate keys replace values)", any::<&str, EZ>().map(|c| (c, tv(3))).repeated().collect::<BTreeMap<char, Tracked>>().map(|m| keep(m.len(), m)).boxed()));
    v.push(("collect::<HashMap<char,T>>() then just(';') else collect::<HashSet<T>>()", none_of::<_, &str, EZ>(';').map(|c| (c, tv(3))).repeated().collect::<HashMap<char, Tracked>>().then_ignore(just(';')).map(|m| keep(m.len(), m)).or(z().repeated().collect::<HashSet<Tracked>>().map(|s| keep(s.len(), s))).boxed()));
    v.push(("collect::<Box<Vec<T>>>() / Cell<Vec<T>> / RefCell<Vec<T>> in a choice", za().repeated().at_least(1).collect::<Box<Vec<Tracked>>>().then_ignore(end()).map(|b| keep(b.len(), b)).or(za().repeated().collect::<std::cell::RefCell<Vec<Tracked>>>().then_ignore(just('b')).then_ignore(end()).map(|c| { let n = c.borrow().len(); keep(n, c) })).or(z().repeated().collect::<std::cell::Cell<Vec<Tracked>>>().map(|c| { let v = c.into_inner(); keep(v.len(), v) })).boxed()));
    v.push(("collect::<()>(), count() and a unit repetition over value-producing items", z().repeated().at_most(2).collect::<()>().then(za().repeated().count()).then(z().repeated()).map(|_| keep(0, ())).boxed()));
    v.push(("enumerate().collect::<Vec<(usize,T)>>() with bounds", za().repeated().at_least(1).at_most(3).enumerate().collect::<Vec<(usize, Tracked)>>().then_ignore(just(';').or_not()).then_ignore(end()).map(|v| keep(v.len(), v)).or(rest().map(|_| keep(0, ()))).boxed()));
    // ---- Pratt: operands and operator values are tracked
    v.push(("pratt: tracked operands, prefix '-', left '+', postfix ';'", just::<_, &str, EZ>('x').map(|_| tv(4)).pratt((prefix(3, just('-'), |_, r: Tracked, _| { drop(r); tv(5) }), infix(left(1), just('+'), |l: Tracked, _, r: Tracked, _| { drop((l, r)); tv(6) }), postfix(4, just(';'), |l: Tracked, _, _| { drop(l); tv(7) }))).then_ignore(rest()).map(|t| keep(1, t)).or(rest().map(|_| keep(0, ()))).boxed()));
    v.push(("pratt: tracked operator values (operator matched, operand missing)", just::<_, &str, EZ>('x').map(|_| vec![tv(4)]).pratt((prefix(2, just('-').map(|_| tv(5)), |op: Tracked, mut r: Vec<Tracked>, _| { r.push(op); r }), infix(right(1), just('+').map(|_| tv(6)), |mut l: Vec<Tracked>, op: Tracked, r: Vec<Tracked>, _| { l.push(op); l.extend(r); l }), infix(left(1), just('a').map(|_| tv(6)), |mut l: Vec<Tracked>, op: Tracked, r: Vec<Tracked>, _| { l.push(op); l.extend(r); l }), postfix(1, just(';').map(|_| tv(7)), |mut l: Vec<Tracked>, op: Tracked, _| { l.push(op); l }))).then_ignore(rest()).map(|t| keep(t.len(), t)).or(rest().map(|_| keep(0, ()))).boxed()));
    // ---- context providers (the context value is a tracked value, cloned per reader)
    v.push(("any().map(T).then_with_ctx(just('b').map_with(ctx clone).repeated().collect())", z().then_with_ctx(just::<_, &str, EC>('b').map_with(|_, e| e.ctx().clone()).repeated().collect::<Vec<Tracked>>()).then_ignore(rest()).map(|(a, v)| keep(1 + v.len(), (a, v))).or(rest().map(|_| keep(0, ()))).boxed()));
    v.push(("just('a').map(T).ignore_with_ctx(any().map_with(ctx clone)).or_not()", za().ignore_with_ctx(any::<&str, EC>().map_with(|_, e| e.ctx().clone())).or_not().then_ignore(rest()).map(|o| keep(o.is_some() as usize, o)).boxed()));
    v.push(("with_ctx(T) around a reader inside a repetition", just::<_, &str, EC>('a').map_with(|_, e| e.ctx().clone()).repeated().collect::<Vec<Tracked>>().with_ctx(tv(8)).then_ignore(rest()).map(|v| keep(v.len(), v)).boxed()));
    // ---- value-cloning and adaptor combinators
    v.push(("just('a').to(T).repeated().collect().then(any().to(T).or_not())", just::<_, &str, EZ>('a').to(tv(9)).repeated().collect::<Vec<Tracked>>().then(any().to(tv(9)).or_not()).then_ignore(rest()).map(|(v, o)| keep(v.len() + o.is_some() as usize, (v, o))).boxed()));
    v.push(("collect::<Vec<T>>().into_iter().collect_exactly::<[T;2]>() (left-over items stay in the iterator)", z().repeated().at_most(3).collect::<Vec<Tracked>>().into_iter().collect_exactly::<[Tracked; 2]>().then_ignore(rest()).map(|a| keep(2, a)).or(rest().map(|_| keep(0, ()))).boxed()));
    v.push(("collect::<Vec<T>>().into_iter().collect::<LinkedList<T>>() in check position", z().repeated().collect::<Vec<Tracked>>().into_iter().collect::<LinkedList<Tracked>>().map(|l| keep(l.len(), l)).boxed()));
    v.push(("any().map(|c| Ok(T)).unwrapped().repeated().collect()", none_of::<_, &str, EZ>(';').map(|_| Ok::<Tracked, ()>(tv(10))).unwrapped().repeated().collect::<Vec<Tracked>>().then_ignore(rest()).map(|v| keep(v.len(), v)).boxed()));
    v.push(("try_map that consumes the value and rejects, validate that passes it on", z().try_map(|t, s| { drop(t); Err::<Tracked, _>(Rich::custom(s, "no")) }).or(z().validate(|t, e, em| { em.emit(Rich::custom(e.span(), "v")); t })).repeated().collect::<Vec<Tracked>>().map(|v| keep(v.len(), v)).boxed()));
    // ---- lookahead over value-producing parsers
    v.push(("any().map(T).and_is(just('a').map(T).not()).repeated().collect().then(any().map(T).rewind().or_not())", z().and_is(za().not()).repeated().collect::<Vec<Tracked>>().then(z().rewind().or_not()).then_ignore(rest()).map(|(v, o)| keep(v.len() + o.is_some() as usize, (v, o))).boxed()));
    v.push(("just('a').map(T).and_is(any().map(T).then(just('b').map(T)))", za().and_is(z().then(just('b').map(|_| tv(2)))).then_ignore(rest()).map(|t| keep(1, t)).or(rest().map(|_| keep(0, ()))).boxed()));
    // ---- folds
    v.push(("just('-').map(T).repeated().foldr(just('x').map(T), ..)", just::<_, &str, EZ>('-').map(|_| tv(5)).repeated().foldr(just('x').map(|_| tv(4)), |op, acc| { drop((op, acc)); tv(6) }).then_ignore(rest()).map(|t| keep(1, t)).or(rest().map(|_| keep(0, ()))).boxed()));
    v.push(("just('x').map(T).foldl_with(just('+').map(T).then(just('x').map(T)).repeated(), ..)", just::<_, &str, EZ>('x').map(|_| tv(4)).foldl_with(just('+').map(|_| tv(6)).then(just('x').map(|_| tv(4))).repeated(), |a, (op, b), _| { drop((a, op)); b }).then_ignore(rest()).map(|t| keep(1, t)).or(rest().map(|_| keep(0, ()))).boxed()));
    // ---- recovery with value-building fallbacks
    v.push(("recover_with(skip_until(any(), just(';'), || T)) around just('a').map(T).then(just('b').map(T))", za().then(just('b').map(|_| tv(2))).map(|(a, b)| vec![a, b]).recover_with(skip_until(any().ignored(), just(';').ignored(), || vec![tv(11)])).then_ignore(rest()).map(|v| keep(v.len(), v)).or(rest().map(|_| keep(0, ()))).boxed()));
    v.push(("recover_with(skip_then_retry_until(any(), just(';'))) around T-producing sequence, inside repeated()", za().then(just('b').map(|_| tv(2))).map(|(a, b)| vec![a, b]).recover_with(skip_then_retry_until(any().ignored(), just(';').ignored())).repeated().collect::<Vec<Vec<Tracked>>>().then_ignore(rest()).map(|v| keep(v.iter().map(|x| x.len()).sum(), v)).boxed()));
    v.push(("recover_with(via_parser(any().map(T).repeated().at_most(2).collect())) whose fallback may fail after producing", za().repeated().at_least(2).collect::<Vec<Tracked>>().then_ignore(just(';')).recover_with(via_parser(z().repeated().at_most(2).collect::<Vec<Tracked>>().then_ignore(just('x')))).then_ignore(rest()).map(|v| keep(v.len(), v)).or(rest().map(|_| keep(0, ()))).boxed()));
    // ---- nested input, lazy
    v.push(("any().map(T).repeated().collect().nested_in(any().repeated().at_most(2).to_slice())", z().repeated().at_least(1).collect::<Vec<Tracked>>().then_ignore(just('b').not()).nested_in(any().repeated().at_most(2).to_slice()).then_ignore(rest()).map(|v| keep(v.len(), v)).or(rest().map(|_| keep(0, ()))).boxed()));
    v.push(("just('a').map(T).repeated().collect_exactly::<[T;2]>().lazy()", za().repeated().collect_exactly::<[Tracked; 2]>().lazy().map(|a| keep(2, a)).boxed()));
    v.push(("group((T, T, T)) tuple then array group over boxed items, in a choice", group((za(), z(), just('b').map(|_| tv(2)))).map(|t| keep(3, t)).or(group([za().boxed(), za().boxed(), just('x').map(|_| tv(4)).boxed(), z().boxed()]).map(|a| keep(4, a))).then_ignore(rest()).or(rest().map(|_| keep(0, ()))).boxed()));
    v
}

pub fn family<'s>(acc: &mut Acc, words: &'s [String]) {
    family_subset(acc, words, &|_| true)
}

/// Only the parsers whose index satisfies `pick` (the sanitizer jobs split the list over their shards).
pub fn family_subset<'s>(acc: &mut Acc, words: &'s [String], pick: &dyn Fn(usize) -> bool) {
    let ps = parsers::<'s>();
    for (pi, (name, p)) in ps.iter().enumerate() {
        if !pick(pi) {
            continue;
        }
        for w in words {
            for mode in ["parse", "check"] {
                acc.evaluations += 1;
                acc.count("api_family_cases", 1);
                let before = track::live();
                let (c0, cl0, _d0, dd0) = track::counts();
                let r = guarded(|| {
                    if mode == "parse" {
                        let r = p.parse(w.as_str());
                        let held = r.output().map(|o| o.0).unwrap_or(0) as i64;
                        let live = track::live();
                        drop(r);
                        (held, live)
                    } else {
                        let r = p.check(w.as_str());
                        let live = track::live();
                        drop(r);
                        (0, live)
                    }
                });
                let after = track::live();
                let (c1, cl1, _d1, dd1) = track::counts();
                let made = (c1 - c0) + (cl1 - cl0);
                acc.count("api_family_values_created", made);
                match r {
                    Ok((held, live_with_result)) => {
                        if made as i64 > held {
                            acc.nontrivial_rand.insert(crate::rng::hash64(format!("api|{}|{}|{}", name, w, mode).as_bytes()));
                            acc.count("api_family_values_dropped_during_the_parse", (made as i64 - held) as u64);
                        }
                        acc.count("api_family_values_handed_to_the_caller", held as u64);
                        let d = if dd1 != dd0 {
                            Some(format!("{} value(s) dropped twice", dd1 - dd0))
                        } else if after != before {
                            Some(format!("{} value(s) created during {}() still alive after the result was dropped (negative: dropped more often than created)", after - before, mode))
                        } else if live_with_result - before != held {
                            Some(format!("when {}() returned, {} tracked value(s) were alive but the output holds {}", mode, live_with_result - before, held))
                        } else {
                            None
                        };
                        if let Some(d) = d {
                            acc.viol(Viol { weight: 120 + w.len(), what: format!("C19: [{}] on {:?} ({}): {}", name, w, mode, d), detail: json!({"grammar_text": name, "input": w, "mode": mode, "created": made}) });
                        }
                    }
                    Err(_) => acc.count("panicking_cases_skipped", 1),
                }
            }
        }
    }
    drop(ps);
    if track::live() == 0 && track::counts().0 > 1_000_000 {
        track::reset();
    }
}
