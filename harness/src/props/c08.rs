//! C08 — error recovery: transparent on success, one extra error (the would-be primary error) on
//! recovery, same error and nothing consumed on double failure, never silent.  Reference-model monitor.

use crate::classes;
use crate::drv::*;
use crate::ev::*;
use crate::gram::*;
use crate::mk::*;
use crate::model::Outcome;
use crate::par::for_each_index;
use crate::rng::Rng;
use chumsky::error::Rich;
use serde_json::json;

pub fn basis() -> Basis {
    let mut b = classes::k01_core(false);
    b.leaves.push(G::leaf(Op::Probe));
    b.leaves.push(G::leaf(Op::Custom).with(|p| {
        p.n = 1;
        p.ok = false
    }));
    b.ctors.extend(classes::rep_light());
    b.ctors.extend(classes::recover_ctors());
    b.ctors.push(ctor(1, |mut k| G::un(Op::RecNested, k.remove(0))));
    b
}

fn recoveries(g: &G) -> usize {
    g.count_op(&|o| matches!(o, Op::RecVia | Op::RecSkipUntil | Op::RecSkipRetry | Op::RecNested))
}

fn counters(acc: &mut Acc, m: &Outcome, r: &RunOut) {
    acc.count("recoveries_in_model", m.stats.recoveries);
    acc.count("failed_recoveries_in_model", m.stats.failed_recoveries);
    acc.count("transparent_successes", (m.out.is_some() && m.em.is_empty()) as u64);
    acc.count("outputs_with_recovered_errors", (m.out.is_some() && !m.em.is_empty()) as u64);
    acc.count("recovered_errors_compared", if m.out.is_some() { r.errs.len() as u64 } else { 0 });
    acc.count("rejected_after_failed_recovery", (m.out.is_none() && m.stats.failed_recoveries > 0) as u64);
    acc.count("recovery_after_deeper_abandoned_alternative", (m.stats.recoveries > 0 && m.stats.deep_backtracks > 0) as u64);
}

fn signature(_g: &G, m: &Outcome, d: &str) -> Option<String> {
    if d.contains("found ") && d.contains("but the token at the start of the span") {
        let fl = m.pend.as_ref().map(|p| p.filter_like).unwrap_or(false)
            || m.em.iter().any(|e| matches!(&e.k, crate::model::EmitK::Rec(me) if me.filter_like));
        if fl {
            return Some("D3-filter-found".into());
        }
    }
    None
}

pub fn spec() -> Spec {
    Spec {
        prop: "C08",
        what: What { value: true, emits: true, primary: true, state: true, trace: true, no_found: true, ..Default::default() },
        nontrivial: |m| m.stats.recoveries > 0 || m.stats.failed_recoveries > 0,
        amb: |m| m.stats.ambiguous_a1 || m.stats.ambiguous_a2 || m.stats.ambiguous_a9,
        counters,
        signature,
        slice: false,
        obs: false,
        also_check: true,
    }
}

fn one<'s, I: Kind<'s>>(acc: &mut Acc, sp: &Spec, g: &G, p: &BP<'s, I, Rich<'s, char, I::Span>>, buf: &'s Buf, enumerated: bool)
where
    I::Span: Clone + 's,
{
    if let Some((_m, r)) = model_case::<I, Rich<'s, char, I::Span>>(acc, sp, g, p, buf, enumerated) {
        // never silent: an error-free result contains no recovered output
        if r.has_output && r.errs.is_empty() {
            if let Some(v) = &r.out {
                if v.contains_fb() {
                    acc.viol(Viol::case("C08: error-free result contains a recovery fallback value", g, &buf.chars, json!({"output": v.strip().show()})));
                }
            }
        }
    }
}

pub fn run(cx: &RunCtx) -> i32 {
    let alpha: Vec<char> = vec!['a', 'b', '('];
    let max_len = cx.t(4, 5);
    let bufs: Vec<Buf> = all_inputs(&alpha, max_len).iter().map(|w| Buf::new(w)).collect();
    let b = basis();
    let size = cx.t(4, 5);
    let grammars: Vec<G> = b.up_to(size).into_iter().filter(|g| (1..=2).contains(&recoveries(g))).collect();
    let n_enum = grammars.len();
    let sp = spec();
    let mut acc = for_each_index(grammars.len(), cx.threads, 8, |acc, gi| {
        let g = &grammars[gi];
        let p = build::<&str, Rich<char>>(g, Opts::default());
        for buf in &bufs {
            one::<&str>(acc, &sp, g, &p, buf, true);
        }
    });
    acc.count("enumerated_grammars", n_enum as u64);

    // shaped: every strategy around small failing/succeeding parsers, after an alternative that failed deeper,
    // inside repetitions, followed by tails
    let ps: Vec<G> = vec![
        G::just('a'),
        G::just_seq("ab"),
        G::bin(Op::Then, G::just('a'), G::just('b')),
        G::bin(Op::Then, G::leaf(Op::Any), G::just('b')),
        G::bin(Op::Or, G::just_seq("ab"), G::just('b')),
        G::un(Op::Filter, G::leaf(Op::Any)).with(|p| p.pred = Pred::FirstIs('a')),
        G::un(Op::TryMap, G::leaf(Op::Any)).with(|p| p.pred = Pred::Lacks('b')),
        G::leaf(Op::Custom).with(|p| {
            p.n = 2;
            p.ok = false
        }),
        G::rep(G::just('a'), 1, Some(2), Flav::Vec),
    ];
    let aux: Vec<G> = vec![G::just('a'), G::just('b'), G::leaf(Op::Any), G::leaf(Op::End), G::leaf(Op::Empty), G::set(Op::NoneOf, "b")];
    let mut recs: Vec<G> = vec![];
    for p in &ps {
        for x in &aux {
            recs.push(G::bin(Op::RecVia, p.clone(), x.clone()));
            for y in &aux {
                recs.push(G::new(Op::RecSkipUntil, vec![p.clone(), x.clone(), y.clone()]));
                recs.push(G::new(Op::RecSkipRetry, vec![p.clone(), x.clone(), y.clone()]));
            }
        }
        recs.push(G::un(Op::RecNested, p.clone()));
    }
    // nesting: a recovery whose fallback / inner parser is itself a recovery
    let n1 = recs.len();
    for i in (0..n1).step_by(cx.t(11, 3)) {
        let r = recs[i].clone();
        recs.push(G::bin(Op::RecVia, r.clone(), G::leaf(Op::Any)));
        recs.push(G::bin(Op::RecVia, G::just('b'), r.clone()));
        recs.push(G::new(Op::RecSkipRetry, vec![r, G::leaf(Op::Any), G::leaf(Op::End)]));
    }
    let recs: Vec<G> = recs.into_iter().filter(|g| g.well_formed()).collect();
    let deep = G::just_seq("aab");
    let mut shaped: Vec<G> = vec![];
    for r in &recs {
        shaped.push(r.clone().numbered());
        shaped.push(G::bin(Op::Then, r.clone(), G::just('b')).numbered());
        shaped.push(G::bin(Op::Or, deep.clone(), r.clone()).numbered());
        shaped.push(G::bin(Op::Then, G::new(Op::Choice, vec![deep.clone(), G::bin(Op::Then, G::just('a'), r.clone())]), G::leaf(Op::Any).with(|_| {})).numbered());
        shaped.push(G::rep(G::bin(Op::Then, G::just('b'), r.clone()), 0, None, Flav::Vec).numbered());
        shaped.push(G::bin(Op::Then, G::un(Op::OrNot, G::bin(Op::Then, r.clone(), G::just('b'))), G::rep(G::leaf(Op::Any), 0, None, Flav::Unit)).numbered());
    }
    let shaped: Vec<G> = shaped.into_iter().filter(|g| g.well_formed()).collect();
    let n_shaped = shaped.len();
    let sacc = for_each_index(shaped.len(), cx.threads, 8, |acc, gi| {
        let g = &shaped[gi];
        let p = build::<&str, Rich<char>>(g, Opts::default());
        for buf in &bufs {
            one::<&str>(acc, &sp, g, &p, buf, true);
        }
    });
    acc.merge(sacc);
    acc.count("shaped_grammars", n_shaped as u64);

    // bracket languages for nested_delimiters: all strings over ( ) [ ] a up to a bound
    let br_bufs: Vec<Buf> = all_inputs(&['(', ')', '[', ']', 'a'], cx.t(5, 6)).iter().map(|w| Buf::new(w)).collect();
    let br: Vec<G> = vec![
        G::un(Op::RecNested, G::just_seq("(a)")),
        G::bin(Op::Then, G::un(Op::RecNested, G::just_seq("(a)")), G::rep(G::leaf(Op::Any), 0, None, Flav::Str)),
        G::rep(G::un(Op::RecNested, G::new(Op::Delim, vec![G::just('a'), G::just('('), G::just(')')])), 0, None, Flav::Vec),
        G::bin(Op::Or, G::just_seq("((a"), G::bin(Op::Then, G::un(Op::RecNested, G::just('a')), G::rep(G::leaf(Op::Any), 0, None, Flav::Unit))),
    ]
    .into_iter()
    .map(|g| g.numbered())
    .collect();
    let bacc = for_each_index(br.len() * br_bufs.len(), cx.threads, 64, |acc, i| {
        let g = &br[i / br_bufs.len()];
        let buf = &br_bufs[i % br_bufs.len()];
        let p = build::<&str, Rich<char>>(g, Opts::default());
        one::<&str>(acc, &sp, g, &p, buf, true);
    });
    acc.count("nested_delimiter_cases", (br.len() * br_bufs.len()) as u64);
    acc.merge(bacc);

    let n_rand = cx.t(30_000, 600_000);
    let seed = cx.seed;
    let mut rb = basis();
    rb.ctors.extend(classes::recover_ctors());
    rb.ctors.extend(classes::validate_ctors());
    let racc = for_each_index(n_rand, cx.threads, 64, |acc, i| {
        let mut rng = Rng::derive(seed, 0xC08, i as u64);
        let sz = rng.range(size + 1, 13);
        let g = rb.random(&mut rng, sz);
        if recoveries(&g) == 0 {
            return;
        }
        let alpha = ['a', 'b', 'é', '(', ')', '[', ']', '𝄞'];
        let bufs: Vec<Buf> = (0..6).map(|j| Buf::new(&random_input(&mut rng, &alpha[..if j < 3 { 4 } else { 8 }], 10))).collect();
        let p = build::<&str, Rich<char>>(&g, Opts::default());
        let ps = build::<StreamK, Rich<char>>(&g, Opts::default());
        for (j, buf) in bufs.iter().enumerate() {
            one::<&str>(acc, &sp, &g, &p, buf, false);
            if j == 0 {
                one::<StreamK>(acc, &sp, &g, &ps, buf, false);
            }
        }
    });
    acc.merge(racc);
    acc.count("random_grammars", n_rand as u64);

    finish(
        cx,
        acc,
        Finish {
            rule: format!("every grammar with <= {size} nodes over the K02 basis (no not()) containing 1..2 recover_with nodes (via_parser, skip_until, skip_then_retry_until, nested_delimiters) x every input <= {max_len} over {{a,b,(}}; {n_shaped} shaped grammars (each strategy around 9 inner parsers x 6 skip/until/fallback parsers, nested recoveries, each alone / followed by a tail / after an alternative that failed further ahead / inside a repetition / inside an abandoned option); 4 bracket grammars x all strings <= {} over ( ) [ ] a; {n_rand} random grammars x 6 inputs; parse and check mode. Compared with the reference semantics: output (strategy output vs parser output, extents), ordered error list (exactly one extra error per recovery, equal to the model's pending primary error at that moment), primary error and consumption on double failure, inspector state, probe trace; error-free results are searched for fallback markers. Non-trivial: the reference evaluation entered at least one recovery (successful or failed)", cx.t(5, 6)),
            exhaustive: false,
            exhaustive_note: format!("grammars <= {size} nodes with 1..2 recoveries x inputs <= {max_len}: complete"),
            assumptions: vec![
                "P1: skip_until consumes the `until` match; P3: order at a recovery site = strategy's own emissions, then the recovered error".into(),
                "A9: with >= 2 successful recoveries in one parse the comparison is lenient (counted as ambiguous)".into(),
                "errors whose identity depends on a failed not() are only required to be present (the bookkeeping of not() is pinned, not specified)".into(),
            ],
            require: vec![("recoveries_in_model".into(), 10_000), ("failed_recoveries_in_model".into(), 10_000), ("outputs_with_recovered_errors".into(), 1000), ("transparent_successes".into(), 1000), ("rejected_after_failed_recovery".into(), 1000), ("recovery_after_deeper_abandoned_alternative".into(), 100), ("nested_delimiter_cases".into(), 1000)],
            min_evaluations: 10_000,
        },
    )
}
