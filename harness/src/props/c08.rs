//! C08 — error recovery: transparent on success, one extra error (the would-be primary error) on
//! recovery, same error and nothing consumed on double failure, never silent.  Reference-model monitor.

use crate::classes;
use crate::drv::*;
use crate::ev::*;
use crate::gram::*;
use crate::mk::*;
use crate::model::Outcome;
use crate::par::for_each_index;
use crate::rng::Rng;
use chumsky::error::Rich;
use chumsky::Parser;
use serde_json::json;

pub fn basis() -> Basis {
    let mut b = classes::k01_core(false);
    b.leaves.push(G::leaf(Op::Probe));
    b.leaves.push(G::leaf(Op::Custom).with(|p| {
        p.n = 1;
        p.ok = false
    }));
    b.ctors.extend(classes::rep_light());
    b.ctors.extend(classes::recover_ctors());
    b.ctors.push(ctor(1, |mut k| G::un(Op::RecNested, k.remove(0))));
    b
}

fn recoveries(g: &G) -> usize {
    g.count_op(&|o| matches!(o, Op::RecVia | Op::RecSkipUntil | Op::RecSkipRetry | Op::RecNested))
}

fn counters(acc: &mut Acc, m: &Outcome, r: &RunOut) {
    acc.count("recoveries_in_model", m.stats.recoveries);
    acc.count("failed_recoveries_in_model", m.stats.failed_recoveries);
    acc.count("transparent_successes", (m.out.is_some() && m.em.is_empty()) as u64);
    acc.count("outputs_with_recovered_errors", (m.out.is_some() && !m.em.is_empty()) as u64);
    acc.count("recovered_errors_compared", if m.out.is_some() { r.errs.len() as u64 } else { 0 });
    acc.count("rejected_after_failed_recovery", (m.out.is_none() && m.stats.failed_recoveries > 0) as u64);
    acc.count("recovery_after_deeper_abandoned_alternative", (m.stats.recoveries > 0 && m.stats.deep_backtracks > 0) as u64);
}

fn signature(_g: &G, m: &Outcome, d: &str) -> Option<String> {
    if d.contains("found ") && d.contains("but the token at the start of the span") {
        let fl = m.pend.as_ref().map(|p| p.filter_like).unwrap_or(false)
            || m.em.iter().any(|e| matches!(&e.k, crate::model::EmitK::Rec(me) if me.filter_like));
        if fl {
            return Some("D3-filter-found".into());
        }
    }
    None
}

pub fn spec() -> Spec {
    Spec {
        prop: "C08",
        what: What { value: true, emits: true, primary: true, state: true, trace: true, no_found: true, ..Default::default() },
        nontrivial: |m| m.stats.recoveries > 0 || m.stats.failed_recoveries > 0,
        amb: |m| m.stats.ambiguous_a1 || m.stats.ambiguous_a2 || m.stats.ambiguous_a9,
        counters,
        signature,
        slice: false,
        obs: false,
        also_check: true,
    }
}

fn one<'s, I: Kind<'s>>(acc: &mut Acc, sp: &Spec, g: &G, p: &BP<'s, I, Rich<'s, char, I::Span>>, buf: &'s Buf, enumerated: bool)
where
    I::Span: Clone + 's,
{
    if let Some((_m, r)) = model_case::<I, Rich<'s, char, I::Span>>(acc, sp, g, p, buf, enumerated) {
        // never silent: an error-free result contains no recovered output
        if r.has_output && r.errs.is_empty() {
            if let Some(v) = &r.out {
                if v.contains_fb() {
                    acc.viol(Viol::case("C08: error-free result contains a recovery fallback value", g, &buf.chars, json!({"output": v.strip().show()})));
                }
            }
        }
    }
}


// -----------------------------------------------------------------------------------------------
// nested_delimiters with 0..3 `others` pairs and varying main pair: statically typed parsers against
// an independent bracket matcher ("consumes exactly one balanced delimited region")

type EB<'s> = chumsky::extra::Err<Rich<'s, char>>;
type BrOut = (Vec<Option<(usize, usize)>>, String);
type BrP<'s> = chumsky::Boxed<'s, 's, &'s str, BrOut, EB<'s>>;

/// One balanced region of kind `k` starting at `p`: position after its closer.  Inside, every opener of
/// any listed pair starts a nested region that must itself be balanced; a stray closer is not allowed.
fn br_region(w: &[char], p: usize, pairs: &[(char, char)], k: usize) -> Option<usize> {
    if w.get(p) != Some(&pairs[k].0) {
        return None;
    }
    let mut q = p + 1;
    loop {
        let c = *w.get(q)?;
        if c == pairs[k].1 {
            return Some(q + 1);
        }
        if let Some(j) = pairs.iter().position(|pr| pr.0 == c) {
            q = br_region(w, q, pairs, j)?;
        } else if pairs.iter().any(|pr| pr.1 == c) {
            return None;
        } else {
            q += 1;
        }
    }
}

/// `item = 'a' recover_with(via_parser(nested_delimiters(main, others)))`; the grammar is
/// `item.repeated().collect().then(rest)`: `None` per plain item, `Some(region span)` per recovery.
fn br_expected(w: &[char], pairs: &[(char, char)]) -> (Vec<Option<(usize, usize)>>, usize) {
    let mut items = vec![];
    let mut p = 0;
    loop {
        if w.get(p) == Some(&'a') {
            items.push(None);
            p += 1;
        } else if let Some(e) = br_region(w, p, pairs, 0) {
            items.push(Some((p, e)));
            p = e;
        } else {
            return (items, p);
        }
    }
}

fn br_parsers<'s>() -> Vec<(&'static str, Vec<(char, char)>, BrP<'s>)> {
    use chumsky::prelude::*;
    use chumsky::recovery::{nested_delimiters, via_parser};
    macro_rules! fam {
        ($name:expr, $s:expr, $e:expr, $others:expr) => {{
            let mut pairs = vec![($s, $e)];
            pairs.extend($others.iter().cloned());
            let item = just::<_, &str, EB<'s>>('a').to(None).recover_with(via_parser(nested_delimiters($s, $e, $others, |sp: SimpleSpan| Some((sp.start, sp.end)))));
            ($name, pairs, item.repeated().collect::<Vec<_>>().then(any().repeated().collect::<String>()).boxed())
        }};
    }
    let none: [(char, char); 0] = [];
    vec![
        fam!("nested_delimiters('(', ')', [])", '(', ')', none),
        fam!("nested_delimiters('(', ')', [('[', ']')])", '(', ')', [('[', ']')]),
        fam!("nested_delimiters('(', ')', [('[', ']'), ('{', '}')])", '(', ')', [('[', ']'), ('{', '}')]),
        fam!("nested_delimiters('[', ']', [('(', ')'), ('{', '}')])", '[', ']', [('(', ')'), ('{', '}')]),
        fam!("nested_delimiters('(', ')', [('[', ']'), ('{', '}'), ('<', '>')])", '(', ')', [('[', ']'), ('{', '}'), ('<', '>')]),
        fam!("nested_delimiters('{', '}', [('<', '>'), ('(', ')'), ('[', ']')])", '{', '}', [('<', '>'), ('(', ')'), ('[', ']')]),
    ]
}

/// Byte offset -> token index for the family's inputs (all tokens are ASCII, so they coincide).
fn bracket_family(acc: &mut Acc, words: &[Vec<char>]) {
    let strs: Vec<String> = words.iter().map(|w| w.iter().collect()).collect();
    let ps = br_parsers();
    for (w, s) in words.iter().zip(strs.iter()) {
        for (name, pairs, p) in &ps {
            let (items, stop) = br_expected(w, pairs);
            let rest: String = w[stop..].iter().collect();
            let n_rec = items.iter().filter(|i| i.is_some()).count();
            for mode in ["parse", "check"] {
                acc.evaluations += 1;
                acc.count("bracket_family_cases", 1);
                let r = guarded(|| {
                    if mode == "parse" {
                        let r = p.parse(s.as_str());
                        (r.has_output(), r.output().cloned(), r.errors().map(|e| (e.span().start, e.span().end)).collect::<Vec<_>>())
                    } else {
                        let r = p.check(s.as_str());
                        (r.has_output(), None, r.errors().map(|e| (e.span().start, e.span().end)).collect::<Vec<_>>())
                    }
                });
                let mut bad: Option<String> = None;
                match &r {
                    Err(e) => bad = Some(e.clone()),
                    Ok((has, out, errs)) => {
                        // the grammar accepts every input: items* then the rest
                        if !*has {
                            bad = Some(format!("no output (errors at {:?}) although item* rest matches every input", errs));
                        } else if errs.len() != n_rec {
                            bad = Some(format!("{} errors reported, but the bracket matcher finds {} balanced regions to recover over (items {:?})", errs.len(), n_rec, items));
                        } else if let Some((got_items, got_rest)) = out {
                            if got_items != &items || got_rest != &rest {
                                bad = Some(format!("output {:?} + rest {:?}; the bracket matcher gives {:?} + rest {:?}", got_items, got_rest, items, rest));
                            }
                        }
                        if bad.is_none() {
                            // each recovered error is the failure of just('a') at the region's opener
                            let want: Vec<(usize, usize)> = items.iter().flatten().map(|(a, _)| (*a, *a + 1)).collect();
                            if errs != &want {
                                bad = Some(format!("recovered errors at {:?}; expected one per region at its opener: {:?}", errs, want));
                            }
                        }
                    }
                }
                if n_rec > 0 {
                    acc.nontrivial_enum += 1;
                    acc.count("bracket_family_regions_recovered", n_rec as u64);
                }
                if items.iter().flatten().any(|(a, e)| w[*a + 1..*e - 1].iter().any(|c| pairs[1..].iter().any(|pr| pr.0 == *c))) {
                    acc.count("bracket_family_regions_containing_other_pairs", 1);
                }
                if let Some(b) = bad {
                    acc.viol(Viol { weight: 50 + w.len(), what: format!("C08: [a.recover_with(via_parser({})).repeated().then(rest)] on {:?} ({}): {}", name, s, mode, b), detail: json!({"grammar_text": name, "input": s, "mode": mode, "part": "bracket family"}) });
                }
            }
        }
    }
}

pub fn run(cx: &RunCtx) -> i32 {
    let alpha: Vec<char> = vec!['a', 'b', '('];
    let max_len = cx.t(4, 5);
    let bufs: Vec<Buf> = all_inputs(&alpha, max_len).iter().map(|w| Buf::new(w)).collect();
    let b = basis();
    let size = cx.t(4, 5);
    let grammars: Vec<G> = b.up_to(size).into_iter().filter(|g| (1..=2).contains(&recoveries(g))).collect();
    let n_enum = grammars.len();
    let sp = spec();
    let mut acc = for_each_index(grammars.len(), cx.threads, 8, |acc, gi| {
        let g = &grammars[gi];
        let p = build::<&str, Rich<char>>(g, Opts::default());
        for buf in &bufs {
            one::<&str>(acc, &sp, g, &p, buf, true);
        }
    });
    acc.count("enumerated_grammars", n_enum as u64);

    // shaped: every strategy around small failing/succeeding parsers, after an alternative that failed deeper,
    // inside repetitions, followed by tails
    let ps: Vec<G> = vec![
        G::just('a'),
        G::just_seq("ab"),
        G::bin(Op::Then, G::just('a'), G::just('b')),
        G::bin(Op::Then, G::leaf(Op::Any), G::just('b')),
        G::bin(Op::Or, G::just_seq("ab"), G::just('b')),
        G::un(Op::Filter, G::leaf(Op::Any)).with(|p| p.pred = Pred::FirstIs('a')),
        G::un(Op::TryMap, G::leaf(Op::Any)).with(|p| p.pred = Pred::Lacks('b')),
        G::leaf(Op::Custom).with(|p| {
            p.n = 2;
            p.ok = false
        }),
        G::rep(G::just('a'), 1, Some(2), Flav::Vec),
    ];
    let aux: Vec<G> = vec![G::just('a'), G::just('b'), G::leaf(Op::Any), G::leaf(Op::End), G::leaf(Op::Empty), G::set(Op::NoneOf, "b")];
    let mut recs: Vec<G> = vec![];
    for p in &ps {
        for x in &aux {
            recs.push(G::bin(Op::RecVia, p.clone(), x.clone()));
            for y in &aux {
                recs.push(G::new(Op::RecSkipUntil, vec![p.clone(), x.clone(), y.clone()]));
                recs.push(G::new(Op::RecSkipRetry, vec![p.clone(), x.clone(), y.clone()]));
            }
        }
        recs.push(G::un(Op::RecNested, p.clone()));
    }
    // nesting: a recovery whose fallback / inner parser is itself a recovery
    let n1 = recs.len();
    for i in (0..n1).step_by(cx.t(11, 3)) {
        let r = recs[i].clone();
        recs.push(G::bin(Op::RecVia, r.clone(), G::leaf(Op::Any)));
        recs.push(G::bin(Op::RecVia, G::just('b'), r.clone()));
        recs.push(G::new(Op::RecSkipRetry, vec![r, G::leaf(Op::Any), G::leaf(Op::End)]));
    }
    let recs: Vec<G> = recs.into_iter().filter(|g| g.well_formed()).collect();
    let deep = G::just_seq("aab");
    let mut shaped: Vec<G> = vec![];
    for r in &recs {
        shaped.push(r.clone().numbered());
        shaped.push(G::bin(Op::Then, r.clone(), G::just('b')).numbered());
        shaped.push(G::bin(Op::Or, deep.clone(), r.clone()).numbered());
        shaped.push(G::bin(Op::Then, G::new(Op::Choice, vec![deep.clone(), G::bin(Op::Then, G::just('a'), r.clone())]), G::leaf(Op::Any).with(|_| {})).numbered());
        shaped.push(G::rep(G::bin(Op::Then, G::just('b'), r.clone()), 0, None, Flav::Vec).numbered());
        shaped.push(G::bin(Op::Then, G::un(Op::OrNot, G::bin(Op::Then, r.clone(), G::just('b'))), G::rep(G::leaf(Op::Any), 0, None, Flav::Unit)).numbered());
    }
    let shaped: Vec<G> = shaped.into_iter().filter(|g| g.well_formed()).collect();
    let n_shaped = shaped.len();
    let sacc = for_each_index(shaped.len(), cx.threads, 8, |acc, gi| {
        let g = &shaped[gi];
        let p = build::<&str, Rich<char>>(g, Opts::default());
        for buf in &bufs {
            one::<&str>(acc, &sp, g, &p, buf, true);
        }
    });
    acc.merge(sacc);
    acc.count("shaped_grammars", n_shaped as u64);

    // bracket languages for nested_delimiters: all strings over ( ) [ ] a up to a bound
    let br_bufs: Vec<Buf> = all_inputs(&['(', ')', '[', ']', 'a'], cx.t(5, 6)).iter().map(|w| Buf::new(w)).collect();
    let br: Vec<G> = vec![
        G::un(Op::RecNested, G::just_seq("(a)")),
        G::bin(Op::Then, G::un(Op::RecNested, G::just_seq("(a)")), G::rep(G::leaf(Op::Any), 0, None, Flav::Str)),
        G::rep(G::un(Op::RecNested, G::new(Op::Delim, vec![G::just('a'), G::just('('), G::just(')')])), 0, None, Flav::Vec),
        G::bin(Op::Or, G::just_seq("((a"), G::bin(Op::Then, G::un(Op::RecNested, G::just('a')), G::rep(G::leaf(Op::Any), 0, None, Flav::Unit))),
    ]
    .into_iter()
    .map(|g| g.numbered())
    .collect();
    let bacc = for_each_index(br.len() * br_bufs.len(), cx.threads, 64, |acc, i| {
        let g = &br[i / br_bufs.len()];
        let buf = &br_bufs[i % br_bufs.len()];
        let p = build::<&str, Rich<char>>(g, Opts::default());
        one::<&str>(acc, &sp, g, &p, buf, true);
    });
    acc.count("nested_delimiter_cases", (br.len() * br_bufs.len()) as u64);
    acc.merge(bacc);

    // bracket family: 0..3 `others` pairs, every string over the eight delimiters and 'a'
    let fam_words: Vec<Vec<char>> = {
        let mut v = all_inputs(&['(', ')', '[', ']', '{', '}', '<', '>', 'a'], cx.t(5, 6));
        let mut rng = Rng::derive(cx.seed, 0xC08B, 0);
        for _ in 0..cx.t(20_000, 400_000) {
            // random, biased towards balanced text
            let n = rng.range(4, 16);
            let mut w: Vec<char> = vec![];
            let mut stack: Vec<char> = vec![];
            for _ in 0..n {
                match rng.below(10) {
                    0..=3 => {
                        let k = rng.below(4) as usize;
                        w.push(['(', '[', '{', '<'][k]);
                        stack.push([')', ']', '}', '>'][k]);
                    }
                    4..=6 => match stack.pop() {
                        Some(c) if rng.chance(9, 10) => w.push(c),
                        _ => w.push(*rng.pick(&[')', ']', '}', '>'])),
                    },
                    _ => w.push('a'),
                }
            }
            if rng.chance(2, 3) {
                while let Some(c) = stack.pop() {
                    w.push(c);
                }
            }
            v.push(w);
        }
        v
    };
    const FCH: usize = 512;
    let facc = for_each_index((fam_words.len() + FCH - 1) / FCH, cx.threads, 1, |acc, ci| {
        bracket_family(acc, &fam_words[ci * FCH..((ci + 1) * FCH).min(fam_words.len())]);
    });
    acc.merge(facc);

    let n_rand = cx.t(30_000, 600_000);
    let seed = cx.seed;
    let mut rb = basis();
    rb.ctors.extend(classes::recover_ctors());
    rb.ctors.extend(classes::validate_ctors());
    let racc = for_each_index(n_rand, cx.threads, 64, |acc, i| {
        let mut rng = Rng::derive(seed, 0xC08, i as u64);
        let sz = rng.range(size + 1, 13);
        let g = rb.random(&mut rng, sz);
        if recoveries(&g) == 0 {
            return;
        }
        let alpha = ['a', 'b', 'é', '(', ')', '[', ']', '𝄞'];
        let bufs: Vec<Buf> = (0..6).map(|j| Buf::new(&random_input(&mut rng, &alpha[..if j < 3 { 4 } else { 8 }], 10))).collect();
        let p = build::<&str, Rich<char>>(&g, Opts::default());
        let ps = build::<StreamK, Rich<char>>(&g, Opts::default());
        for (j, buf) in bufs.iter().enumerate() {
            one::<&str>(acc, &sp, &g, &p, buf, false);
            if j == 0 {
                one::<StreamK>(acc, &sp, &g, &ps, buf, false);
            }
        }
    });
    acc.merge(racc);
    acc.count("random_grammars", n_rand as u64);

    finish(
        cx,
        acc,
        Finish {
            rule: format!("every grammar with <= {size} nodes over the K02 basis (no not()) containing 1..2 recover_with nodes (via_parser, skip_until, skip_then_retry_until, nested_delimiters) x every input <= {max_len} over {{a,b,(}}; {n_shaped} shaped grammars (each strategy around 9 inner parsers x 6 skip/until/fallback parsers, nested recoveries, each alone / followed by a tail / after an alternative that failed further ahead / inside a repetition / inside an abandoned option); 4 bracket grammars x all strings <= {} over ( ) [ ] a; bracket family (model-free): a.recover_with(via_parser(nested_delimiters(main, others))).repeated().then(rest) for 6 statically typed (main pair, 0..3 other pairs) configurations x all strings <= {} over the eight delimiters and a + random mostly-balanced strings <= 24 ({} inputs), against an independent bracket matcher: items, remainder, one error per recovered region at its opener, parse and check; {n_rand} random grammars x 6 inputs; parse and check mode. Compared with the reference semantics: output (strategy output vs parser output, extents), ordered error list (exactly one extra error per recovery, equal to the model's pending primary error at that moment), primary error and consumption on double failure, inspector state, probe trace; error-free results are searched for fallback markers. Non-trivial: the reference evaluation entered at least one recovery (successful or failed)", cx.t(5, 6), cx.t(5, 6), fam_words.len()),
            exhaustive: false,
            exhaustive_note: format!("grammars <= {size} nodes with 1..2 recoveries x inputs <= {max_len}: complete"),
            assumptions: vec![
                "P1: skip_until consumes the `until` match; P3: order at a recovery site = strategy's own emissions, then the recovered error".into(),
                "A9: with >= 2 successful recoveries in one parse the comparison is lenient (counted as ambiguous)".into(),
                "errors whose identity depends on a failed not() are only required to be present (the bookkeeping of not() is pinned, not specified)".into(),
            ],
            require: vec![("recoveries_in_model".into(), 10_000), ("failed_recoveries_in_model".into(), 10_000), ("outputs_with_recovered_errors".into(), 1000), ("transparent_successes".into(), 1000), ("rejected_after_failed_recovery".into(), 1000), ("recovery_after_deeper_abandoned_alternative".into(), 100), ("nested_delimiter_cases".into(), 1000), ("bracket_family_regions_recovered".into(), 10_000), ("bracket_family_regions_containing_other_pairs".into(), 1000)],
            min_evaluations: 10_000,
        },
    )
}
