//! C03 — parse result contract: whole input, output/error consistency, lazy prefix.

use crate::classes;
use crate::cmp::*;
use crate::drv::*;
use crate::ev::*;
use crate::gram::*;
use crate::mk::*;
use crate::par::for_each_index;
use crate::rng::{hash64, Rng};
use chumsky::error::Rich;
use chumsky::Parser;
use serde_json::json;

pub fn basis() -> Basis {
    let mut b = classes::k01_core(true);
    b.leaves.push(G::leaf(Op::Custom).with(|p| {
        p.n = 1;
        p.ok = false
    }));
    b.ctors.extend(classes::rep_light());
    b.ctors.extend(classes::validate_ctors());
    b.ctors.extend(classes::recover_ctors());
    b
}

fn contract(acc: &mut Acc, g: &G, input: &[char], what: &str) {
    CONTRACT_FAIL.with(|c| {
        if let Some(m) = c.borrow_mut().take() {
            acc.viol(Viol::case(format!("C03: result API inconsistent ({}): {}", what, m), g, input, json!({})));
        }
    });
}

fn one<'s>(acc: &mut Acc, g: &G, p: &BP<'s, &'s str, Rich<'s, char>>, buf: &'s Buf, alpha: &[char], enumerated: bool, extend: bool) {
    type I<'s> = &'s str;
    let m = model_of(g, &buf.chars, true);
    acc.evaluations += 1;
    if m.pathological {
        acc.pathological += 1;
        return;
    }
    let r = guarded(|| run_parse(p, buf, 0, STEP_BUDGET));
    contract(acc, g, &buf.chars, "parse");
    let r = match settle(acc, "C03", g, &buf.chars, "str", &m, r) {
        Some(r) => r,
        None => return,
    };
    let rc = guarded(|| run_check(p, buf, 0, STEP_BUDGET));
    contract(acc, g, &buf.chars, "check");
    let rc = match settle(acc, "C03", g, &buf.chars, "str", &m, rc) {
        Some(r) => r,
        None => return,
    };
    let amb = m.stats.ambiguous_a1 || m.stats.ambiguous_a2 || m.stats.ambiguous_a9;
    let report = |acc: &mut Acc, msg: String| {
        if amb {
            acc.ambiguous += 1;
        } else {
            acc.viol(Viol::case(msg, g, &buf.chars, json!({})));
        }
    };
    // (i) an output without errors <=> the grammar matches the entire input without any emission
        let model_clean_strict = m.out.is_some() && m.em.is_empty();
    for (name, rr) in [("parse", &r), ("check", &rc)] {
        let real_clean = rr.has_output && rr.errs.is_empty();
        if real_clean && m.out.is_none() {
            report(acc, format!("C03: {}() returned an output and no errors, but the grammar does not match the entire input [model prefix end {:?} of {}]", name, m.prefix_end, buf.n()));
        }
        if rr.has_output != m.out.is_some() {
            report(acc, format!("C03: {}() has_output={} but the grammar {} the whole input", name, rr.has_output, if m.out.is_some() { "matches" } else { "does not match" }));
        }
        if !rr.has_output && rr.errs.is_empty() {
            report(acc, format!("C03: {}() returned neither output nor errors", name));
        }
    }
    let nontrivial = m.prefix_end.is_some() && buf.n() >= 1;
    if nontrivial {
        if enumerated {
            acc.nontrivial_enum += 1;
        } else {
            acc.nontrivial_rand.insert(hash64(format!("{}|{}", g.show(), buf.text).as_bytes()));
        }
    }
    acc.count("clean_accepts", model_clean_strict as u64);
    acc.count("accepts_with_errors", (m.out.is_some() && !m.em.is_empty()) as u64);
    acc.count("rejects", m.out.is_none() as u64);
    acc.count("proper_prefix_matches", (m.prefix_end.map(|e| e < buf.n()).unwrap_or(false)) as u64);

    // (iii) lazy(): accepts exactly the inputs with a matching prefix, same output
    let lz = p.clone().lazy();
    let rl = guarded(|| run_parse(&lz, buf, 0, STEP_BUDGET));
    contract(acc, g, &buf.chars, "lazy parse");
    if let Some(rl) = settle(acc, "C03", g, &buf.chars, "str", &m, rl) {
        acc.count("lazy_runs", 1);
        if rl.has_output != m.prefix_end.is_some() {
            report(acc, format!("C03: lazy() has_output={} but model prefix match = {:?}", rl.has_output, m.prefix_end));
        } else if let (Some(mv), Some(rv)) = (&m.prefix_out, &rl.out) {
            if let Some(d) = val_diff::<I>(buf, mv, rv) {
                report(acc, format!("C03: lazy() output differs at {}: model {} vs parser {}", d, mv.show(), rv.show()));
            }
            acc.count("lazy_prefix_accepts", 1);
        }
    }

    // (ii) every one-token extension of a cleanly accepted input is rejected unless the grammar matches it too
    if extend && model_clean_strict {
        for &t in alpha {
            let mut w = buf.chars.clone();
            w.push(t);
            let b2 = Buf::new(&w);
            let m2 = model_of(g, &w, true);
            if m2.pathological {
                continue;
            }
            // the parser's lifetime is tied to `buf`'s; build a fresh one for the extension
            let p2 = build::<&str, Rich<char>>(g, Opts::default());
            let r2 = guarded(|| run_parse(&p2, &b2, 0, STEP_BUDGET));
            acc.evaluations += 1;
            if let Ok(r2) = r2 {
                acc.count("extensions_checked", 1);
                acc.count("extensions_rejected", (!r2.has_output) as u64);
                let clean2 = r2.has_output && r2.errs.is_empty();
                if clean2 && m2.out.is_none() && !(m2.stats.ambiguous_a1 || m2.stats.ambiguous_a2 || m2.stats.ambiguous_a9) {
                    acc.viol(Viol::case(
                        format!("C03: input accepted, and its extension by {:?} accepted error-free too although the grammar does not match the extension", t),
                        g,
                        &w,
                        json!({}),
                    ));
                }
            }
        }
    }
    if nontrivial && acc.samples.len() < 2 && acc.evaluations % 211 == 0 {
        acc.samples.push(json!({"grammar": g.show(), "input": buf.text, "has_output": r.has_output, "errors": r.errs.len(), "model_prefix_end": m.prefix_end}));
    }
}

/// The same case through other error types (incl. the zero-sized default) and stream inputs: the
/// has_output / errors contract against the reference acceptance.
fn other_types_and_kinds<'s>(acc: &mut Acc, g: &G, bufs: &'s [Buf]) {
    use chumsky::error::{Cheap, EmptyErr};
    let o = Opts { wrap: false, ..Opts::default() };
    let pe = build::<&str, EmptyErr>(g, o);
    let pc = build::<&str, Cheap>(g, o);
    let ps = build::<StreamK, Rich<char>>(g, o);
    for buf in bufs {
        let m = model_of(g, &buf.chars, true);
        if m.pathological || m.stats.ambiguous_a1 || m.stats.ambiguous_a2 || m.stats.ambiguous_a9 {
            continue;
        }
        let mut judge = |acc: &mut Acc, what: &str, r: Result<RunOut, String>| {
            acc.evaluations += 1;
            contract(acc, g, &buf.chars, what);
            if let Ok(r) = r {
                acc.count("other_type_or_kind_runs", 1);
                if r.has_output != m.out.is_some() {
                    acc.viol(Viol::case(format!("C03: {}: has_output={} but the grammar {} the whole input", what, r.has_output, if m.out.is_some() { "matches" } else { "does not match" }), g, &buf.chars, json!({"via": what})));
                } else if !r.has_output && r.errs.is_empty() {
                    acc.viol(Viol::case(format!("C03: {}: neither output nor errors", what), g, &buf.chars, json!({"via": what})));
                } else if r.has_output && m.em.is_empty() && !r.errs.is_empty() {
                    acc.viol(Viol::case(format!("C03: {}: output with {} unexpected error(s)", what, r.errs.len()), g, &buf.chars, json!({"via": what})));
                }
            }
        };
        judge(acc, "EmptyErr parse()", guarded(|| run_parse(&pe, buf, 0, STEP_BUDGET)));
        judge(acc, "EmptyErr check()", guarded(|| run_check(&pe, buf, 0, STEP_BUDGET)));
        judge(acc, "Cheap check()", guarded(|| run_check(&pc, buf, 0, STEP_BUDGET)));
        judge(acc, "Stream parse()", guarded(|| run_parse(&ps, buf, 0, STEP_BUDGET)));
        judge(acc, "Stream check()", guarded(|| run_check(&ps, buf, 0, STEP_BUDGET)));
    }
}

/// Inputs longer than a stream's 512-token batch: "every token was consumed by the grammar" on
/// &str and on streams over iterators with and without a size hint.
fn long_inputs(acc: &mut Acc) {
    let a = || G::just('a');
    let grammars: Vec<G> = vec![
        G::rep(a(), 0, None, Flav::Vec),
        G::rep(a(), 0, None, Flav::Unit),
        G::rep(G::leaf(Op::Any), 0, None, Flav::Count),
        G::bin(Op::Then, G::rep(a(), 1, None, Flav::Unit), G::un(Op::OrNot, G::just('b'))),
        G::bin(Op::Then, G::rep(G::bin(Op::Or, G::just_seq("ab"), a()), 0, None, Flav::Unit), G::leaf(Op::End)),
        G::bin(Op::Sep, a(), G::just('b')).with(|p| p.flav = Flav::Count),
    ]
    .into_iter()
    .map(|g| g.numbered())
    .collect();
    let mut inputs: Vec<Vec<char>> = vec![];
    for n in [511usize, 512, 513, 600, 1023, 1024, 1025, 1300] {
        let base: Vec<char> = std::iter::repeat('a').take(n).collect();
        inputs.push(base.clone());
        let mut w = base.clone();
        w.push('b');
        inputs.push(w);
        for at in [n - 1, 512.min(n - 1), n / 2] {
            let mut w = base.clone();
            w[at] = 'b';
            inputs.push(w);
            let mut w = base.clone();
            w[at] = 'c';
            inputs.push(w);
        }
        inputs.push((0..n).map(|i| if i % 2 == 0 { 'a' } else { 'b' }).collect());
    }
    let bufs: Vec<Buf> = inputs.iter().map(|w| Buf::new(w)).collect();
    fn on<'s, I: Kind<'s>>(acc: &mut Acc, g: &G, buf: &'s Buf)
    where
        I::Span: Clone + 's,
        Rich<'s, char, I::Span>: ErrK<'s, I>,
    {
        let m = model_of(g, &buf.chars, true);
        if m.pathological {
            acc.pathological += 1;
            return;
        }
        let o = Opts { wrap: false, ..Opts::default() };
        let p = build::<I, Rich<'s, char, I::Span>>(g, o);
        for check in [false, true] {
            acc.evaluations += 1;
            acc.count("long_input_runs", 1);
            let r = guarded(|| if check { run_check(&p, buf, 0, STEP_BUDGET) } else { run_parse(&p, buf, 0, STEP_BUDGET) });
            contract(acc, g, &buf.chars[..8.min(buf.n())], "long input");
            match r {
                Ok(r) => {
                    acc.nontrivial_rand.insert(hash64(format!("long|{}|{}|{}|{}", g.show(), buf.n(), I::NAME, check).as_bytes()));
                    if r.has_output != m.out.is_some() || (!r.has_output && r.errs.is_empty()) {
                        let shown: String = format!("<{} tokens, first non-'a' at {:?}>", buf.n(), buf.chars.iter().position(|c| *c != 'a'));
                        acc.viol(Viol::case(
                            format!("C03: on a {}-token input ({}) through `{}`: {}() has_output={} errors={} but the grammar {} the whole input", buf.n(), shown, I::NAME, if check { "check" } else { "parse" }, r.has_output, r.errs.len(), if m.out.is_some() { "matches" } else { "does not match" }),
                            g,
                            &[],
                            json!({"kind": I::NAME, "tokens": buf.n(), "input_shape": shown}),
                        ));
                    }
                }
                Err(e) => acc.viol(Viol::case(format!("C03: long input through {}: {}", I::NAME, e), g, &[], json!({"kind": I::NAME, "tokens": buf.n()}))),
            }
        }
    }
    for g in &grammars {
        for buf in &bufs {
            on::<&str>(acc, g, buf);
            on::<StreamK>(acc, g, buf);
            on::<CountStreamK>(acc, g, buf);
            on::<BoxedStreamK>(acc, g, buf);
        }
    }
}

/// Reader- and iterator-backed byte inputs (`IoInput`, `Stream<u8>`): a clean accept there means the whole
/// input was matched, i.e. the same grammar cleanly accepts the same bytes as a `&[u8]` slice (where "end of
/// input" is a plain length comparison), in parse and in check mode — in particular after a sub-parser ran
/// into the real end of the reader and was backtracked out of.
fn byte_input_family(acc: &mut Acc, cx: &RunCtx) {
    use super::c10::{u8_grammars, EU};
    use chumsky::input::{IoInput, Stream};
    use chumsky::prelude::{Boxed, SimpleSpan};
    fn clean<'s, I: chumsky::input::ValueInput<'s, Token = u8, Span = chumsky::prelude::SimpleSpan>>(p: &chumsky::prelude::Boxed<'s, 's, I, String, EU<'s>>, input: I, check: bool) -> bool {
        if check {
            let r = p.check(input);
            r.has_output() && !r.has_errors()
        } else {
            let r = p.parse(input);
            r.has_output() && !r.has_errors()
        }
    }
    let alpha: Vec<u8> = b"ab1,(".to_vec();
    let mut inputs: Vec<Vec<u8>> = vec![vec![]];
    let mut frontier: Vec<Vec<u8>> = vec![vec![]];
    for _ in 0..cx.t(5, 6) {
        let mut next = vec![];
        for w in &frontier {
            for c in &alpha {
                let mut v = w.clone();
                v.push(*c);
                next.push(v);
            }
        }
        inputs.extend(next.iter().cloned());
        frontier = next;
    }
    let n_g = u8_grammars::<&[u8]>().len();
    let bacc = for_each_index(inputs.len(), cx.threads, 64, |acc, wi| {
        let w = &inputs[wi];
        for gi in 0..n_g {
            for check in [false, true] {
                let name = u8_grammars::<&[u8]>()[gi].0;
                let whole = match guarded(|| clean(&u8_grammars::<&[u8]>()[gi].1, &w[..], check)) {
                    Ok(b) => b,
                    Err(_) => continue,
                };
                for kind in ["IoInput", "Stream<u8>"] {
                    acc.evaluations += 1;
                    acc.count("byte_input_runs", 1);
                    let got = if kind == "IoInput" {
                        guarded(|| clean(&u8_grammars::<IoInput<std::io::Cursor<Vec<u8>>>>()[gi].1, IoInput::new(std::io::Cursor::new(w.clone())), check))
                    } else {
                        guarded(|| clean(&u8_grammars::<Stream<std::vec::IntoIter<u8>>>()[gi].1, Stream::from_iter(w.clone()), check))
                    };
                    if whole {
                        acc.count("byte_input_clean_accepts", 1);
                    }
                    match got {
                        Ok(g) if g == whole => {}
                        Ok(g) => acc.viol(Viol {
                            weight: 200 + w.len(),
                            what: format!("C03: {}() of [{}] on {:?} supplied as {}: clean accept = {} but the grammar {} the whole input (as &[u8])", if check { "check" } else { "parse" }, name, String::from_utf8_lossy(w), kind, g, if whole { "matches" } else { "does not match" }),
                            detail: json!({"grammar_text": name, "input": String::from_utf8_lossy(w), "kind": kind}),
                        }),
                        Err(e) => acc.viol(Viol { weight: 200 + w.len(), what: format!("C03: [{}] on {:?} supplied as {}: {}", name, String::from_utf8_lossy(w), kind, e), detail: json!({"grammar_text": name, "input": String::from_utf8_lossy(w), "kind": kind}) }),
                    }
                }
            }
        }
    });
    acc.merge(bacc);
}

/// Pratt parsers are grammars too: the bare `atom.pratt(table)` must accept exactly the inputs that the
/// textbook binding-power loop consumes completely (an operator whose operand is missing, or one that a
/// later operator would have to skip over, is *not* consumed by the grammar), `lazy()` exactly those with
/// an expression prefix.
fn pratt_family(acc: &mut Acc, cx: &RunCtx) {
    use crate::prattk::*;
    let syms = ['+', '-', '*'];
    let mut ops: Vec<OpSpec> = vec![];
    for kind in [OpKind::Pre, OpKind::Post, OpKind::InL, OpKind::InR] {
        for &sym in &syms {
            for bp in 0..3u16 {
                ops.push(OpSpec { kind, sym, bp });
            }
        }
    }
    let mut tables: Vec<Vec<OpSpec>> = ops.iter().map(|o| vec![*o]).collect();
    for a in &ops {
        for b in &ops {
            tables.push(vec![*a, *b]);
        }
    }
    // a sample of 3-operator tables
    let mut rng = Rng::derive(cx.seed, 0xC03F, 0);
    for _ in 0..cx.t(300, 3000) {
        tables.push((0..3).map(|_| *rng.pick(&ops)).collect());
    }
    let inputs = all_inputs(&['x', '+', '-', '*'], cx.t(5, 6));
    let bufs: Vec<Buf> = inputs.iter().map(|w| Buf::new(w)).collect();
    let pacc = for_each_index(tables.len(), cx.threads, 4, |acc, ti| {
        let t = &tables[ti];
        for (bi, buf) in bufs.iter().enumerate() {
            let mut r = Ref { w: &buf.chars, t, steps: 0 };
            let e = r.expr(0, 0);
            let whole = matches!(e, Some((_, q)) if q == buf.n());
            let prefix = e.is_some();
            for mode in 0..3u8 {
                if mode > 0 && (bi + ti) % 3 != 0 {
                    continue;
                }
                acc.evaluations += 1;
                acc.count("pratt_family_runs", 1);
                let name = ["parse", "check", "lazy().parse"][mode as usize];
                let ro = run_vec_bare(t, buf, mode);
                CONTRACT_FAIL.with(|c| {
                    if let Some(m) = c.borrow_mut().take() {
                        acc.viol(Viol { weight: 300 + buf.n(), what: format!("C03: result API inconsistent ({} of a Pratt parser): {}", name, m), detail: json!({"grammar_text": show_table(t), "input": buf.text}) });
                    }
                });
                let want = if mode == 2 { prefix } else { whole };
                match ro {
                    Ok(ro) => {
                        let clean = ro.has_output && ro.errs.is_empty();
                        if clean {
                            acc.count("pratt_family_clean_accepts", 1);
                        }
                        if prefix && !whole {
                            acc.count("pratt_family_proper_prefix_expressions", 1);
                            acc.nontrivial_rand.insert(crate::rng::hash64(format!("pratt|{}|{}", show_table(t), buf.text).as_bytes()));
                        }
                        if clean != want || (!ro.has_output && ro.errs.is_empty()) {
                            acc.viol(Viol {
                                weight: 300 + t.len() * 16 + buf.n(),
                                what: format!("C03: {}() of [{}] on {:?}: has_output={} errors={} but the binding-power algorithm {}", name, show_table(t), buf.text, ro.has_output, ro.errs.len(), if mode == 2 { if prefix { "finds an expression prefix" } else { "finds no expression" } } else if whole { "consumes the whole input" } else { "does not consume the whole input" }),
                                detail: json!({"grammar_text": show_table(t), "input": buf.text, "mode": name}),
                            });
                        }
                    }
                    Err(e) if e == "STEP_BUDGET" => acc.inconclusive += 1,
                    Err(e) => acc.viol(Viol { weight: 300 + buf.n(), what: format!("C03: {}() of [{}] on {:?}: {}", name, show_table(t), buf.text, e), detail: json!({"grammar_text": show_table(t), "input": buf.text}) }),
                }
            }
        }
    });
    acc.merge(pacc);
    acc.count("pratt_family_tables", tables.len() as u64);
}

pub fn run(cx: &RunCtx) -> i32 {
    let alpha: Vec<char> = vec!['a', 'b', 'é'];
    let max_len = cx.t(4, 5);
    let inputs = all_inputs(&alpha, max_len);
    let bufs: Vec<Buf> = inputs.iter().map(|w| Buf::new(w)).collect();
    let b = basis();
    let size = cx.t(4, 5);
    let grammars = b.up_to(size);
    let n_enum = grammars.len();
    let alpha_ref = &alpha;
    let mut acc = for_each_index(grammars.len(), cx.threads, 8, |acc, gi| {
        let g = &grammars[gi];
        let p = build::<&str, Rich<char>>(g, Opts::default());
        for buf in &bufs {
            one(acc, g, &p, buf, alpha_ref, true, buf.n() == max_len || gi % 16 == 0);
        }
        if gi % 4 == 0 {
            other_types_and_kinds(acc, g, &bufs);
        }
    });
    let mut lacc = Acc::default();
    long_inputs(&mut lacc);
    acc.merge(lacc);
    acc.count("enumerated_grammars", n_enum as u64);
    let n_rand = cx.t(10_000, 200_000);
    let seed = cx.seed;
    let racc = for_each_index(n_rand, cx.threads, 64, |acc, i| {
        let mut rng = Rng::derive(seed, 0xC03, i as u64);
        let sz = rng.range(size + 1, 10);
        let g = b.random(&mut rng, sz);
        let bufs: Vec<Buf> = (0..4).map(|_| Buf::new(&random_input(&mut rng, &SIGMA, 8))).collect();
        let p = build::<&str, Rich<char>>(&g, Opts::default());
        for buf in &bufs {
            one(acc, &g, &p, buf, alpha_ref, false, true);
        }
    });
    acc.merge(racc);
    pratt_family(&mut acc, cx);
    byte_input_family(&mut acc, cx);
    acc.count("results_checked_against_api_contract", RESULTS_SEEN.with(|c| c.get()));
    finish(
        cx,
        acc,
        Finish {
            rule: format!("every grammar with <= {size} nodes over (C01 core + repetition/separator/fold + validate + recover_with(via_parser|skip_until|skip_then_retry_until)) x every input of length <= {max_len} over {{a,b,é}}: parse(), check() and lazy().parse() each compared with the reference semantics (whole-input match, prefix match); every cleanly accepted input of maximal length (and all lengths for every 16th grammar) is extended by each letter and re-parsed; every ParseResult is run through the accessor-consistency assertions; every 4th grammar also with EmptyErr (parse and check), Cheap (check) and on a Stream input; 6 repetition grammars on inputs of 511..1301 tokens (all 'a', with a 'b' or 'c' at the end / at the 512-token batch boundary / in the middle, alternating) on &str, Stream (exact size hint), Stream over an iterator without size hint and a boxed Stream, parse and check; plus {n_rand} random grammars x 4 random inputs; plus a Pratt family (all operator tables with <= 2 operators over 4 kinds x 3 symbols x 3 powers and a sample of 3-operator tables, bare atom.pratt(table), x all strings over {{x,+,-,*}} up to length {}; parse / check / lazy against the textbook binding-power loop: clean accept iff the loop consumes the whole input, lazy iff it finds an expression prefix); plus 14 byte grammars (shared-prefix choices, lookahead, rewind, recovery, folds) on IoInput and Stream<u8> x all byte strings <= {} over {{a,b,1,',',(}}: clean accept iff the same grammar cleanly accepts the bytes as a &[u8] slice, parse and check; non-trivial = the grammar matches a prefix of a non-empty input", cx.t(5, 6), cx.t(5, 6)),
            exhaustive: false,
            exhaustive_note: format!("grammars <= {size} nodes x inputs <= {max_len}: complete"),
            assumptions: vec!["reference semantics decides 'matches the entire input'".into(), "A1/A2/A9 cases counted as ambiguous".into()],
            require: vec![("other_type_or_kind_runs".into(), 1000), ("long_input_runs".into(), 1000), ("clean_accepts".into(), 100), ("proper_prefix_matches".into(), 100), ("extensions_checked".into(), 100), ("lazy_prefix_accepts".into(), 100), ("accepts_with_errors".into(), 10), ("pratt_family_clean_accepts".into(), 1000), ("byte_input_runs".into(), 10_000), ("byte_input_clean_accepts".into(), 1000), ("pratt_family_proper_prefix_expressions".into(), 1000)],
            min_evaluations: 10_000,
        },
    )
}
