//! C17 — labels and map_err change how a failure is described, never whether or where.
//! (1) differential between real executions: decorated vs undecorated grammar; (2) reference-model
//! monitor for what the decorated grammar reports (label replaces expectations at the first token,
//! inner expectations kept + context further in, map_err applied to exactly its parser's failures).

use crate::classes;
use crate::drv::*;
use crate::ev::*;
use crate::gram::*;
use crate::mk::*;
use crate::model::Outcome;
use crate::par::for_each_index;
use crate::rng::Rng;
use chumsky::error::Rich;
use serde_json::json;

pub fn basis() -> Basis {
    let mut b = classes::k01_core(false);
    b.ctors.extend(classes::rep_light());
    b.ctors.extend(classes::validate_ctors());
    b.ctors.push(ctor(2, |k| G::new(Op::RecVia, k)));
    b
}

/// decoration kinds: 0 = labelled, 1 = labelled.as_context, 2 = map_err
fn decorate(g: &G, at: &[(u32, u8)]) -> G {
    let mut out = g.clone();
    for &(id, kind) in at {
        out = out.wrap_at(id, &|inner: G| {
            let mut w = match kind {
                0 | 1 => G::un(Op::Label, inner),
                _ => G::un(Op::MapErr, inner),
            };
            w.id = 1000 + id * 4 + kind as u32;
            w.p.n = (id % 4) as u8;
            w.p.ok = kind == 1;
            w
        });
    }
    out
}

fn counters(acc: &mut Acc, m: &Outcome, _r: &RunOut) {
    if let Some(p) = &m.pend {
        if m.out.is_none() {
            acc.count("primary_errors_with_label_expectation", p.exp.iter().any(|e| matches!(e, crate::model::Exp::Label(_))) as u64);
            acc.count("primary_errors_with_label_context", p.ctxs.iter().any(|(l, _)| l.starts_with('L')) as u64);
            acc.count("primary_errors_with_map_err_mark", p.ctxs.iter().any(|(l, _)| l.starts_with('M')) as u64);
        }
    }
    acc.count("label_on_success_cases(A8)", m.stats.label_on_success as u64);
}

pub fn spec() -> Spec {
    Spec {
        prop: "C17",
        what: What { value: true, emits: true, primary: true, no_found: true, ..Default::default() },
        nontrivial: |m| m.pend.as_ref().map(|p| !p.ctxs.is_empty() || p.exp.iter().any(|e| matches!(e, crate::model::Exp::Label(_)))).unwrap_or(false) || !m.em.is_empty(),
        amb: |m| m.stats.ambiguous_a1 || m.stats.ambiguous_a2 || m.stats.ambiguous_a9 || m.stats.label_on_success,
        counters,
        signature: no_sig,
        slice: false,
        obs: false,
        also_check: false,
    }
}

/// Does a decoration node (ids >= 1000) have a recovery underneath?
fn recovery_under_decoration(g: &G, under: bool) -> bool {
    let here = under && matches!(g.op, Op::RecVia | Op::RecSkipUntil | Op::RecSkipRetry | Op::RecNested);
    let under = under || (g.id >= 1000 && matches!(g.op, Op::Label | Op::MapErr));
    here || g.kids.iter().any(|k| recovery_under_decoration(k, under))
}

fn differential<'s>(acc: &mut Acc, g: &G, gd: &G, base: &RunOut, dec: &RunOut, buf: &'s Buf, model_agrees: bool) {
    acc.count("differential_comparisons", 1);
    let fail = |acc: &mut Acc, d: String| {
        let mut extra = json!({"undecorated": g.show()});
        // D14: labelled/map_err shelter the pending error, so a recover_with underneath them does not see a
        // deeper failure of an earlier alternative and emits a different recovered error
        if d.contains("changes the span of error") && model_agrees && recovery_under_decoration(gd, false) {
            extra["signature"] = json!("D14-decoration-shelters-recovery");
        }
        acc.viol(Viol::case(format!("C17: {}", d), gd, &buf.chars, extra));
    };
    if base.has_output != dec.has_output {
        return fail(acc, format!("decoration changes acceptance: undecorated has_output={} decorated has_output={}", base.has_output, dec.has_output));
    }
    if let (Some(a), Some(b)) = (&base.out, &dec.out) {
        if a.strip() != b.strip() {
            return fail(acc, format!("decoration changes the output: {} vs {}", a.strip().show(), b.strip().show()));
        }
    }
    if base.errs.len() != dec.errs.len() {
        return fail(acc, format!("decoration changes the number of errors: {} vs {}", base.errs.len(), dec.errs.len()));
    }
    for (i, (a, b)) in base.errs.iter().zip(&dec.errs).enumerate() {
        if a.span != b.span {
            return fail(acc, format!("decoration changes the span of error #{}: {:?} (undecorated: {}) vs {:?} (decorated: {})", i, a.span, a.show(), b.span, b.show()));
        }
    }
    acc.count("errors_compared_pairwise", base.errs.len() as u64);
}

fn subsets(g: &G, rng: Option<&mut Rng>, max: usize) -> Vec<Vec<(u32, u8)>> {
    let ids = g.wrappable_ids();
    let n = ids.len();
    let mut out = vec![];
    match rng {
        None => {
            // every node x every kind alone, plus every non-empty subset with one kind per subset (cycled)
            for mask in 1u32..(1 << n.min(6)) {
                for kind0 in 0..3u8 {
                    let mut v = vec![];
                    let mut j = 0;
                    for (i, id) in ids.iter().enumerate().take(6) {
                        if mask & (1 << i) != 0 {
                            v.push((*id, (kind0 + j) % 3));
                            j += 1;
                        }
                    }
                    out.push(v);
                }
            }
        }
        Some(rng) => {
            for _ in 0..max {
                let mut v = vec![];
                for id in &ids {
                    if rng.chance(1, 3) {
                        v.push((*id, rng.below(3) as u8));
                    }
                }
                if v.is_empty() {
                    v.push((ids[rng.below(n)], rng.below(3) as u8));
                }
                out.push(v);
            }
        }
    }
    out
}

fn one_grammar<'s>(acc: &mut Acc, sp: &Spec, g: &G, decos: &[Vec<(u32, u8)>], bufs: &'s [Buf], enumerated: bool) {
    let base = build::<&str, Rich<char>>(g, Opts::default());
    let base_runs: Vec<Option<RunOut>> = bufs.iter().map(|b| guarded(|| run_parse(&base, b, 0, STEP_BUDGET)).ok()).collect();
    for d in decos {
        let gd = decorate(g, d);
        let p = build::<&str, Rich<char>>(&gd, Opts::default());
        for (buf, br) in bufs.iter().zip(&base_runs) {
            let before = acc.counters.get("disagreements").copied().unwrap_or(0);
            if let Some((_m, r)) = model_case::<&str, Rich<char>>(acc, sp, &gd, &p, buf, enumerated) {
                let model_agrees = acc.counters.get("disagreements").copied().unwrap_or(0) == before;
                if let Some(br) = br {
                    differential(acc, g, &gd, br, &r, buf, model_agrees);
                }
            }
        }
    }
}

pub fn run(cx: &RunCtx) -> i32 {
    let alpha: Vec<char> = vec!['a', 'b', 'é'];
    let max_len = cx.t(4, 5);
    let bufs: Vec<Buf> = all_inputs(&alpha, max_len).iter().map(|w| Buf::new(w)).collect();
    let b = basis();
    let size = cx.t(3, 4);
    let grammars: Vec<G> = b.up_to(size);
    let n_enum = grammars.len();
    let sp = spec();
    let mut acc = for_each_index(grammars.len(), cx.threads, 4, |acc, gi| {
        let g = &grammars[gi];
        let decos = subsets(g, None, 0);
        one_grammar(acc, &sp, g, &decos, &bufs, true);
    });
    acc.count("enumerated_grammars", n_enum as u64);

    // sheltering sweep: decorated parser after an alternative that failed deeper; parser succeeding /
    // failing at its first token / failing further in
    let deep = vec![G::just_seq("abb"), G::bin(Op::Then, G::just('a'), G::bin(Op::Then, G::just('b'), G::just('a')))];
    let inners = vec![
        G::just('a'),
        G::just_seq("ab"),
        G::bin(Op::Then, G::just('a'), G::just('b')),
        G::un(Op::OrNot, G::just('a')),
        G::bin(Op::Then, G::un(Op::OrNot, G::just('b')), G::just('a')),
        G::rep(G::just('a'), 0, None, Flav::Vec),
        G::bin(Op::Or, G::just_seq("ab"), G::just('a')),
        G::un(Op::TryMap, G::leaf(Op::Any)).with(|p| p.pred = Pred::Lacks('b')),
        G::bin(Op::RecVia, G::set(Op::NoneOf, "a"), G::just('a')),
        G::bin(Op::RecVia, G::just_seq("ba"), G::leaf(Op::Any)),
    ];
    let tails = vec![G::leaf(Op::Empty), G::just('b'), G::just('é')];
    let mut shaped = vec![];
    for d in &deep {
        for i in &inners {
            for t in &tails {
                shaped.push(G::new(Op::Choice, vec![d.clone(), G::bin(Op::Then, i.clone(), t.clone())]).numbered());
                shaped.push(G::bin(Op::Then, G::bin(Op::Or, d.clone(), i.clone()), t.clone()).numbered());
                shaped.push(G::bin(Op::Then, G::rep(G::bin(Op::Then, i.clone(), G::just('b')), 0, None, Flav::Vec), t.clone()).numbered());
            }
        }
    }
    let shaped: Vec<G> = shaped.into_iter().filter(|g| g.well_formed()).collect();
    let n_shaped = shaped.len();
    let sacc = for_each_index(shaped.len(), cx.threads, 1, |acc, gi| {
        let g = &shaped[gi];
        let mut rng = Rng::derive(7, 0xC17, gi as u64);
        let mut decos = vec![];
        // every single node x every kind, plus sampled subsets
        g.walk(&mut |n| {
            for k in 0..3u8 {
                decos.push(vec![(n.id, k)]);
            }
        });
        decos.extend(subsets(g, Some(&mut rng), 12));
        one_grammar(acc, &sp, g, &decos, &bufs, true);
    });
    acc.merge(sacc);
    acc.count("sheltering_sweep_grammars", n_shaped as u64);

    let n_rand = cx.t(6_000, 120_000);
    let seed = cx.seed;
    let racc = for_each_index(n_rand, cx.threads, 16, |acc, i| {
        let mut rng = Rng::derive(seed, 0xC17, i as u64);
        let sz = rng.range(size + 1, 11);
        let g = b.random(&mut rng, sz);
        let bufs: Vec<Buf> = (0..5).map(|_| Buf::new(&random_input(&mut rng, &SIGMA_PLUS, 9))).collect();
        let decos = subsets(&g, Some(&mut rng), 4);
        one_grammar(acc, &sp, &g, &decos, &bufs, false);
    });
    acc.merge(racc);
    acc.count("random_grammars", n_rand as u64);

    finish(
        cx,
        acc,
        Finish {
            rule: format!("every grammar with <= {size} nodes over the K02 basis (no not(); with validate emitters and via_parser recovery) x every non-empty subset of its nodes decorated with labelled / labelled.as_context / map_err(span-preserving tag) (3 kind assignments per subset) x every input <= {max_len} over {{a,b,é}}; {n_shaped} sheltering-sweep grammars (decorated parser after an alternative that failed deeper / inside a repetition) with every single-node decoration and 12 sampled subsets; {n_rand} random grammars of {}..11 nodes x 4 sampled subsets x 5 inputs. Each decorated run is compared (1) with the undecorated real run: acceptance, output, number of errors, every error's span and user message; (2) with the reference semantics: label in place of expectations at the first token, inner expectations kept further in, as_context adds (label, start..failure), map_err mark on exactly the failures of its parser. Non-trivial: a label, context or map_err mark is visible in the model's primary error, or the surviving path emitted errors", size + 1),
            exhaustive: false,
            exhaustive_note: format!("grammars <= {size} nodes x all decoration subsets x inputs <= {max_len}: complete"),
            assumptions: vec![
                "A8: a labelled parser that succeeds but leaves a pending failure at its first token is compared leniently (ambiguous)".into(),
                "A4: expected sets and contexts compared as sets; when several failures tie, the implementation keeps the first one's contexts (TODO in Rich::merge)".into(),
            ],
            require: vec![("differential_comparisons".into(), 100_000), ("errors_compared_pairwise".into(), 10_000), ("primary_errors_with_label_expectation".into(), 1000), ("primary_errors_with_label_context".into(), 100), ("primary_errors_with_map_err_mark".into(), 1000)],
            min_evaluations: 10_000,
        },
    )
}
