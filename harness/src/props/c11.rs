//! C11 — memoization is transparent and makes left recursion terminate.
//! (1) differential between real executions: memoized() at every subset of nodes vs the plain
//! grammar (acceptance, outputs, errors), each also against the reference model; (2) statically
//! typed placements (zero-sized, directly nested, adjacent, cloned memoized parsers); (3) left-recursive
//! families in a child process under a logical step budget and an address-space limit.

use crate::classes;
use crate::drv::*;
use crate::ev::*;
use crate::gram::*;
use crate::mk::*;
use crate::obs::Insp;
use crate::par::for_each_index;
use crate::proc::run_child;
use crate::rng::Rng;
use chumsky::error::Rich;
use chumsky::prelude::*;
use chumsky::recursive::Recursive;
use serde_json::json;
use std::time::Duration;

pub fn basis() -> Basis {
    let mut b = classes::k01_core(true);
    b.ctors.extend(classes::rep_light());
    b.ctors.extend(classes::validate_ctors());
    b
}

fn memoize(g: &G, ids: &[u32]) -> G {
    let mut out = g.clone();
    for &id in ids {
        out = out.wrap_at(id, &|inner: G| {
            let mut w = G::un(Op::Memo, inner);
            w.id = 2000 + id;
            w
        });
    }
    out
}

pub fn spec() -> Spec {
    Spec {
        prop: "C11",
        what: What { value: true, emits: true, primary: true, state: true, no_found: true, ..Default::default() },
        nontrivial: |m| m.stats.backtracks > 0,
        amb: |m| m.stats.ambiguous_a1 || m.stats.ambiguous_a2,
        counters: no_counters,
        signature: no_sig,
        slice: false,
        obs: false,
        also_check: true,
    }
}

fn differential(acc: &mut Acc, g: &G, gm: &G, base: &RunOut, memo: &RunOut, buf: &Buf) {
    acc.count("differential_comparisons", 1);
    let d = if base.has_output != memo.has_output {
        Some(format!("memoized() changes acceptance: plain has_output={} memoized has_output={}", base.has_output, memo.has_output))
    } else if base.out.as_ref().map(|v| v.strip()) != memo.out.as_ref().map(|v| v.strip()) {
        Some("memoized() changes the output".to_string())
    } else if base.errs != memo.errs {
        Some(format!(
            "memoized() changes the reported errors: plain {:?} vs memoized {:?}",
            base.errs.iter().map(|e| e.show()).collect::<Vec<_>>(),
            memo.errs.iter().map(|e| e.show()).collect::<Vec<_>>()
        ))
    } else {
        None
    };
    acc.count("error_lists_compared", (!base.errs.is_empty()) as u64);
    if let Some(d) = d {
        acc.viol(Viol::case(format!("C11: {}", d), gm, &buf.chars, json!({"plain": g.show()})));
    }
}

fn subsets(g: &G, rng: Option<&mut Rng>, max: usize) -> Vec<Vec<u32>> {
    let ids = g.wrappable_ids();
    let n = ids.len();
    let mut out = vec![];
    match rng {
        None => {
            for mask in 1u32..(1 << n.min(6)) {
                out.push(ids.iter().enumerate().take(6).filter(|(i, _)| mask & (1 << i) != 0).map(|(_, id)| *id).collect());
            }
        }
        Some(rng) => {
            for _ in 0..max {
                let mut v: Vec<u32> = ids.iter().copied().filter(|_| rng.chance(1, 3)).collect();
                if v.is_empty() {
                    v.push(ids[rng.below(n)]);
                }
                // directly nested placement: the same node memoized twice
                if rng.chance(1, 4) {
                    let x = v[0];
                    v.push(x);
                }
                out.push(v);
            }
        }
    }
    out
}

fn one_grammar<'s>(acc: &mut Acc, sp: &Spec, g: &G, sets: &[Vec<u32>], bufs: &'s [Buf], enumerated: bool) {
    let base = build::<&str, Rich<char>>(g, Opts::default());
    let base_runs: Vec<Option<RunOut>> = bufs.iter().map(|b| guarded(|| run_parse(&base, b, 0, STEP_BUDGET)).ok()).collect();
    for ids in sets {
        let gm = memoize(g, ids);
        let p = build::<&str, Rich<char>>(&gm, Opts::default());
        for (buf, br) in bufs.iter().zip(&base_runs) {
            if let Some((_m, r)) = model_case::<&str, Rich<char>>(acc, sp, &gm, &p, buf, enumerated) {
                if let Some(br) = br {
                    differential(acc, g, &gm, br, &r, buf);
                }
            }
        }
    }
}

// -----------------------------------------------------------------------------------------------
// (2) statically typed placements

type ES<'s> = extra::Err<Rich<'s, char>>;
type BS<'s> = Boxed<'s, 's, &'s str, String, ES<'s>>;

fn render<T: std::fmt::Debug>(t: T) -> String {
    format!("{:?}", t)
}

/// `(name, known-finding signature if any, memoized formulation, plain formulation)`
fn static_pairs<'s>() -> Vec<(&'static str, Option<&'static str>, BS<'s>, BS<'s>)> {
    let a = || just::<_, &str, ES>('a');
    let b = || just::<_, &str, ES>('b');
    vec![
        (
            "zero-sized memoized parsers as alternatives: any().memoized().ignored().or(end().memoized())",
            Some("D6-memo-key-collision"),
            any::<&str, ES>().memoized().ignored().or(end().memoized()).map(render).boxed(),
            any::<&str, ES>().ignored().or(end()).map(render).boxed(),
        ),
        ("directly nested: just('a').memoized().memoized()", Some("D6-memo-key-collision"), a().memoized().memoized().map(render).boxed(), a().map(render).boxed()),
        (
            "first field memoized: just('a').memoized().then(just('b')).memoized()",
            Some("D6-memo-key-collision"),
            a().memoized().then(b()).memoized().map(render).boxed(),
            a().then(b()).map(render).boxed(),
        ),
        (
            "adjacent non-zero-sized: just('a').memoized().then(just('b').memoized()).or(just('a').memoized().then(just('a').memoized()))",
            None,
            a().memoized().then(b().memoized()).or(a().memoized().then(a().memoized())).map(render).boxed(),
            a().then(b()).or(a().then(a())).map(render).boxed(),
        ),
        (
            "cloned memoized parser used twice: m.clone().then(m).or(m2)",
            None,
            {
                let m = a().or(b()).memoized();
                m.clone().then(m.clone()).map(render).or(m.map(render)).boxed()
            },
            {
                let m = a().or(b());
                m.clone().then(m.clone()).map(render).or(m.map(render)).boxed()
            },
        ),
        (
            "memoized inside repetition and choice with shared prefix",
            None,
            a().then(b()).memoized().repeated().collect::<Vec<_>>().then(a().memoized().or_not()).map(render).boxed(),
            a().then(b()).repeated().collect::<Vec<_>>().then(a().or_not()).map(render).boxed(),
        ),
        (
            "memoized alternatives that fail after consuming",
            None,
            choice((a().then(a()).then(b()).memoized().map(render), a().then(a()).memoized().map(render), a().memoized().map(render))).then(any().repeated().collect::<String>()).map(render).boxed(),
            choice((a().then(a()).then(b()).map(render), a().then(a()).map(render), a().map(render))).then(any().repeated().collect::<String>()).map(render).boxed(),
        ),
        (
            "zero-sized memoized in sequence: any().memoized().then(any().memoized())",
            None,
            any::<&str, ES>().memoized().then(any().memoized()).map(render).boxed(),
            any::<&str, ES>().then(any()).map(render).boxed(),
        ),
    ]
}

fn static_family<'s>(acc: &mut Acc, inputs: &'s [String]) {
    let pairs = static_pairs::<'s>();
    for (name, sig, m, p) in &pairs {
        for w in inputs {
            acc.evaluations += 1;
            let run = |q: &BS<'s>| {
                guarded(|| {
                    let r = q.parse(w.as_str());
                    (r.has_output(), r.output().cloned(), r.errors().map(|e| format!("{:?}@{}..{}", e.reason(), e.span().start, e.span().end)).collect::<Vec<_>>())
                })
            };
            let (rm, rp) = (run(m), run(p));
            acc.count("static_placement_cases", 1);
            if matches!(&rp, Ok((true, _, _))) {
                acc.nontrivial_rand.insert(crate::rng::hash64(format!("static|{}|{}", name, w).as_bytes()));
            }
            if rm != rp {
                let mut detail = json!({"placement": name, "input": w, "grammar_text": name});
                if let Some(s) = sig {
                    detail["signature"] = json!(s);
                }
                acc.viol(Viol { weight: name.len() + w.len(), what: format!("C11: statically typed placement [{}] on {:?}: memoized {:?} vs plain {:?}", name, w, rm, rp), detail });
            }
        }
    }
}


/// Adjacent small memoized parsers (array / tuple elements, a few bytes apart) over *long* inputs with
/// many survived failures: a memo key that is not injective in (position, parser) lets a failure
/// remembered for one parser at one position be replayed for a neighbour at another position.
fn static_long_pairs<'s>() -> Vec<(&'static str, BS<'s>, BS<'s>)> {
    let j = |c: char| just::<_, &str, ES>(c);
    let js = |c: &'static str| just::<_, &str, ES>(c);
    vec![
        (
            "choice([a, b, c, d].map(memoized)).repeated().collect()",
            choice([j('a').memoized(), j('b').memoized(), j('c').memoized(), j('d').memoized()]).repeated().collect::<String>().boxed(),
            choice([j('a'), j('b'), j('c'), j('d')]).repeated().collect::<String>().boxed(),
        ),
        (
            "choice((d.memoized(), c.memoized(), b.memoized(), a.memoized())).repeated().collect()",
            choice((j('d').memoized(), j('c').memoized(), j('b').memoized(), j('a').memoized())).repeated().collect::<String>().boxed(),
            choice((j('d'), j('c'), j('b'), j('a'))).repeated().collect::<String>().boxed(),
        ),
        (
            "choice([\"ab\", \"ac\", \"ba\", \"cd\", \"dd\"].map(memoized)).or(none_of(\"z\").to_slice().memoized()).repeated()",
            choice([js("ab").memoized(), js("ac").memoized(), js("ba").memoized(), js("cd").memoized(), js("dd").memoized()]).or(none_of("z").to_slice().memoized()).repeated().collect::<Vec<&str>>().map(render).boxed(),
            choice([js("ab"), js("ac"), js("ba"), js("cd"), js("dd")]).or(none_of("z").to_slice()).repeated().collect::<Vec<&str>>().map(render).boxed(),
        ),
        (
            "none_of(\"z\").memoized().then(group((a?, b?, c?, d?)) each memoized).repeated()",
            none_of::<_, &str, ES>("z").memoized().then(group((j('a').memoized().or_not(), j('b').memoized().or_not(), j('c').memoized().or_not(), j('d').memoized().or_not()))).repeated().collect::<Vec<_>>().map(render).boxed(),
            none_of::<_, &str, ES>("z").then(group((j('a').or_not(), j('b').or_not(), j('c').or_not(), j('d').or_not()))).repeated().collect::<Vec<_>>().map(render).boxed(),
        ),
        (
            "choice([a, b, c].map(memoized)) recover_with(via_parser(any)) separated_by(d.memoized()).allow_trailing()",
            choice([j('a').memoized(), j('b').memoized(), j('c').memoized()]).recover_with(via_parser(any().map(|c: char| c.to_ascii_uppercase()))).separated_by(j('d').memoized()).allow_trailing().collect::<String>().boxed(),
            choice([j('a'), j('b'), j('c')]).recover_with(via_parser(any().map(|c: char| c.to_ascii_uppercase()))).separated_by(j('d')).allow_trailing().collect::<String>().boxed(),
        ),
    ]
}

fn static_long_family<'s>(acc: &mut Acc, inputs: &'s [String]) {
    let pairs = static_long_pairs::<'s>();
    for (name, m, p) in &pairs {
        for w in inputs {
            acc.evaluations += 1;
            let run = |q: &BS<'s>| {
                guarded(|| {
                    let r = q.parse(w.as_str());
                    (r.has_output(), r.output().cloned(), r.errors().map(|e| format!("{:?}@{}..{}", e.reason(), e.span().start, e.span().end)).collect::<Vec<_>>())
                })
            };
            let (rm, rp) = (run(m), run(p));
            acc.count("static_long_placement_cases", 1);
            if matches!(&rp, Ok((true, _, _))) {
                acc.nontrivial_rand.insert(crate::rng::hash64(format!("staticlong|{}|{}", name, w).as_bytes()));
            }
            if rm != rp {
                acc.viol(Viol { weight: name.len() + w.len(), what: format!("C11: adjacent memoized parsers [{}] on {:?}: memoized {:?} vs plain {:?}", name, w, rm, rp), detail: json!({"placement": name, "input": w, "grammar_text": name}) });
            }
        }
    }
}

// -----------------------------------------------------------------------------------------------
// (3) left recursion (child process)

type EL<'s> = extra::Full<Rich<'s, char>, Insp, ()>;

fn leftrec_shapes<'s>() -> Vec<(&'static str, Boxed<'s, 's, &'s str, String, EL<'s>>)> {
    let atom = || just::<_, &str, EL>('x').map(|c: char| c.to_string());
    let op = || one_of::<_, &str, EL>("+y");
    let mut v: Vec<(&'static str, Boxed<&str, String, EL>)> = vec![];
    {
        let mut expr = Recursive::declare();
        expr.define(expr.clone().then(op()).then(atom()).map(|((l, o), r): ((String, char), String)| format!("({}{}{})", l, o, r)).memoized().or(atom()));
        v.push(("expr = (expr op atom).memoized() | atom", expr.boxed()));
    }
    {
        let mut expr = Recursive::declare();
        expr.define(expr.clone().then(op()).then(atom()).map(|((l, o), r): ((String, char), String)| format!("({}{}{})", l, o, r)).or(atom()).memoized());
        v.push(("expr = (expr op atom | atom).memoized()", expr.boxed()));
    }
    v.push((
        "recursive(|e| e.memoized() op atom | atom)",
        recursive(|e| e.memoized().then(op()).then(atom()).map(|((l, o), r): ((String, char), String)| format!("({}{}{})", l, o, r)).or(atom())).boxed(),
    ));
    {
        // the cycle passes through a context boundary (with_ctx swaps the context, not the memo table)
        let mut expr = Recursive::declare();
        expr.define(expr.clone().with_ctx(()).then(op()).then(atom()).map(|((l, o), r): ((String, char), String)| format!("({}{}{})", l, o, r)).memoized().or(atom()));
        v.push(("expr = (expr.with_ctx(()) op atom).memoized() | atom", expr.boxed()));
    }
    {
        let mut expr = Recursive::declare();
        expr.define(empty().ignore_with_ctx(expr.clone()).then(op()).then(atom()).map(|((l, o), r): ((String, char), String)| format!("({}{}{})", l, o, r)).memoized().or(atom()));
        v.push(("expr = (empty().ignore_with_ctx(expr) op atom).memoized() | atom", expr.boxed()));
    }
    {
        let mut expr = Recursive::declare();
        expr.define(empty().then_with_ctx(expr.clone()).map(|(_, e): ((), String)| e).then(op()).then(atom()).map(|((l, o), r): ((String, char), String)| format!("({}{}{})", l, o, r)).or(atom()).memoized());
        v.push(("expr = (empty().then_with_ctx(expr) op atom | atom).memoized()", expr.boxed()));
    }
    {
        // mutual: a = b.memoized() '+' | 'x' ; b = a 'y' | 'x'
        let mut a = Recursive::declare();
        let mut b = Recursive::declare();
        a.define(b.clone().memoized().then(just('+')).map(|(l, _): (String, char)| format!("[{}+]", l)).or(atom()));
        b.define(a.clone().then(just('y')).map(|(l, _): (String, char)| format!("<{}y>", l)).or(atom()));
        v.push(("a = b.memoized() '+' | x ; b = a 'y' | x", a.boxed()));
    }
    {
        let mut expr = Recursive::declare();
        expr.define(choice((
            expr.clone().then(just('+')).then(expr.clone()).map(|((l, _), r): ((String, char), String)| format!("({}+{})", l, r)).memoized(),
            expr.clone().then(just('y')).map(|(l, _): (String, char)| format!("({}y)", l)).memoized(),
            atom(),
        )));
        v.push(("expr = (expr + expr).memoized() | (expr y).memoized() | atom", expr.boxed()));
    }
    v
}

/// Runs in the child: every shape x every input over {x,+,y} up to `max_len`.
pub fn child_leftrec(max_len: usize) -> i32 {
    let inputs: Vec<String> = all_inputs(&['x', '+', 'y'], max_len).iter().map(|w| w.iter().collect()).collect();
    let shapes = leftrec_shapes();
    let (mut cases, mut accepted, mut max_steps) = (0u64, 0u64, 0u64);
    let mut samples = vec![];
    for (name, p) in &shapes {
        for w in &inputs {
            let mut st = Insp::with_budget(0, STEP_BUDGET);
            let r = guarded(|| {
                let r = p.parse_with_state(w.as_str(), &mut st);
                let n = r.errors().len();
                (r.has_output(), r.output().cloned(), n)
            });
            match r {
                Ok((has, out, nerr)) => {
                    cases += 1;
                    accepted += has as u64;
                    max_steps = max_steps.max(st.steps.get());
                    if !has && nerr == 0 {
                        println!("{}", json!({"fail": "no output and no errors", "shape": name, "input": w}));
                        return 4;
                    }
                    if has && w.len() >= 5 && samples.len() < 4 {
                        samples.push(json!({"shape": name, "input": w, "output": out}));
                    }
                }
                Err(e) => {
                    println!("{}", json!({"fail": e, "shape": name, "input": w}));
                    return 4;
                }
            }
        }
    }
    println!("{}", json!({"ok": true, "cases": cases, "accepted": accepted, "max_steps": max_steps, "shapes": shapes.len(), "samples": samples}));
    0
}

pub fn run(cx: &RunCtx) -> i32 {
    let alpha: Vec<char> = vec!['a', 'b', 'é'];
    let max_len = cx.t(4, 5);
    let bufs: Vec<Buf> = all_inputs(&alpha, max_len).iter().map(|w| Buf::new(w)).collect();
    let b = basis();
    let size = cx.t(4, 5);
    let grammars: Vec<G> = b.up_to(size);
    let n_enum = grammars.len();
    let sp = spec();
    let mut acc = for_each_index(grammars.len(), cx.threads, 4, |acc, gi| {
        let g = &grammars[gi];
        one_grammar(acc, &sp, g, &subsets(g, None, 0), &bufs, true);
    });
    acc.count("enumerated_grammars", n_enum as u64);

    let n_rand = cx.t(8_000, 160_000);
    let seed = cx.seed;
    let mut rb = basis();
    rb.ctors.extend(classes::recover_ctors());
    rb.ctors.extend(classes::fold_ctors());
    let racc = for_each_index(n_rand, cx.threads, 16, |acc, i| {
        let mut rng = Rng::derive(seed, 0xC11, i as u64);
        let sz = rng.range(size + 1, 12);
        let g = rb.random(&mut rng, sz);
        let bufs: Vec<Buf> = (0..5).map(|_| Buf::new(&random_input(&mut rng, &SIGMA_PLUS, 9))).collect();
        one_grammar(acc, &sp, &g, &subsets(&g, Some(&mut rng), 4), &bufs, false);
    });
    acc.merge(racc);
    acc.count("random_grammars", n_rand as u64);

    // (2)
    let st_inputs: Vec<String> = all_inputs(&['a', 'b'], cx.t(4, 6)).iter().map(|w| w.iter().collect()).collect();
    let mut sacc = Acc::default();
    static_family(&mut sacc, &st_inputs);
    acc.merge(sacc);
    let long_inputs: Vec<String> = {
        let mut v: Vec<String> = all_inputs(&['a', 'b', 'c', 'd'], cx.t(7, 8)).iter().map(|w| w.iter().collect()).collect();
        let mut rng = Rng::derive(seed, 0xC11B, 0);
        for _ in 0..cx.t(4000, 80_000) {
            v.push(random_input(&mut rng, &['a', 'b', 'c', 'd', 'd', 'é'], 48).iter().collect());
        }
        v
    };
    const LCH: usize = 1024;
    let lacc = for_each_index((long_inputs.len() + LCH - 1) / LCH, cx.threads, 1, |acc, ci| {
        static_long_family(acc, &long_inputs[ci * LCH..((ci + 1) * LCH).min(long_inputs.len())]);
    });
    acc.merge(lacc);

    // (3)
    let lr_len = cx.t(7, 9);
    let c = run_child(&["c11-leftrec".into(), lr_len.to_string()], Duration::from_secs(cx.t(600, 3600)), 8 << 20);
    acc.count("left_recursion_child_runs", 1);
    let summary = c.stdout.lines().last().and_then(|l| serde_json::from_str::<serde_json::Value>(l).ok());
    match (&summary, c.timed_out) {
        (_, true) => {
            acc.inconclusive += 1;
            eprintln!("C11: left-recursion child killed by the wall-clock watchdog: {}", c.describe());
        }
        (Some(s), false) if s["ok"] == true && c.code == Some(0) => {
            acc.evaluations += s["cases"].as_u64().unwrap_or(0);
            acc.count("left_recursive_parses_returned", s["cases"].as_u64().unwrap_or(0));
            acc.count("left_recursive_parses_accepted", s["accepted"].as_u64().unwrap_or(0));
            acc.maxc("max_steps_of_a_left_recursive_parse", s["max_steps"].as_u64().unwrap_or(0));
            if let Some(xs) = s["samples"].as_array() {
                for x in xs.iter().take(2) {
                    acc.samples.push(x.clone());
                }
            }
        }
        (Some(s), false) if s.get("fail").is_some() => {
            acc.viol(Viol {
                weight: 10,
                what: format!("C11: left-recursive grammar with a memoized recursive step did not return a result: {} [{} on {:?}]", s["fail"], s["shape"], s["input"]),
                detail: json!({"shape": s["shape"], "input": s["input"], "grammar_text": s["shape"], "fail": s["fail"]}),
            });
        }
        _ => {
            acc.viol(Viol {
                weight: 10,
                what: format!("C11: the process parsing left-recursive memoized grammars died: {}", c.describe()),
                detail: json!({"child": c.describe(), "grammar_text": "left-recursive family", "input": format!("all inputs <= {} over {{x,+,y}}", lr_len)}),
            });
        }
    }

    finish(
        cx,
        acc,
        Finish {
            rule: format!("(1) every grammar with <= {size} nodes over the K02 basis (with validate emitters) x every non-empty subset of its nodes wrapped in memoized() x every input <= {max_len} over {{a,b,é}}: acceptance, output and the complete Rich error list must equal the plain grammar's (real vs real), and each memoized run is also compared with the reference model; {n_rand} random grammars (also recovery and folds) x 4 sampled subsets (incl. the same node memoized twice) x 5 inputs; (2) 8 statically typed placements (zero-sized memoized parsers as alternatives and in sequence, directly nested, first-field, adjacent, cloned, in repetitions) x all inputs <= {} over {{a,b}} against their plain formulation, and 5 placements of adjacent small memoized parsers (array and tuple elements of choice / group, a few bytes apart, with recovery and separators) x all inputs <= {} over {{a,b,c,d}} + random inputs <= 48 tokens ({} inputs; many survived failures per parse); (3) 8 left-recursive shapes (memoized at the recursive step, around the whole body, at the reference, through with_ctx / ignore_with_ctx / then_with_ctx boundaries, mutual, doubly recursive) x all inputs <= {lr_len} over {{x,+,y}} in a child process with a 10^7 logical-step budget per parse and an 8 GiB address-space limit: every parse must return a ParseResult. Non-trivial: the reference evaluation backtracked / the plain static formulation accepts / the left-recursive parse returned", cx.t(4, 6), cx.t(7, 8), long_inputs.len()),
            exhaustive: false,
            exhaustive_note: format!("grammars <= {size} nodes x all memoized() subsets x inputs <= {max_len}: complete"),
            assumptions: vec![
                "for left-recursive grammars only termination is judged (the statement does not say which inputs they accept); outputs are recorded in the evidence samples".into(),
                "the boxed builder gives every node its own allocation, so memo-key collisions by address (known finding D6) are only reachable through the statically typed placements".into(),
            ],
            require: vec![("differential_comparisons".into(), 100_000), ("error_lists_compared".into(), 10_000), ("static_placement_cases".into(), 100), ("static_long_placement_cases".into(), 10_000), ("left_recursive_parses_returned".into(), 1000), ("left_recursive_parses_accepted".into(), 10)],
            min_evaluations: 10_000,
        },
    )
}
