//! C20 — parsing is total: every input yields a `ParseResult`; never a panic, hang or crash; failure
//! is reported through the error list, also under map_err / recover_with / labelled / memoized.
//!
//! All work runs in child processes (`cvh child c20 ...`), one shard per core, so that an abort, a
//! stack overflow or a runaway allocation kills a child and not the check.  Each child
//!   * catches panics per case (`guarded`),
//!   * counts logical steps in an `Inspector` (budget => diverging loop that still saves/rewinds),
//!   * runs a monitor thread that watches the *CPU time* spent on the current case (a spinning loop
//!     that never reaches a hook), naming the case before exiting,
//!   * prints a progress marker per work unit so that the parent can re-run the unit that was being
//!     executed when a child died, in trace mode, and name the case.
//! The parent's wall-clock watchdog alone is `inconclusive`.

use crate::classes;
use crate::drv::*;
use crate::ev::*;
use crate::gram::*;
use crate::mk::*;
use crate::obs::Steps;
use crate::proc::{run_children, ChildOut};
use crate::rng::Rng;
use chumsky::error::{Cheap, EmptyErr, Rich, Simple};
use chumsky::prelude::*;
use serde_json::{json, Value};
use std::sync::atomic::{AtomicBool, AtomicU64, Ordering};
use std::sync::Mutex;
use std::time::Duration;

// -----------------------------------------------------------------------------------------------
// Current-case bookkeeping (child process)

static CASE_NO: AtomicU64 = AtomicU64::new(0);
static TRACE_MODE: AtomicBool = AtomicBool::new(false);
static CUR_G: Mutex<String> = Mutex::new(String::new());
static CUR_I: Mutex<String> = Mutex::new(String::new());
static LAST_PANIC: Mutex<String> = Mutex::new(String::new());
/// CPU seconds one case may take before the monitor declares a hang (normal: microseconds .. 2 s)
static HANG_CPU_S: AtomicU64 = AtomicU64::new(25);

pub fn set_grammar(desc: String) {
    *CUR_G.lock().unwrap() = desc;
}
pub fn set_input(s: &str) {
    {
        let mut c = CUR_I.lock().unwrap();
        c.clear();
        c.push_str(s);
    }
    CASE_NO.fetch_add(1, Ordering::Relaxed);
    if TRACE_MODE.load(Ordering::Relaxed) {
        eprintln!("CASE {}", json!({"grammar": *CUR_G.lock().unwrap(), "input": s}));
    }
}

fn cpu_ticks() -> u64 {
    // utime + stime of the whole process, in clock ticks (100/s on Linux)
    std::fs::read_to_string("/proc/self/stat")
        .ok()
        .and_then(|s| {
            let rest = s.rsplit_once(')')?.1.to_string();
            let f: Vec<&str> = rest.split_whitespace().collect();
            Some(f.get(11)?.parse::<u64>().ok()? + f.get(12)?.parse::<u64>().ok()?)
        })
        .unwrap_or(0)
}

/// Monitor thread: if the case counter does not move while the process burns `HANG_CPU_S` CPU
/// seconds, print the case and exit with code 5.
pub fn start_hang_monitor() {
    std::thread::spawn(|| {
        let mut last_case = u64::MAX;
        let mut cpu_at_change = cpu_ticks();
        loop {
            std::thread::sleep(Duration::from_millis(500));
            let c = CASE_NO.load(Ordering::Relaxed);
            let cpu = cpu_ticks();
            if c != last_case {
                last_case = c;
                cpu_at_change = cpu;
            } else if cpu.saturating_sub(cpu_at_change) >= HANG_CPU_S.load(Ordering::Relaxed) * 100 {
                let g = CUR_G.try_lock().map(|g| g.clone()).unwrap_or_default();
                let i = CUR_I.try_lock().map(|g| g.clone()).unwrap_or_default();
                println!("{}", json!({"hang": {"grammar": g, "input": i, "cpu_s": (cpu - cpu_at_change) / 100}}));
                std::process::exit(5);
            }
        }
    });
}

// -----------------------------------------------------------------------------------------------
// Judging one run

fn take_contract_fail() -> Option<String> {
    CONTRACT_FAIL.with(|c| c.borrow_mut().take())
}

pub struct Tot {
    pub wrapper: &'static str,
}

fn judge_total<'s, I: Kind<'s>>(acc: &mut Acc, g: &G, buf: &Buf, et: &str, mode: &str, tot: &Tot, r: Result<RunOut, String>)
where
    I::Span: Clone + 's,
{
    acc.evaluations += 1;
    let extra = || json!({"kind": I::NAME, "error_type": et, "mode": mode, "wrapper": tot.wrapper});
    match r {
        Ok(r) => {
            if !r.has_output {
                acc.count("rejecting_runs", 1);
                acc.count(&format!("rejecting_runs_{}", et), 1);
                if !tot.wrapper.is_empty() {
                    acc.count(&format!("rejecting_runs_under_{}", tot.wrapper), 1);
                }
                acc.nontrivial_enum += 1;
                if r.errs.is_empty() {
                    acc.viol(Viol::case(format!("C20: {}() returned no output and an empty error list ({} errors)", mode, et), g, &buf.chars, extra()));
                }
                if !tot.wrapper.is_empty() && buf.n() >= 2 {
                    acc.sample(50_021, || json!({"grammar": g.show(), "input": buf.text, "error_type": et, "mode": mode, "wrapper": tot.wrapper, "has_output": false, "errors_reported": r.errs.len(), "logical_steps": r.steps}));
                }
            }
            if let Some(c) = take_contract_fail() {
                acc.viol(Viol::case(format!("C20: ParseResult contract: {}", c), g, &buf.chars, extra()));
            }
            if !g.has_op(Op::NestedIn) {
                for e in &r.errs {
                    if let Some(d) = crate::cmp::span_wf::<I>(buf, e.span) {
                        acc.viol(Viol::case(format!("C20: reported error span is out of bounds or inside a character: {}", d), g, &buf.chars, extra()));
                        break;
                    }
                }
            }
            acc.maxc("max_steps_of_one_parse", r.steps);
        }
        Err(e) if e == "STEP_BUDGET" => {
            let m = model_of(g, &buf.chars, true);
            if m.pathological {
                acc.pathological += 1;
            } else {
                acc.viol(Viol::case(
                    format!("C20: {}() exceeded {} logical steps (next/save/rewind) on {} tokens where the reference semantics terminates within {} steps", mode, STEP_BUDGET, buf.n(), MODEL_BUDGET),
                    g,
                    &buf.chars,
                    extra(),
                ));
            }
        }
        Err(e) => {
            take_contract_fail();
            acc.count("panics", 1);
            acc.viol(Viol::case(format!("C20: {}() panicked with {} errors: {}", mode, et, e), g, &buf.chars, {
                let mut x = extra();
                x["panic"] = json!(e);
                x
            }));
        }
    }
}

/// Other input kinds: Rich errors only.
fn rich_only<'s, I: Kind<'s>>(acc: &mut Acc, g: &G, bufs: &'s [Buf], tot: &Tot)
where
    I::Span: Clone + 's,
    Rich<'s, char, I::Span>: ErrK<'s, I>,
{
    let p = match guarded(|| build::<I, Rich<'s, char, I::Span>>(g, Opts { wrap: false, slice: false, obs: false, track: false, clone_iter: false })) {
        Ok(p) => p,
        Err(e) => {
            acc.viol(Viol::case(format!("C20: constructing the parser panicked: {}", e), g, &[], json!({"error_type": "Rich", "kind": I::NAME})));
            return;
        }
    };
    for buf in bufs {
        set_input(&buf.text);
        judge_total::<I>(acc, g, buf, "Rich", "parse", tot, guarded(|| run_parse(&p, buf, 0, STEP_BUDGET)));
        judge_total::<I>(acc, g, buf, "Rich", "check", tot, guarded(|| run_check(&p, buf, 0, STEP_BUDGET)));
    }
}

fn all_types<'s>(acc: &mut Acc, g: &G, bufs: &'s [Buf], tot: &Tot, types: u8) {
    type I<'s> = &'s str;
    macro_rules! ty {
        ($t:ty, $name:expr) => {{
            let p = match guarded(|| build::<I<'s>, $t>(g, Opts { wrap: false, slice: false, obs: false, track: false, clone_iter: false })) {
                Ok(p) => p,
                Err(e) => {
                    acc.viol(Viol::case(format!("C20: constructing the parser panicked: {}", e), g, &[], json!({"error_type": $name})));
                    return;
                }
            };
            for buf in bufs {
                set_input(&buf.text);
                judge_total::<I<'s>>(acc, g, buf, $name, "parse", tot, guarded(|| run_parse(&p, buf, 0, STEP_BUDGET)));
                judge_total::<I<'s>>(acc, g, buf, $name, "check", tot, guarded(|| run_check(&p, buf, 0, STEP_BUDGET)));
            }
        }};
    }
    if types & 1 != 0 {
        ty!(EmptyErr, "EmptyErr");
    }
    if types & 2 != 0 {
        ty!(Rich<'s, char>, "Rich");
    }
    if types & 4 != 0 {
        ty!(Cheap, "Cheap");
    }
    if types & 8 != 0 {
        ty!(Simple<'s, char>, "Simple");
    }
}

// -----------------------------------------------------------------------------------------------
// Part "sat": wrapper saturation over an enumerated class

pub fn sat_basis() -> Basis {
    let mut b = classes::k01_core(false);
    b.leaves.push(G::leaf(Op::Custom).with(|p| {
        p.n = 1;
        p.ok = false
    }));
    b.ctors.extend(classes::rep_light());
    b.ctors.extend(classes::fold_ctors());
    // fixed-size collection that can run short without an item failing (upper bound below the array length)
    for (lo, hi, flav) in [(0u8, Some(1u8), Flav::Arr2), (1, Some(2), Flav::Arr3), (0, None, Flav::Arr2), (0, Some(2), Flav::Vec)] {
        b.ctors.push(ctor(1, move |mut k| G::rep(k.remove(0), lo, hi, flav)));
    }
    b.ctors.push(ctor(2, |k| G::new(Op::GroupArr, k)));
    // a choice over a list that is empty at run time (e.g. an empty keyword table): always fails
    b.leaves.push(G::new(Op::Choice, vec![]));
    b
}

type Wr = (&'static str, fn(G) -> G);

fn w_map_err(g: G) -> G {
    G::un(Op::MapErr, g)
}
fn w_label(g: G) -> G {
    G::un(Op::Label, g).with(|p| {
        p.n = 0;
        p.ok = false
    })
}
fn w_label_ctx(g: G) -> G {
    G::un(Op::Label, g).with(|p| {
        p.n = 1;
        p.ok = true
    })
}
fn w_memo(g: G) -> G {
    G::un(Op::Memo, g)
}
fn w_rec_empty(g: G) -> G {
    G::bin(Op::RecVia, g, G::leaf(Op::Empty))
}
fn w_rec_any(g: G) -> G {
    G::bin(Op::RecVia, g, G::leaf(Op::Any))
}
fn w_rec_fail(g: G) -> G {
    G::bin(Op::RecVia, g, G::just('c'))
}
fn w_skip_until(g: G) -> G {
    G::new(Op::RecSkipUntil, vec![g, G::leaf(Op::Any), G::just('b')])
}
fn w_skip_retry(g: G) -> G {
    G::new(Op::RecSkipRetry, vec![g, G::leaf(Op::Any), G::leaf(Op::End)])
}
fn w_nested(g: G) -> G {
    G::un(Op::RecNested, g)
}

pub const WRAPPERS: &[Wr] = &[
    ("map_err", w_map_err),
    ("labelled", w_label),
    ("labelled_as_context", w_label_ctx),
    ("memoized", w_memo),
    ("recover_via_empty", w_rec_empty),
    ("recover_via_any", w_rec_any),
    ("recover_via_failing", w_rec_fail),
    ("recover_skip_until", w_skip_until),
    ("recover_skip_then_retry_until", w_skip_retry),
    ("recover_nested_delimiters", w_nested),
];

fn wrap_with(g: &G, id: u32, ws: &[Wr]) -> Option<G> {
    let w = g.wrap_at(id, &|inner: G| {
        let mut x = inner;
        for (_, f) in ws {
            x = f(x);
        }
        x
    });
    let w = w.numbered();
    if w.well_formed() {
        Some(w)
    } else {
        None
    }
}

fn unit_sat<'s>(acc: &mut Acc, g: &G, bufs: &'s [Buf], stacked: bool) {
    set_grammar(g.show());
    all_types(acc, g, bufs, &Tot { wrapper: "" }, 15);
    for id in g.wrappable_ids() {
        for w in WRAPPERS {
            if let Some(gw) = wrap_with(g, id, &[*w]) {
                set_grammar(gw.show());
                acc.count("wrapped_variants", 1);
                all_types(acc, &gw, bufs, &Tot { wrapper: w.0 }, 15);
            }
        }
        if stacked {
            // two wrappers around the same node (the pending-error hand-over between them)
            for (a, b) in [(3usize, 0usize), (0, 3), (4, 0), (0, 4), (1, 5), (5, 1), (3, 5), (5, 3), (7, 0), (8, 3), (6, 0), (0, 6)] {
                if let Some(gw) = wrap_with(g, id, &[WRAPPERS[a], WRAPPERS[b]]) {
                    set_grammar(gw.show());
                    acc.count("doubly_wrapped_variants", 1);
                    all_types(acc, &gw, bufs, &Tot { wrapper: "two_wrappers" }, 3);
                }
            }
        }
    }
}

// -----------------------------------------------------------------------------------------------
// Part "rand": broad random class on hostile inputs, four input kinds

pub const HOSTILE: &[char] = &[
    'a', 'b', 'c', 'a', 'b', 'z', 'A', '_', '0', '1', '9', ' ', '\t', '\n', '\r', '\u{b}', '\u{c}', '\u{85}', '\u{2028}', '\u{2029}', '\0', 'é', 'ß', '𝄞', '\u{301}', '\u{200d}', '🇦', '🇧', '\u{fffd}',
    '\u{10ffff}', '\u{d7ff}', '\u{e000}', '(', ')', '[', ']', '{', '}', '"', '\\', ',', '+', '-', '👩', '\u{1f3fd}', 'ｘ', '\u{7f}', '\u{80}', '\u{7ff}', '\u{800}', '\u{ffff}', '\u{10000}',
];

fn hostile_input(rng: &mut Rng, max: usize) -> Vec<char> {
    let n = match rng.below(8) {
        0 => 0,
        1 => 1,
        _ => rng.range(0, max),
    };
    let narrow = rng.chance(1, 2);
    (0..n)
        .map(|_| if narrow && rng.chance(3, 4) { *rng.pick(&SIGMA_PLUS) } else if rng.chance(1, 12) { char::from_u32(rng.below(0x11_0000) as u32).unwrap_or('\u{fffd}') } else { *rng.pick(HOSTILE) })
        .collect()
}

pub fn rand_basis() -> Basis {
    let mut b = super::c04::basis();
    b.leaves.push(G::leaf(Op::Custom).with(|p| {
        p.n = 1;
        p.ok = false
    }));
    b.leaves.push(G::just('𝄞'));
    b.leaves.push(G::just_seq("é\u{301}"));
    b.leaves.push(G::set(Op::NoneOf, "a\0"));
    b.leaves.push(G::new(Op::Choice, vec![]));
    for (lo, hi, flav) in [(0u8, Some(1u8), Flav::Arr2), (1, Some(2), Flav::Arr3), (0, Some(2), Flav::Arr3)] {
        b.ctors.push(ctor(1, move |mut k| G::rep(k.remove(0), lo, hi, flav)));
    }
    b
}

fn unit_rand(acc: &mut Acc, b: &Basis, seed: u64, i: usize) {
    let mut rng = Rng::derive(seed, 0xC20, i as u64);
    let sz = rng.range(3, 14);
    let mut g = b.random(&mut rng, sz);
    // wrapper saturation on the random grammar as well: one or two nodes get 1-2 wrappers
    for _ in 0..rng.range(0, 2) {
        let ids = g.wrappable_ids();
        let id = ids[rng.below(ids.len())];
        let k = rng.range(1, 2);
        let ws: Vec<Wr> = (0..k).map(|_| *rng.pick(WRAPPERS)).collect();
        if let Some(gw) = wrap_with(&g, id, &ws) {
            g = gw;
        }
    }
    let g = g.numbered();
    if !g.well_formed() {
        return;
    }
    set_grammar(g.show());
    acc.count("random_grammars", 1);
    let mut bufs: Vec<Buf> = (0..6).map(|_| Buf::new(&hostile_input(&mut rng, 24))).collect();
    // truncations of one input: every prefix
    let long = hostile_input(&mut rng, 10);
    for k in 0..long.len() {
        bufs.push(Buf::new(&long[..k]));
    }
    let tot = Tot { wrapper: "" };
    let types = if i % 2 == 0 { 15 } else { 3 };
    all_types(acc, &g, &bufs, &tot, types);
    let value_only = !g.has_op(Op::NestedIn);
    match i % 4 {
        0 => rich_only::<&[char]>(acc, &g, &bufs, &tot),
        1 if value_only => rich_only::<StreamK>(acc, &g, &bufs, &tot),
        2 if value_only => rich_only::<MappedK>(acc, &g, &bufs, &tot),
        _ => {}
    }
}

// -----------------------------------------------------------------------------------------------
// Part "text": statically typed text / byte / grapheme grammars on arbitrary Unicode and bytes

/// `(start, end, slice)` captured by `map_with` for every slice a text parser returns
pub type Cap = (usize, usize, Vec<u8>);

fn text_viol(acc: &mut Acc, name: &str, input: &str, what: String, extra: Value) {
    let mut d = json!({"grammar_text": name, "input": input, "part": "text"});
    if let (Value::Object(o), Value::Object(e)) = (&mut d, extra) {
        o.extend(e);
    }
    acc.viol(Viol { weight: 1000 + input.len(), what, detail: d });
}

const TEXT_BUDGET: u64 = 2_000_000;

macro_rules! str_parsers {
    ($E:ty) => {{
        fn cap<'s>(s: &'s str, e: &mut chumsky::input::MapExtra<'s, '_, &'s str, $E>) -> Cap {
            let sp: SimpleSpan = e.span();
            (sp.start, sp.end, s.as_bytes().to_vec())
        }
        let one = |c: Cap| vec![c];
        let v: Vec<(&'static str, Boxed<'s, 's, &'s str, Vec<Cap>, $E>)> = vec![
            ("text::ident().padded().repeated()", text::ident::<&str, $E>().map_with(cap).padded().repeated().collect::<Vec<_>>().boxed()),
            (
                "text::ascii::ident().separated_by(just(',').padded()).allow_trailing()",
                text::ascii::ident::<&str, $E>().map_with(cap).separated_by(just(',').padded()).allow_trailing().collect::<Vec<_>>().boxed(),
            ),
            ("text::int(10).or(text::int(16)).padded().repeated()", text::int::<&str, $E>(10).map_with(cap).or(text::int(16).map_with(cap)).padded().repeated().collect::<Vec<_>>().boxed()),
            ("text::digits(36).to_slice().padded().repeated()", text::digits::<&str, $E>(36).to_slice().map_with(cap).padded().repeated().collect::<Vec<_>>().boxed()),
            (
                "text::keyword(\"let\").padded().then(text::ident())",
                text::keyword::<&str, _, $E>("let").map_with(cap).padded().then(text::ident().map_with(cap)).map(|(a, b)| vec![a, b]).boxed(),
            ),
            (
                "lines: any().and_is(newline().not()).repeated().to_slice().separated_by(newline())",
                any::<&str, $E>().and_is(text::newline().not()).repeated().to_slice().map_with(cap).separated_by(text::newline()).collect::<Vec<_>>().boxed(),
            ),
            (
                "text::whitespace().then(text::inline_whitespace()).to_slice().then(any().repeated().to_slice())",
                text::whitespace::<&str, $E>().then(text::inline_whitespace()).to_slice().map_with(cap).then(any().repeated().to_slice().map_with(cap)).map(|(a, b)| vec![a, b]).boxed(),
            ),
            (
                "just(\"é𝄞\").or(just(\"é\")).or(just(\"\\u{301}\")).to_slice().repeated()",
                just::<_, &str, $E>("é𝄞").or(just("é")).or(just("\u{301}")).to_slice().map_with(cap).repeated().collect::<Vec<_>>().boxed(),
            ),
            (
                "any().filter(alphabetic).repeated().at_least(1).to_slice().separated_by(none_of(alphabetic))",
                any::<&str, $E>()
                    .filter(|c: &char| c.is_alphabetic())
                    .repeated()
                    .at_least(1)
                    .to_slice()
                    .map_with(cap)
                    .separated_by(any().filter(|c: &char| !c.is_alphabetic()).repeated().at_least(1))
                    .allow_leading()
                    .allow_trailing()
                    .collect::<Vec<_>>()
                    .boxed(),
            ),
            (
                "string literal with escapes, recover_with(skip_until(any, '\"'))",
                none_of::<_, &str, $E>("\"\\")
                    .ignored()
                    .or(just('\\').then(any()).ignored())
                    .repeated()
                    .to_slice()
                    .map_with(cap)
                    .delimited_by(just('"'), just('"'))
                    .recover_with(skip_until(any().ignored(), just('"').ignored(), || (0, 0, vec![])))
                    .padded()
                    .repeated()
                    .collect::<Vec<_>>()
                    .boxed(),
            ),
            (
                "bracket tree: recursive, nested_delimiters recovery, skip_then_retry_until",
                recursive(|tree| {
                    let leaf = text::ident::<&str, $E>().map_with(cap).map(one);
                    let list = tree
                        .clone()
                        .separated_by(just(',').padded())
                        .allow_trailing()
                        .collect::<Vec<Vec<Cap>>>()
                        .map(|v| v.into_iter().flatten().collect::<Vec<Cap>>());
                    choice((
                        leaf,
                        list.clone().delimited_by(just('('), just(')')),
                        list.delimited_by(just('['), just(']')),
                    ))
                    .recover_with(via_parser(nested_delimiters('(', ')', [('[', ']'), ('{', '}')], |_| vec![])))
                    .recover_with(skip_then_retry_until(any().ignored(), one_of(",)]").ignored()))
                    .padded()
                })
                .boxed(),
            ),
            (
                "memoized / labelled / map_err stack over text parsers",
                text::int::<&str, $E>(10)
                    .map_with(cap)
                    .memoized()
                    .labelled("number")
                    .map_err(|e| e)
                    .or(text::ident().map_with(cap).labelled("name").as_context().memoized())
                    .recover_with(via_parser(any().to_slice().map_with(cap)))
                    .padded()
                    .repeated()
                    .collect::<Vec<_>>()
                    .boxed(),
            ),
        ];
        let mut v = v;
        // compiling a regex under an interpreter takes minutes and exercises regex-automata, not chumsky
        if !cfg!(miri) {
            v.push(("regex(\"[a-zé]+|[0-9]+|\\\\s\").repeated()", regex::<&str, $E>("[a-zé]+|[0-9]+|\\s").map_with(cap).repeated().collect::<Vec<_>>().boxed()));
            v.push(("regex(\".\").repeated()", regex::<&str, $E>("(?s).").map_with(cap).repeated().collect::<Vec<_>>().boxed()));
        }
        v
    }};
}

macro_rules! u8_parsers {
    ($E:ty) => {{
        fn cap<'s>(s: &'s [u8], e: &mut chumsky::input::MapExtra<'s, '_, &'s [u8], $E>) -> Cap {
            let sp: SimpleSpan = e.span();
            (sp.start, sp.end, s.to_vec())
        }
        let v: Vec<(&'static str, Boxed<'s, 's, &'s [u8], Vec<Cap>, $E>)> = vec![
            ("u8: text::ascii::ident().padded().repeated()", text::ascii::ident::<&[u8], $E>().map_with(cap).padded().repeated().collect::<Vec<_>>().boxed()),
            ("u8: text::int(10).or(text::int(16)).padded().repeated()", text::int::<&[u8], $E>(10).map_with(cap).or(text::int(16).map_with(cap)).padded().repeated().collect::<Vec<_>>().boxed()),
            (
                "u8: text::whitespace().ignore_then(text::ascii::ident()).then_ignore(just(b'=')).then(text::int(10))",
                text::whitespace::<&[u8], $E>().ignore_then(text::ascii::ident().map_with(cap)).then_ignore(just(b'=')).then(text::int(10).map_with(cap)).map(|(a, b)| vec![a, b]).boxed(),
            ),
            (
                "u8 lines: any().and_is(one_of(b\"\\r\\n\").not()).repeated().to_slice().separated_by(one_of(b\"\\r\\n\"))",
                any::<&[u8], $E>().and_is(one_of(b"\r\n".as_slice()).not()).repeated().to_slice().map_with(cap).separated_by(one_of(b"\r\n".as_slice())).collect::<Vec<_>>().boxed(),
            ),
            (
                "u8: just(b\"\\xff\\xfe\").or(just(b\"\\xff\")).to_slice().or(none_of(b\"\\xff\").to_slice()).repeated()",
                just::<_, &[u8], $E>(b"\xff\xfe".as_slice()).or(just(b"\xff".as_slice())).to_slice().or(none_of(b"\xff".as_slice()).to_slice()).map_with(cap).repeated().collect::<Vec<_>>().boxed(),
            ),
            (
                "u8: digits(10).to_slice().recover_with(skip_until(any, b','))  separated_by b','",
                text::digits::<&[u8], $E>(10)
                    .to_slice()
                    .map_with(cap)
                    .recover_with(skip_then_retry_until(any().ignored(), just(b',').ignored()))
                    .separated_by(just(b','))
                    .collect::<Vec<_>>()
                    .boxed(),
            ),
        ];
        let mut v = v;
        if !cfg!(miri) {
            v.push(("u8: regex(\"[a-z]+|[0-9]+|(?s:.)\").repeated()", regex::<&[u8], $E>("[a-z]+|[0-9]+|(?s:.)").map_with(cap).repeated().collect::<Vec<_>>().boxed()));
        }
        v
    }};
}

fn check_caps(input: &[u8], is_str: bool, caps: &[Cap]) -> Option<String> {
    for (s, e, bytes) in caps {
        if (*s, *e) == (0, 0) && bytes.is_empty() {
            continue;
        }
        if s > e || *e > input.len() {
            return Some(format!("span {}..{} outside the input (len {})", s, e, input.len()));
        }
        if &input[*s..*e] != bytes.as_slice() {
            return Some(format!("slice returned for span {}..{} is not input[{}..{}]", s, e, s, e));
        }
        if is_str {
            let st = std::str::from_utf8(input).unwrap();
            if !st.is_char_boundary(*s) || !st.is_char_boundary(*e) {
                return Some(format!("span {}..{} is not on character boundaries", s, e));
            }
            if std::str::from_utf8(bytes).is_err() {
                return Some(format!("slice for span {}..{} is not valid UTF-8", s, e));
            }
        }
    }
    None
}

macro_rules! run_text_list {
    ($acc:expr, $ps:expr, $input:expr, $raw:expr, $is_str:expr, $et:expr, $spanf:expr) => {{
        for (name, p) in $ps.iter() {
            for mode in ["parse", "check"] {
                $acc.evaluations += 1;
                $acc.count("text_cases", 1);
                let r = guarded(|| {
                    let mut st = Steps::with_budget(TEXT_BUDGET);
                    if mode == "parse" {
                        let r = p.parse_with_state($input, &mut st);
                        let spans: Vec<(usize, usize)> = r.errors().map($spanf).collect();
                        let c = result_contract(&r);
                        (r.has_output(), r.output().cloned().unwrap_or_default(), spans, c, st.steps.get())
                    } else {
                        let r = p.check_with_state($input, &mut st);
                        let spans: Vec<(usize, usize)> = r.errors().map($spanf).collect();
                        let c = result_contract(&r);
                        (r.has_output(), vec![], spans, c, st.steps.get())
                    }
                });
                let ex = json!({"error_type": $et, "mode": mode});
                let shown = String::from_utf8_lossy($raw).to_string();
                match r {
                    Ok((has, caps, spans, contract, steps)) => {
                        $acc.maxc("max_steps_of_one_text_parse", steps);
                        if !has {
                            $acc.count("text_rejecting_runs", 1);
                            $acc.nontrivial_enum += 1;
                        }
                        if let Some(c) = contract {
                            text_viol($acc, name, &shown, format!("C20: [{}] ParseResult contract: {}", name, c), ex.clone());
                        }
                        if !has && spans.is_empty() && $et != "unit" {
                            text_viol($acc, name, &shown, format!("C20: [{}] no output and no errors", name), ex.clone());
                        }
                        if let Some(d) = check_caps($raw, $is_str, &caps) {
                            text_viol($acc, name, &shown, format!("C20: [{}] {}", name, d), ex.clone());
                        }
                        $acc.count("slices_checked_against_input", caps.len() as u64);
                        for (s, e) in spans {
                            let bad = s > e || e > $raw.len() || ($is_str && { let st = std::str::from_utf8($raw).unwrap(); !st.is_char_boundary(s) || !st.is_char_boundary(e) });
                            if bad {
                                text_viol($acc, name, &shown, format!("C20: [{}] error span {}..{} is out of bounds or inside a character (len {})", name, s, e, $raw.len()), ex.clone());
                            }
                        }
                    }
                    Err(e) if e == "STEP_BUDGET" => {
                        text_viol($acc, name, &shown, format!("C20: [{}] exceeded {} logical steps on {} bytes", name, TEXT_BUDGET, $raw.len()), ex.clone());
                    }
                    Err(e) => {
                        $acc.count("panics", 1);
                        let mut ex = ex.clone();
                        ex["panic"] = json!(e);
                        text_viol($acc, name, &shown, format!("C20: [{}] {}() panicked with {} errors: {}", name, mode, $et, e), ex);
                    }
                }
            }
        }
    }};
}

type FS<'s, ER> = extra::Full<ER, Steps, ()>;

pub fn text_units_str<'s>(acc: &mut Acc, inputs: &'s [String], all_types: bool) {
    let rich = str_parsers!(FS<'s, Rich<'s, char>>);
    let empty = str_parsers!(FS<'s, EmptyErr>);
    let cheap = if all_types { str_parsers!(FS<'s, Cheap>) } else { vec![] };
    let simple = if all_types { str_parsers!(FS<'s, Simple<'s, char>>) } else { vec![] };
    for s in inputs {
        set_input(s);
        let raw = s.as_bytes();
        run_text_list!(acc, rich, s.as_str(), raw, true, "Rich", |e: &Rich<char>| (e.span().start, e.span().end));
        run_text_list!(acc, empty, s.as_str(), raw, true, "EmptyErr", |_e: &EmptyErr| (0usize, 0usize));
        run_text_list!(acc, cheap, s.as_str(), raw, true, "Cheap", |e: &Cheap| (e.span().start, e.span().end));
        run_text_list!(acc, simple, s.as_str(), raw, true, "Simple", |e: &Simple<char>| (e.span().start, e.span().end));
    }
}

pub fn text_units_u8<'s>(acc: &mut Acc, inputs: &'s [Vec<u8>]) {
    let rich = u8_parsers!(FS<'s, Rich<'s, u8>>);
    let empty = u8_parsers!(FS<'s, EmptyErr>);
    for s in inputs {
        set_input(&String::from_utf8_lossy(s));
        let raw: &[u8] = s.as_slice();
        run_text_list!(acc, rich, raw, raw, false, "Rich", |e: &Rich<u8>| (e.span().start, e.span().end));
        run_text_list!(acc, empty, raw, raw, false, "EmptyErr", |_e: &EmptyErr| (0usize, 0usize));
    }
}

/// Graphemes input: tokenisation of arbitrary text terminates, tiles the string, and text parsers work on it.
pub fn text_units_graphemes<'s>(acc: &mut Acc, inputs: &'s [String]) {
    use chumsky::text::{Grapheme, Graphemes};
    type EG<'s> = extra::Full<Rich<'s, &'s Grapheme>, Steps, ()>;
    let all = any::<&'s Graphemes, EG<'s>>().map_with(|g: &Grapheme, e| (e.span().start, e.span().end, g.as_str().as_bytes().to_vec())).repeated().collect::<Vec<Cap>>();
    let idents = text::ident::<&'s Graphemes, EG<'s>>()
        .map_with(|g: &Graphemes, e| {
            let s: &str = g.into();
            (e.span().start, e.span().end, s.as_bytes().to_vec())
        })
        .padded()
        .repeated()
        .collect::<Vec<Cap>>();
    for s in inputs {
        set_input(s);
        for (name, mode) in [("graphemes: any().repeated()", 0), ("graphemes: text::ident().padded().repeated()", 1)] {
            acc.evaluations += 1;
            acc.count("grapheme_cases", 1);
            let r = guarded(|| {
                let mut st = Steps::with_budget(TEXT_BUDGET);
                let g = Graphemes::new(s.as_str());
                let r = if mode == 0 { all.parse_with_state(g, &mut st) } else { idents.parse_with_state(g, &mut st) };
                let spans: Vec<(usize, usize)> = r.errors().map(|e| (e.span().start, e.span().end)).collect();
                (r.has_output(), r.output().cloned().unwrap_or_default(), spans, result_contract(&r))
            });
            match r {
                Ok((has, caps, spans, contract)) => {
                    if let Some(c) = contract {
                        text_viol(acc, name, s, format!("C20: [{}] ParseResult contract: {}", name, c), json!({}));
                    }
                    if mode == 0 {
                        if !has {
                            text_viol(acc, name, s, format!("C20: [{}] rejected a string", name), json!({}));
                        }
                        // the graphemes tile the string
                        let mut at = 0;
                        for (a, b, _) in &caps {
                            if *a != at || b <= a {
                                text_viol(acc, name, s, format!("C20: [{}] grapheme spans do not tile the input at byte {}", name, at), json!({}));
                                break;
                            }
                            at = *b;
                        }
                        if has && at != s.len() {
                            text_viol(acc, name, s, format!("C20: [{}] graphemes cover {} of {} bytes", name, at, s.len()), json!({}));
                        }
                    } else if !has {
                        acc.nontrivial_enum += 1;
                    }
                    if let Some(d) = check_caps(s.as_bytes(), true, &caps) {
                        text_viol(acc, name, s, format!("C20: [{}] {}", name, d), json!({}));
                    }
                    for (a, b) in spans {
                        if a > b || b > s.len() || !s.is_char_boundary(a) || !s.is_char_boundary(b) {
                            text_viol(acc, name, s, format!("C20: [{}] error span {}..{} out of bounds / inside a character", name, a, b), json!({}));
                        }
                    }
                }
                Err(e) => {
                    acc.count("panics", 1);
                    text_viol(acc, name, s, format!("C20: [{}] {}", name, e), json!({"panic": e}));
                }
            }
        }
    }
}

pub fn hostile_string(rng: &mut Rng, max: usize) -> String {
    let n = match rng.below(10) {
        0 => 0,
        1 => 1,
        _ => rng.range(0, max),
    };
    const WORDS: &[&str] = &["let", "lett", "le", "0", "007", "1f", "é", "_x", "x_1", "\r\n", "\n\r", "(", ")", "[", "]", "\"", "\\\"", ",", " ", "𝄞", "e\u{301}", "👩\u{200d}👩", "🇦🇧🇦", "\u{85}", "\u{2028}"];
    let mut s = String::new();
    for _ in 0..n {
        match rng.below(4) {
            0 => {
                let w: &&str = rng.pick(WORDS);
                s.push_str(w)
            }
            1 => s.push(char::from_u32(rng.below(0x11_0000) as u32).unwrap_or('\u{fffd}')),
            _ => s.push(*rng.pick(HOSTILE)),
        }
    }
    s
}

fn unit_text(acc: &mut Acc, seed: u64, i: usize) {
    let mut rng = Rng::derive(seed, 0x7E87, i as u64);
    set_grammar("text parsers on arbitrary Unicode / bytes".into());
    let strs: Vec<String> = (0..12).map(|_| hostile_string(&mut rng, 20)).collect();
    text_units_str(acc, &strs, i % 4 == 0);
    text_units_graphemes(acc, &strs);
    let mut bytes: Vec<Vec<u8>> = (0..8)
        .map(|_| {
            let n = rng.range(0, 16);
            (0..n).map(|_| if rng.chance(1, 2) { *rng.pick(b"let0 19a_,\n\r\t\xff\xfe\x80\x00\x0b") } else { rng.below(256) as u8 }).collect()
        })
        .collect();
    // truncated valid UTF-8: every byte prefix of a multi-byte string
    let s = hostile_string(&mut rng, 6);
    for k in 0..s.len() {
        bytes.push(s.as_bytes()[..k].to_vec());
    }
    text_units_u8(acc, &bytes);
}

// -----------------------------------------------------------------------------------------------
// Part "scale": CPU time and logical steps grow polynomially (linearly for these families) with the input

type ESC<'s> = extra::Full<Rich<'s, char>, Steps, ()>;

fn scale_families<'s>() -> Vec<(&'static str, u32, Boxed<'s, 's, &'s str, usize, ESC<'s>>)> {
    // (name, allowed growth factor of steps when the input doubles (x100), parser)
    vec![
        ("just('a').repeated().count()", 230, just::<_, &str, ESC>('a').repeated().count().boxed()),
        ("text::ident().padded().repeated().count()", 230, text::ident::<&str, ESC>().padded().repeated().count().boxed()),
        ("text::int(10).separated_by(just(',')).count()", 230, text::int::<&str, ESC>(10).separated_by(just(',')).count().boxed()),
        (
            "choice of keywords with shared prefixes, repeated",
            230,
            choice((just::<_, &str, ESC>("aaab"), just("aaa"), just("aa"), just("a"))).repeated().count().boxed(),
        ),
        (
            "any().repeated().at_most(n) then backtrack to or_not alternative",
            230,
            just::<_, &str, ESC>('a').repeated().then(just('!')).ignored().or_not().then(any().repeated().count()).map(|(_, n)| n).boxed(),
        ),
        (
            "recover_with(skip_until) over a long garbage run",
            230,
            just::<_, &str, ESC>('!').to(0usize).recover_with(skip_until(any().ignored(), end(), || 1usize)).boxed(),
        ),
        (
            "recursive nesting: ( ( ( ... ) ) )",
            230,
            recursive(|t| just::<_, &str, ESC>('(').ignore_then(t).then_ignore(just(')')).map(|d: usize| d + 1).or(just('a').repeated().count())).boxed(),
        ),
        (
            "foldl over separated items",
            230,
            text::int::<&str, ESC>(10).to(1usize).foldl(just(',').ignore_then(text::int(10)).repeated(), |a, _| a + 1).boxed(),
        ),
        (
            "memoized alternatives",
            230,
            just::<_, &str, ESC>('a').memoized().then(just('!')).ignored().or(just('a').memoized().ignored()).repeated().count().boxed(),
        ),
    ]
}

fn scale_input(family: usize, n: usize) -> String {
    match family {
        0 | 3 | 4 | 5 | 8 => "a".repeat(n),
        1 => "ab ".repeat(n / 3),
        2 | 7 => "12,".repeat(n / 3) + "3",
        6 => "(".repeat(n / 2) + &")".repeat(n / 2),
        _ => "a".repeat(n),
    }
}

fn unit_scale(acc: &mut Acc, family: usize, n: usize) {
    let inputs: Vec<String> = [n / 4, n / 2, n].iter().map(|k| scale_input(family, *k)).collect();
    let fams = scale_families();
    let (name, growth, p) = &fams[family];
    set_grammar(format!("scale: {}", name));
    let mut prev: Option<(usize, u64)> = None;
    for input in &inputs {
        set_input(&format!("<{} bytes>", input.len()));
        let c0 = cpu_ticks();
        let r = guarded(|| {
            let mut st = Steps::with_budget(0);
            let r = p.parse_with_state(input.as_str(), &mut st);
            (r.has_output() || r.has_errors(), st.steps.get())
        });
        let cpu = cpu_ticks() - c0;
        acc.evaluations += 1;
        acc.count("scaling_runs", 1);
        acc.nontrivial_enum += 1;
        acc.maxc("max_scaling_input_bytes", input.len() as u64);
        acc.maxc("max_cpu_ticks_of_one_scaling_run", cpu);
        match r {
            Ok((_, steps)) => {
                if let Some((pk, ps)) = prev {
                    // doubling the input must not more than (growth/100)-fold the logical steps
                    let ratio100 = steps * 100 / ps.max(1);
                    acc.maxc("max_step_growth_x100_when_input_doubles", ratio100);
                    if ratio100 > *growth as u64 && steps > 10_000 {
                        acc.viol(Viol {
                            weight: 500,
                            what: format!("C20: [{}] logical steps grow super-linearly: {} steps on {} bytes but {} on {} bytes", name, ps, pk, steps, input.len()),
                            detail: json!({"grammar_text": name, "input": format!("<{} bytes>", input.len()), "part": "scale"}),
                        });
                    }
                }
                prev = Some((input.len(), steps));
            }
            Err(e) => {
                acc.viol(Viol { weight: 500, what: format!("C20: [{}] on {} bytes: {}", name, input.len(), e), detail: json!({"grammar_text": name, "input": format!("<{} bytes>", input.len()), "part": "scale", "panic": e}) });
            }
        }
    }
}

// -----------------------------------------------------------------------------------------------
// Part "deep": no stack exhaustion.  The other parts run on a 256 MiB stack (their business is panics
// and loops); here every run gets its own thread with a 1 MiB stack, so nesting / operator chains far
// deeper than such a stack could hold must be carried by the stack-growth guard.  A stack overflow
// kills the child process; the parent names the case from the progress marker.

type ED<'s> = extra::Err<Rich<'s, char>>;
type DeepP<'s> = Boxed<'s, 's, &'s str, usize, ED<'s>>;
const DEEP_STACK: usize = 1 << 20;

/// (name, parser, input of nesting / chain depth n, expected output)
fn deep_family<'s>(family: usize, n: usize) -> (&'static str, DeepP<'s>, String, usize) {
    use chumsky::pratt::{infix, left, postfix, prefix, right};
    let x = || just::<_, &str, ED>('x').to(0usize);
    let parens = || recursive(|t| just::<_, &str, ED>('(').ignore_then(t).then_ignore(just(')')).map(|d: usize| d + 1).or(just('x').to(0usize)));
    match family {
        0 => ("pratt prefix chain: x.pratt((prefix(1,'-'),)) on ---…x", x().pratt((prefix(1, just('-'), |_, d: usize, _| d + 1),)).boxed(), "-".repeat(n) + "x", n),
        1 => ("pratt right-associative infix chain: x^x^…^x", x().pratt((infix(right(1), just('^'), |a: usize, _, b: usize, _| a.max(b) + 1),)).boxed(), "x^".repeat(n) + "x", n),
        2 => ("pratt left-associative infix chain: x+x+…+x", x().pratt((infix(left(1), just('+'), |a: usize, _, _b: usize, _| a + 1),)).boxed(), "x+".repeat(n) + "x", n),
        3 => ("pratt postfix chain: x!!!…", x().pratt((postfix(1, just('!'), |a: usize, _, _| a + 1),)).boxed(), "x".to_string() + &"!".repeat(n), n),
        4 => ("recursive(): ((…x…))", parens().boxed(), "(".repeat(n) + "x" + &")".repeat(n), n),
        5 => (
            "Recursive::declare/define: ((…x…))",
            {
                let mut t = Recursive::declare();
                t.define(just::<_, &str, ED>('(').ignore_then(t.clone()).then_ignore(just(')')).map(|d: usize| d + 1).or(just('x').to(0usize)));
                t.boxed()
            },
            "(".repeat(n) + "x" + &")".repeat(n),
            n,
        ),
        6 => ("two prefix operators of different power alternating: !-!-…x", x().pratt((prefix(2, just('!'), |_, d: usize, _| d + 1), prefix(1, just('-'), |_, d: usize, _| d + 1))).boxed(), "!-".repeat(n / 2) + "x", (n / 2) * 2),
        7 => (
            "recursive list: [[…[x,x]…]] through separated_by",
            recursive(|t| t.separated_by(just(',')).collect::<Vec<usize>>().delimited_by(just('['), just(']')).map(|v: Vec<usize>| v.into_iter().max().unwrap_or(0) + 1).or(just('x').to(0usize))).boxed(),
            "[".repeat(n) + "x,x" + &"]".repeat(n),
            n,
        ),
        8 => (
            "mutual recursion through boxed(): a = '(' b ')' | x ; b = a.boxed()",
            {
                let mut a = Recursive::declare();
                let mut b = Recursive::declare();
                a.define(just::<_, &str, ED>('(').ignore_then(b.clone()).then_ignore(just(')')).map(|d: usize| d + 1).or(just('x').to(0usize)));
                b.define(a.clone().boxed());
                a.boxed()
            },
            "(".repeat(n) + "x" + &")".repeat(n),
            n,
        ),
        9 => ("pratt whose atom is recursive parentheses around the expression: ((x+x)+x)…", recursive(|e| just::<_, &str, ED>('(').ignore_then(e).then_ignore(just(')')).map(|d: usize| d + 1).or(just('x').to(0usize)).pratt((infix(left(1), just('+'), |a: usize, _, b: usize, _| a.max(b)),))).boxed(), "(".repeat(n) + "x+x" + &")".repeat(n), n),
        10 => ("right-associative infix chain whose operands carry a prefix operator: -x^-x^…", x().pratt((prefix(3, just('-'), |_, d: usize, _| d), infix(right(1), just('^'), |a: usize, _, b: usize, _| a.max(b) + 1))).boxed(), "-x^".repeat(n) + "-x", n),
        _ => ("recursive() in a foldr chain: a a a … x", recursive(|t| just::<_, &str, ED>('a').ignore_then(t).map(|d: usize| d + 1).or(just('x').to(0usize))).boxed(), "a".repeat(n) + "x", n),
    }
}
const N_DEEP: usize = 12;

fn unit_deep(acc: &mut Acc, family: usize, n: usize) {
    for mode in ["parse", "check", "ignored().parse", "to_slice().check"] {
        let (name, _, _, _) = deep_family(family, 1);
        set_grammar(format!("deep: {} ({}, on a thread with a {} KiB stack)", name, mode, DEEP_STACK >> 10));
        set_input(&format!("<depth {}>", n));
        let h = std::thread::Builder::new()
            .stack_size(DEEP_STACK)
            .spawn(move || {
                let (_, _, input, want) = deep_family(family, n);
                let (_, p, _, _) = deep_family(family, 1);
                let r = guarded(|| match mode {
                    "parse" => {
                        let r = p.parse(input.as_str());
                        let ne = r.errors().len();
                        (r.has_output(), ne, r.output().copied())
                    }
                    "check" => {
                        let r = p.check(input.as_str());
                        let ne = r.errors().len();
                        (r.has_output(), ne, None)
                    }
                    "ignored().parse" => {
                        let q = p.clone().ignored();
                        let r = q.parse(input.as_str());
                        let ne = r.errors().len();
                        (r.has_output(), ne, None)
                    }
                    _ => {
                        let q = p.clone().to_slice();
                        let r = q.check(input.as_str());
                        let ne = r.errors().len();
                        (r.has_output(), ne, None)
                    }
                });
                // parsers hold Rc cycles (declare/define): dropped here on the small stack as well
                (r, want)
            })
            .unwrap();
        acc.evaluations += 1;
        acc.count("deep_runs", 1);
        acc.nontrivial_enum += 1;
        acc.maxc("max_depth_survived_on_a_1MiB_stack", n as u64);
        match h.join() {
            Ok((Ok((has, nerr, out)), want)) => {
                if !has || nerr != 0 || out.map(|o| o != want).unwrap_or(false) {
                    acc.viol(Viol { weight: 400, what: format!("C20: [{}] ({}) on a well-formed input of depth {}: has_output={} errors={} output={:?} (expected depth {})", name, mode, n, has, nerr, out, want), detail: json!({"grammar_text": name, "input": format!("<depth {}>", n), "part": "deep", "mode": mode}) });
                }
            }
            Ok((Err(e), _)) => acc.viol(Viol { weight: 400, what: format!("C20: [{}] ({}) at depth {}: {}", name, mode, n, e), detail: json!({"grammar_text": name, "input": format!("<depth {}>", n), "part": "deep", "mode": mode, "panic": e}) }),
            Err(_) => acc.viol(Viol { weight: 400, what: format!("C20: [{}] ({}) at depth {}: the parsing thread panicked outside the guard", name, mode, n), detail: json!({"grammar_text": name, "input": format!("<depth {}>", n), "part": "deep", "mode": mode}) }),
        }
    }
}

// -----------------------------------------------------------------------------------------------
// Child entry: `cvh child c20 <shard> <nshards> <tier> <seed> [from_part from_idx trace]`

const PARTS: [&str; 6] = ["sat", "rand", "text", "scale", "deep", "iter"];

struct Plan {
    sat_grammars: Vec<G>,
    sat_inputs: Vec<Buf>,
    n_rand: usize,
    n_text: usize,
    scale_n: usize,
    deep_n: usize,
    stacked_every: usize,
}

fn plan(thorough: bool) -> Plan {
    let b = sat_basis();
    let sat_grammars = b.up_to(if thorough { 4 } else { 3 });
    let alpha = ['a', 'b', 'é'];
    let sat_inputs = all_inputs(&alpha, if thorough { 4 } else { 3 }).iter().map(|w| Buf::new(w)).collect();
    Plan { sat_grammars, sat_inputs, n_rand: if thorough { 2_000_000 } else { 320_000 }, n_text: if thorough { 120_000 } else { 20_000 }, scale_n: if thorough { 1 << 20 } else { 1 << 17 }, deep_n: if thorough { 1_000_000 } else { 250_000 }, stacked_every: if thorough { 4 } else { 16 } }
}

fn n_units(pl: &Plan, part: usize) -> usize {
    match part {
        0 => pl.sat_grammars.len(),
        1 => pl.n_rand,
        2 => pl.n_text,
        3 => scale_families().len(),
        4 => N_DEEP,
        _ => super::c20iter::N_UNITS,
    }
}

pub fn child(args: &[String]) -> i32 {
    let shard: usize = args[0].parse().unwrap();
    let nshards: usize = args[1].parse().unwrap();
    let thorough = args[2] == "thorough";
    let seed: u64 = args[3].parse().unwrap();
    let from_part: usize = args.get(4).and_then(|s| s.parse().ok()).unwrap_or(0);
    let from_idx: usize = args.get(5).and_then(|s| s.parse().ok()).unwrap_or(0);
    let trace = args.get(6).map(|s| s == "trace").unwrap_or(false);
    TRACE_MODE.store(trace, Ordering::Relaxed);
    std::panic::set_hook(Box::new(|info| {
        if let Ok(mut l) = LAST_PANIC.try_lock() {
            *l = info.to_string();
        }
    }));
    start_hang_monitor();
    let pl = plan(thorough);
    let rb = rand_basis();
    let iter_words = super::c20iter::inputs();
    let mut acc = Acc::default();
    // run on a thread with a large stack (the main thread's is 8 MiB)
    let h = std::thread::Builder::new()
        .stack_size(256 << 20)
        .spawn(move || {
            for part in from_part..PARTS.len() {
                let n = n_units(&pl, part);
                let mut i = shard;
                while i < n {
                    if part > from_part || i >= from_idx {
                        println!("@ {} {}", part, i);
                        match part {
                            0 => unit_sat(&mut acc, &pl.sat_grammars[i], &pl.sat_inputs, i % pl.stacked_every == 0),
                            1 => unit_rand(&mut acc, &rb, seed, i),
                            2 => unit_text(&mut acc, seed, i),
                            3 => unit_scale(&mut acc, i, pl.scale_n),
                            4 => unit_deep(&mut acc, i, pl.deep_n),
                            _ => super::c20iter::unit_iter(&mut acc, &iter_words, i),
                        }
                        if trace && acc.viols.len() > 0 {
                            break;
                        }
                    }
                    i += nshards;
                }
            }
            acc.count("api_results_checked", RESULTS_SEEN.with(|c| c.get()));
            acc
        })
        .unwrap();
    match h.join() {
        Ok(acc) => {
            println!("ACC {}", acc.to_json());
            0
        }
        Err(_) => {
            // a panic outside the per-case guard: harness problem or a panic while constructing parsers
            eprintln!("UNGUARDED-PANIC {}", LAST_PANIC.lock().map(|l| l.clone()).unwrap_or_default().replace('\n', " "));
            6
        }
    }
}

// -----------------------------------------------------------------------------------------------
// Parent

fn last_marker(out: &str) -> Option<(usize, usize)> {
    out.lines().rev().find_map(|l| {
        let mut it = l.strip_prefix("@ ")?.split_whitespace();
        Some((it.next()?.parse().ok()?, it.next()?.parse().ok()?))
    })
}

fn parse_acc(out: &str) -> Option<Acc> {
    out.lines().rev().find_map(|l| l.strip_prefix("ACC ").and_then(|j| serde_json::from_str::<Value>(j).ok())).map(|v| Acc::from_json(&v))
}

fn hang_of(out: &str) -> Option<Value> {
    out.lines().rev().find_map(|l| serde_json::from_str::<Value>(l).ok().filter(|v| v.get("hang").is_some()))
}

/// Merge the outcome of the shard children into `acc`; children that died are re-run from the
/// unit they were executing, in trace mode, to name the case.
pub fn settle_children(acc: &mut Acc, prop: &str, job: &str, base_args: &dyn Fn(usize) -> Vec<String>, outs: Vec<ChildOut>, timeout: Duration, vmem_kb: u64) {
    for (shard, c) in outs.into_iter().enumerate() {
        acc.count("child_processes", 1);
        acc.maxc("max_child_peak_rss_mib", c.peak_rss_kb / 1024);
        if let Some(a) = parse_acc(&c.stdout) {
            if c.code == Some(0) {
                acc.merge(a);
                continue;
            }
        }
        if c.timed_out {
            acc.inconclusive += 1;
            acc.count("children_killed_by_wall_clock_watchdog", 1);
            eprintln!("{}: child shard {} killed by the wall-clock watchdog (inconclusive): {}", prop, shard, c.describe());
            continue;
        }
        if let Some(h) = hang_of(&c.stdout) {
            let hg = &h["hang"];
            acc.viol(Viol {
                weight: 50,
                what: format!("{}: a single case burnt {} CPU seconds without finishing (cases of this size normally take microseconds): {} on {:?}", prop, hg["cpu_s"], hg["grammar"].as_str().unwrap_or("?"), hg["input"].as_str().unwrap_or("?")),
                detail: json!({"grammar_text": hg["grammar"], "input": hg["input"], "hang": true, "child": c.describe()}),
            });
            continue;
        }
        // died: name the case by re-running from the last progress marker in trace mode
        let marker = last_marker(&c.stdout);
        let mut named = json!(null);
        if let Some((part, idx)) = marker {
            let mut a = base_args(shard);
            a.extend([part.to_string(), idx.to_string(), "trace".to_string()]);
            let t = crate::proc::run_child(&a, timeout, vmem_kb);
            if let Some(l) = t.stderr_tail.lines().rev().find(|l| l.starts_with("CASE ")) {
                named = serde_json::from_str(&l[5..]).unwrap_or(json!(l));
            }
        }
        acc.viol(Viol {
            weight: 40,
            what: format!("{}: the process running `{}` died instead of returning results ({}); case being executed: {}", prop, job, c.describe(), named),
            detail: json!({"grammar_text": named.get("grammar").cloned().unwrap_or(json!("?")), "input": named.get("input").cloned().unwrap_or(json!("?")), "child": c.describe(), "marker": format!("{:?}", marker)}),
        });
    }
}

pub fn run(cx: &RunCtx) -> i32 {
    let nshards = cx.threads.max(1);
    let tier = cx.tier.clone();
    let seed = cx.seed;
    let base = move |shard: usize| vec!["c20".to_string(), shard.to_string(), nshards.to_string(), tier.clone(), seed.to_string()];
    let jobs: Vec<Vec<String>> = (0..nshards).map(&base).collect();
    let timeout = Duration::from_secs(cx.t(1800, 4 * 3600));
    let vmem = 12u64 << 20;
    let outs = run_children(&jobs, nshards, timeout, vmem);
    let mut acc = Acc::default();
    settle_children(&mut acc, "C20", "c20", &base, outs, timeout, vmem);

    // sanitizer shard: the text / byte / grapheme grammars and a slice of the saturation under Miri
    crate::san::miri_job(&mut acc, cx, "C20", "c20", cx.t(3, 8), cx.t(2, 8));
    if cx.thorough() {
        crate::san::asan_job(&mut acc, cx, "C20", "c20", 300, 8, false);
    }

    let pl = plan(cx.thorough());
    finish(
        cx,
        acc,
        Finish {
            rule: format!(
                "all work in {nshards} child processes. (sat) every grammar with <= {} nodes of the C01/C02 class (plus a failing custom leaf) and, for every node of it, the node wrapped in map_err / labelled / labelled.as_context / memoized / recover_with(via_parser(empty|any|failing), skip_until, skip_then_retry_until, nested_delimiters) and selected pairs of wrappers, x every input <= {} over {{a,b,é}} x error types EmptyErr (the zero-sized default), Rich, Cheap, Simple x parse and check; (rand) {} random grammars of 3..14 nodes of the broadest class (recovery, validation, labels, memoization, Ext, state, context, nested inputs) with random wrappers, on arbitrary-Unicode inputs (NUL, combining marks, ZWJ, astral, noncharacters) and every prefix of one input, on &str and in turn &[char] / Stream / mapped token inputs; (text) {} batches of 12 arbitrary-Unicode strings + 8 arbitrary byte strings + all byte prefixes of a UTF-8 string through 14 statically typed text grammars on &str (ident, int, digits, keyword, whitespace, newline, regex, multi-byte just, filter, string literals with skip_until recovery, a recursive bracket tree with nested_delimiters and skip_then_retry_until recovery, memoized/labelled/map_err stacks), 7 on &[u8], 2 on Graphemes, with Rich and EmptyErr (every 4th batch also Cheap and Simple); (scale) 9 families at n/4, n/2, n = {} bytes; (deep) 12 families of well-formed inputs nested / chained {} levels deep (Pratt prefix, right- and left-associative infix, postfix and mixed chains, recursive() and declare/define parentheses, recursive lists, mutual recursion through boxed(), Pratt over a recursive atom) each on its own thread with a 1 MiB stack, in parse, check, ignored() and to_slice() form: must return the expected output (a stack overflow kills the child and is reported with the case). Per run: no panic (caught per case), no more than 10^7 logical steps (inspector: next/save/rewind) unless the reference model is itself over budget, no output => >= 1 error, ParseResult accessor contract, every error span and every returned slice inside the input, on character boundaries and equal to input[span]; per child: exit status / signal, CPU-time hang monitor per case (25 CPU-s), wall-clock watchdog (inconclusive); scale: steps at most x2.3 when the input doubles. Non-trivial: runs that reject their input; (iter) the iterable-parser matrix: 10 IterParser sources (repeated, separated_by, into_iter over three containers incl. a possibly empty one, or_not as iterable with and without a nullable inner parser, chained iterables, configured repetitions and separated lists) x the adapter stacks the API admits (enumerate, map, map_with and their compositions: 5 stacks for unit-item sources, 2 otherwise) x 8 drivers (collect, count, foldl, foldl_with, foldr, foldr_with, collect_exactly, unit parser under to_slice) = {} statically typed parsers x every string <= 4 over {{1,2,comma,#,x}} x parse and check (Rich; every 4th slice also EmptyErr): no panic (progress assertions), step budget, result contract, and all adapter stacks over one (source, driver) agree on acceptance and item count",
                if cx.thorough() { 4 } else { 3 },
                if cx.thorough() { 4 } else { 3 },
                pl.n_rand,
                pl.n_text,
                pl.scale_n,
                pl.deep_n,
                (5 * 5 + 5 * 2) * 8
            ),
            exhaustive: false,
            exhaustive_note: "saturation part: complete below the stated bounds".into(),
            assumptions: vec![
                "side condition of the property: repetition items / separators / skip steps consume input (enforced by a static nullability analysis of the generated grammars)".into(),
                "'polynomial time' is decided on logical steps (10^7 budget for inputs <= 64 tokens; linear growth for the scaling families) and on CPU time per case (25 s where microseconds are normal), never on wall-clock".into(),
                "the stack-growth guard (stacker) is exercised natively only; Miri runs the same drivers without it (psm is FFI)".into(),
            ],
            require: vec![
                ("rejecting_runs".into(), 100_000),
                ("rejecting_runs_EmptyErr".into(), 10_000),
                ("rejecting_runs_under_map_err".into(), 1000),
                ("rejecting_runs_under_memoized".into(), 1000),
                ("rejecting_runs_under_labelled".into(), 1000),
                ("rejecting_runs_under_recover_via_failing".into(), 1000),
                ("rejecting_runs_under_recover_skip_until".into(), 100),
                ("text_cases".into(), 10_000),
                ("grapheme_cases".into(), 1000),
                ("slices_checked_against_input".into(), 10_000),
                ("scaling_runs".into(), 20),
                ("deep_runs".into(), 40),
                ("iter_matrix_cases".into(), 100_000),
                ("iter_matrix_accepting_runs".into(), 10_000),
                ("child_processes".into(), 1),
            ],
            min_evaluations: 100_000,
        },
    )
}

/// In-process job for the sanitizer builds (Miri / ASan): a reduced slice of the same drivers.
pub fn san_job(size: usize, seed: u64, shard: usize) -> Value {
    let mut acc = Acc::default();
    let mut rng = Rng::derive(seed, 0x5A20, shard as u64);
    // text / bytes / graphemes: the unchecked decoders
    for _ in 0..size {
        let strs: Vec<String> = (0..2).map(|_| hostile_string(&mut rng, 8)).collect();
        text_units_str(&mut acc, &strs, false);
        text_units_graphemes(&mut acc, &strs);
        let s = hostile_string(&mut rng, 4);
        let bytes: Vec<Vec<u8>> = (0..=s.len().min(6)).map(|k| s.as_bytes()[..k].to_vec()).collect();
        text_units_u8(&mut acc, &bytes);
    }
    // saturation slice
    let b = sat_basis();
    let bufs: Vec<Buf> = [vec![], vec!['a'], vec!['é', 'a'], vec!['b', '𝄞']].iter().map(|w| Buf::new(w)).collect();
    for k in 0..size * 2 {
        let g = &b.random(&mut rng, 1 + k % 3).numbered();
        if !g.well_formed() {
            continue;
        }
        let ids = g.wrappable_ids();
        let id = ids[rng.below(ids.len())];
        let w = *rng.pick(WRAPPERS);
        if let Some(gw) = wrap_with(g, id, &[w]) {
            all_types(&mut acc, &gw, &bufs, &Tot { wrapper: w.0 }, 3);
        }
    }
    acc.to_json()
}
