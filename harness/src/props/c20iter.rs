//! C20 part "iter" — the iterable-parser matrix: every `IterParser` source x adapter stack x driver that the
//! public API offers, statically typed, on every small input.  The drivers (`collect`, `count`, `foldl`,
//! `foldl_with`, `foldr`, `foldr_with`, `collect_exactly`) carry the "making no progress" assertions; the
//! sources that may legitimately hand out items without consuming (`into_iter()`, `or_not()`) declare it
//! through `NONCONSUMPTION_IS_OK`, which every adapter has to forward.  Totality oracle only: no panic, no
//! step-budget overrun, `ParseResult` contract, failure reported through the error list.  Additionally all
//! adapter stacks over one (source, driver) pair are pure renamings of the items, so they must agree on
//! acceptance and on the number of items.

use super::c20::{set_grammar, set_input};
use crate::ev::*;
use crate::gram::all_inputs;
use crate::mk::{guarded, result_contract};
use crate::obs::Steps;
use chumsky::error::{EmptyErr, Rich};
use chumsky::prelude::*;
use serde_json::json;

const BUDGET: u64 = 200_000;

/// One parser of the matrix: `(source, adapter stack, driver, parser -> number of items seen)`
type Row<'s, E> = (&'static str, &'static str, &'static str, Boxed<'s, 's, &'s str, usize, E>);

macro_rules! drive {
    ($v:ident, $E:ty, $sn:expr, $an:expr, $it:expr) => {
        $v.push(($sn, $an, "collect::<Vec<_>>()", $it.collect::<Vec<_>>().map(|v| v.len()).boxed()));
        $v.push(($sn, $an, "count()", $it.count().boxed()));
        $v.push(($sn, $an, "'#'.foldl(items)", just::<_, &str, $E>('#').or_not().to(0usize).foldl($it, |a, _x| a + 1).boxed()));
        $v.push((
            $sn,
            $an,
            "'#'.foldl_with(items)",
            just::<_, &str, $E>('#')
                .or_not()
                .to(0usize)
                .foldl_with($it, |a, _x, e| {
                    let _: SimpleSpan = e.span();
                    a + 1
                })
                .boxed(),
        ));
        $v.push(($sn, $an, "items.foldr('#')", $it.foldr(just::<_, &str, $E>('#').or_not().to(0usize), |_x, a| a + 1).boxed()));
        $v.push((
            $sn,
            $an,
            "items.foldr_with('#')",
            $it.foldr_with(just::<_, &str, $E>('#').or_not().to(0usize), |_x, a, e| {
                let _: SimpleSpan = e.span();
                a + 1
            })
            .boxed(),
        ));
        $v.push(($sn, $an, "collect_exactly::<[_; 2]>()", $it.collect_exactly::<[_; 2]>().map(|_| 2usize).boxed()));
        $v.push(($sn, $an, "unit parser under to_slice()", $it.collect::<Vec<_>>().to_slice().map(|s: &str| s.len()).boxed()));
    };
}

/// adapter stacks for sources whose items are `()` (these are also `Parser<()>`, which is what `map` / `map_with`
/// as item adapters need)
macro_rules! adapt_unit {
    ($v:ident, $E:ty, $sn:expr, $src:expr) => {
        drive!($v, $E, $sn, "", $src);
        drive!($v, $E, $sn, ".enumerate()", $src.enumerate());
        drive!($v, $E, $sn, ".map(..).enumerate()", $src.map(|()| 7u8).enumerate());
        drive!(
            $v,
            $E,
            $sn,
            ".map_with(..).enumerate()",
            $src.map_with(|(), e| {
                let sp: SimpleSpan = e.span();
                sp.start
            })
            .enumerate()
        );
        drive!(
            $v,
            $E,
            $sn,
            ".map(..).map_with(..)",
            $src.map(|()| 7u8).map_with(|x, e| {
                let _: SimpleSpan = e.span();
                (x,)
            })
        );
    };
}

/// adapter stacks for every other iterable source
macro_rules! adapt_any {
    ($v:ident, $E:ty, $sn:expr, $src:expr) => {
        drive!($v, $E, $sn, "", $src);
        drive!($v, $E, $sn, ".enumerate()", $src.enumerate());
    };
}

macro_rules! matrix {
    ($E:ty) => {{
        let d = || one_of::<_, &str, $E>("12").ignored();
        let mut v: Vec<Row<'s, $E>> = vec![];
        adapt_unit!(v, $E, "d.repeated()", d().repeated());
        adapt_unit!(v, $E, "d.separated_by(',').allow_trailing()", d().separated_by(just(',')).allow_trailing());
        adapt_unit!(v, $E, "d.repeated().at_least(1).collect::<Vec<_>>().into_iter()", d().repeated().at_least(1).collect::<Vec<()>>().into_iter());
        adapt_unit!(v, $E, "d.repeated().collect::<Vec<_>>().into_iter()  (may yield nothing; consumes nothing while yielding)", d().repeated().collect::<Vec<()>>().into_iter());
        adapt_unit!(v, $E, "d.separated_by(',').collect::<Vec<_>>().into_iter()", d().separated_by(just(',')).collect::<Vec<()>>().into_iter());
        adapt_any!(v, $E, "d.or_not()  (as an iterable parser)", d().or_not());
        adapt_any!(v, $E, "d.repeated().collect::<Vec<_>>().or_not()  (inner succeeds without consuming)", d().repeated().collect::<Vec<()>>().or_not());
        adapt_any!(v, $E, "d.repeated().at_most(1).then(one_of(\"2x\").repeated())  (chained iterables)", d().repeated().at_most(1).then(one_of::<_, &str, $E>("2x").ignored().repeated()));
        adapt_any!(v, $E, "d.repeated().configure(|c, _| c.at_most(2))", d().repeated().configure(|c, _: &()| c.at_most(2)));
        adapt_any!(v, $E, "d.repeated().configure(|c, _| c.exactly(2))", d().repeated().configure(|c, _: &()| c.exactly(2)));
        v
    }};
}

pub fn inputs() -> Vec<String> {
    let mut v: Vec<String> = all_inputs(&['1', '2', ',', '#', 'x'], 4).iter().map(|w| w.iter().collect()).collect();
    for s in ["12,1,2#", "1,2,1,2,", "#1212", "12121212", "1,2,#", "2x2x", "12é", "é", "1,2,1,2,1,2,1,2,1,2,1,2"] {
        v.push(s.to_string());
    }
    v
}

pub const N_UNITS: usize = 16;

type FS<'s, ER> = extra::Full<ER, Steps, ()>;

macro_rules! run_matrix {
    ($acc:expr, $rows:expr, $et:expr, $words:expr) => {{
        for w in $words.iter() {
            set_input(w);
            // (source, driver, mode) -> (has_output, items) of the first adapter stack
            let mut base: std::collections::HashMap<(&'static str, &'static str, &'static str), (bool, Option<usize>, &'static str)> = Default::default();
            for (sn, an, dn, p) in $rows.iter() {
                for mode in ["parse", "check"] {
                    $acc.evaluations += 1;
                    $acc.count("iter_matrix_cases", 1);
                    let r = guarded(|| {
                        let mut st = Steps::with_budget(BUDGET);
                        if mode == "parse" {
                            let r = p.parse_with_state(w.as_str(), &mut st);
                            {
                                let ne = r.errors().len();
                                (r.has_output(), r.output().copied(), ne, result_contract(&r))
                            }
                        } else {
                            let r = p.check_with_state(w.as_str(), &mut st);
                            {
                                let ne = r.errors().len();
                                (r.has_output(), None, ne, result_contract(&r))
                            }
                        }
                    });
                    let name = format!("{}{}.{}", sn, an, dn);
                    let detail = json!({"grammar_text": name, "input": w, "part": "iter", "mode": mode, "error_type": $et});
                    match r {
                        Ok((has, out, nerr, contract)) => {
                            if has {
                                $acc.nontrivial_enum += 1;
                                $acc.count("iter_matrix_accepting_runs", 1);
                            }
                            if let Some(c) = contract {
                                $acc.viol(Viol { weight: 900 + w.len(), what: format!("C20: [{}] on {:?} ({}, {}): ParseResult contract: {}", name, w, mode, $et, c), detail: detail.clone() });
                            }
                            if !has && nerr == 0 {
                                $acc.viol(Viol { weight: 900 + w.len(), what: format!("C20: [{}] on {:?} ({}, {}): no output and no errors", name, w, mode, $et), detail: detail.clone() });
                            }
                            match base.get(&(*sn, *dn, mode)) {
                                None => {
                                    base.insert((*sn, *dn, mode), (has, out, *an));
                                }
                                Some((bh, bo, ban)) => {
                                    if *bh != has || *bo != out {
                                        $acc.viol(Viol {
                                            weight: 950 + w.len(),
                                            what: format!("C20: [{}] on {:?} ({}, {}): accepted={} items={:?}, but with the adapter stack `{}` (a renaming of the items) accepted={} items={:?}", name, w, mode, $et, has, out, ban, bh, bo),
                                            detail: detail.clone(),
                                        });
                                    }
                                }
                            }
                        }
                        Err(e) if e == "STEP_BUDGET" => {
                            $acc.viol(Viol { weight: 900 + w.len(), what: format!("C20: [{}] on {:?} ({}, {}): exceeded {} logical steps", name, w, mode, $et, BUDGET), detail });
                        }
                        Err(e) => {
                            $acc.count("panics", 1);
                            let mut d = detail;
                            d["panic"] = json!(e);
                            $acc.viol(Viol { weight: 900 + w.len(), what: format!("C20: [{}] on {:?} ({}, {}): {}", name, w, mode, $et, e), detail: d });
                        }
                    }
                }
            }
        }
    }};
}

pub fn unit_iter<'s>(acc: &mut Acc, words: &'s [String], i: usize) {
    set_grammar("iterable-parser matrix (source x adapters x driver)".into());
    let mine: Vec<&'s String> = words.iter().skip(i).step_by(N_UNITS).collect();
    let rich = matrix!(FS<'s, Rich<'s, char>>);
    run_matrix!(acc, rich, "Rich", mine);
    if i % 4 == 0 {
        let empty = matrix!(FS<'s, EmptyErr>);
        run_matrix!(acc, empty, "EmptyErr", mine);
    }
    acc.maxc("iter_matrix_parsers", rich.len() as u64);
}
