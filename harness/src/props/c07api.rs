//! C07 (API family) — the span / slice accessors that user code reaches through `InputRef` inside
//! `custom` parsers (`span_since`, `span_from`, `slice`, `slice_since`, `slice_from`) and through
//! `MapExtra` (`span`, `slice`), `to_span`, `to_slice`, judged against the caller's buffer alone:
//! every span lies on token boundaries inside the input, every slice *is* `input[span]` — same text
//! and same address (zero-copy) — and the open-ended forms reach exactly to the end of the input.
//! `&str` (byte offsets, multi-byte text) and `&[char]` (token indices).

use crate::ev::*;
use crate::mk::guarded;
use chumsky::error::Rich;
use chumsky::input::InputRef;
use chumsky::prelude::*;
use serde_json::json;

/// What one hand-written step saw: `(start, end)` pairs are spans, `(ptr, len)` pairs are slices.
#[derive(Clone, Debug, Default)]
pub struct Step {
    at_before: (usize, usize),
    span_from_before: (usize, usize),
    slice_from_before: (usize, usize),
    taken: usize,
    span_since: (usize, usize),
    slice_range: (usize, usize),
    slice_since: (usize, usize),
    span_from_after: (usize, usize),
    slice_from_after: (usize, usize),
}

macro_rules! stepper {
    ($I:ty, $E:ty, $raw:expr) => {
        custom(|inp: &mut InputRef<'s, '_, $I, $E>| {
            let raw = $raw;
            let before = inp.cursor();
            let sp0: SimpleSpan = inp.span_since(&before);
            let sf: SimpleSpan = inp.span_from(&before..);
            let lf = raw(inp.slice_from(&before..));
            // take 1 or 2 tokens depending on the position (so that steps straddle different boundaries)
            let want = 1 + (sp0.start % 2);
            let mut taken = 0;
            while taken < want && inp.next_maybe().is_some() {
                taken += 1;
            }
            if taken == 0 {
                return Err(Rich::custom(sp0, "end"));
            }
            let after = inp.cursor();
            let sp: SimpleSpan = inp.span_since(&before);
            let s1 = raw(inp.slice(&before..&after));
            let s2 = raw(inp.slice_since(&before..));
            let sa: SimpleSpan = inp.span_from(&after..);
            let la = raw(inp.slice_from(&after..));
            Ok(Step { at_before: (sp0.start, sp0.end), span_from_before: (sf.start, sf.end), slice_from_before: lf, taken, span_since: (sp.start, sp.end), slice_range: s1, slice_since: s2, span_from_after: (sa.start, sa.end), slice_from_after: la })
        })
    };
}

/// `(span, slice (ptr, len), via)` captured through `MapExtra` / `to_span` / `to_slice`
type Cap = ((usize, usize), Option<(usize, usize)>, &'static str);

fn judge_steps(steps: &[Step], base: usize, unit: usize, len: usize, boundary: &dyn Fn(usize) -> bool) -> Option<String> {
    let mut at = 0usize;
    for (k, s) in steps.iter().enumerate() {
        let bad = |what: &str| Some(format!("step {} (at offset {}): {} — {:?}", k, at, what, s));
        if s.at_before != (at, at) {
            return bad("span_since(&cursor) of the cursor itself is not the empty span at the current position");
        }
        if s.span_from_before != (at, len) {
            return bad("span_from(&cursor..) does not reach from the cursor to the end of the input");
        }
        if s.slice_from_before != (base + at * unit, len - at) {
            return bad("slice_from(&cursor..) is not input[cursor..] (address / length)");
        }
        let (a, b) = s.span_since;
        if a != at || b < a || b > len || !boundary(b) {
            return bad("span_since(&before) does not start at `before` / does not end on a token boundary inside the input");
        }
        if s.slice_range != (base + a * unit, b - a) || s.slice_since != s.slice_range {
            return bad("slice(&before..&after) / slice_since(&before..) is not input[span] (address / length)");
        }
        if s.span_from_after != (b, len) || s.slice_from_after != (base + b * unit, len - b) {
            return bad("span_from / slice_from at the new cursor do not describe input[after..]");
        }
        at = b;
    }
    None
}

fn judge_caps(caps: &[Cap], base: usize, unit: usize, len: usize, boundary: &dyn Fn(usize) -> bool) -> Option<String> {
    for ((a, b), sl, via) in caps {
        if a > b || *b > len || !boundary(*a) || !boundary(*b) {
            return Some(format!("{}: span {}..{} is inverted, outside the input (len {}) or inside a token", via, a, b, len));
        }
        if let Some((p, l)) = sl {
            if (*p, *l) != (base + a * unit, b - a) {
                return Some(format!("{}: the slice is not input[{}..{}] (address offset {} length {})", via, a, b, p.wrapping_sub(base) / unit, l));
            }
        }
    }
    None
}

macro_rules! family_on {
    ($acc:expr, $I:ty, $kind:expr, $raw:expr, $words:expr, $mk:expr, $unit:expr, $len:expr, $boundary:expr) => {{
        type EE<'s> = extra::Err<Rich<'s, char>>;
        let steps = stepper!($I, EE<'s>, $raw).repeated().collect::<Vec<Step>>().boxed();
        let raw = $raw;
        // spans and slices through MapExtra / to_span / to_slice around backtracking combinators
        let caps = {
            let word = any::<$I, EE<'s>>().filter(|c: &char| *c != ' ').repeated().at_least(1);
            let w1 = word.clone().to_slice().map_with(move |s, e| {
                let sp: SimpleSpan = e.span();
                vec![((sp.start, sp.end), Some(raw(s)), "to_slice + MapExtra::span"), ((sp.start, sp.end), Some(raw(e.slice())), "MapExtra::slice")]
            });
            let w2 = word.clone().to_span().map(|sp: SimpleSpan| vec![((sp.start, sp.end), None, "to_span")]);
            let gap = just(' ').repeated().at_least(1).to_slice().map_with(move |s, e| {
                let sp: SimpleSpan = e.span();
                vec![((sp.start, sp.end), Some(raw(s)), "gap to_slice")]
            });
            // an abandoned first alternative (word then 'é') before the kept one; an empty match in between
            let empty = empty::<$I, EE<'s>>().to_slice().map_with(move |s, e| {
                let sp: SimpleSpan = e.span();
                vec![((sp.start, sp.end), Some(raw(s)), "empty to_slice")]
            });
            choice((w1.clone().then_ignore(just('é').rewind()).then(empty).map(|(mut a, b)| { a.extend(b); a }), w2.then(w1.clone().rewind()).map(|(mut a, b)| { a.extend(b); a }).then_ignore(word.clone()), gap))
                .repeated()
                .collect::<Vec<Vec<Cap>>>()
                .map(|v| v.into_iter().flatten().collect::<Vec<Cap>>())
                .boxed()
        };
        for (wi, w) in $words.iter().enumerate() {
            let input: $I = $mk(wi);
            let base = raw(input).0;
            let len = $len(wi);
            for (name, mode) in [("custom(step via InputRef).repeated()", 0), ("MapExtra / to_span / to_slice captures", 1)] {
                $acc.evaluations += 1;
                $acc.count("api_family_cases", 1);
                let r = guarded(|| {
                    if mode == 0 {
                        let r = steps.parse(input);
                        (r.has_output(), r.output().cloned().unwrap_or_default(), vec![])
                    } else {
                        let r = caps.parse(input);
                        (r.has_output(), vec![], r.output().cloned().unwrap_or_default())
                    }
                });
                let bad = match r {
                    Err(e) => Some(e),
                    Ok((has, st, cp)) => {
                        $acc.count("api_family_spans_and_slices_checked", (st.len() * 9 + cp.len()) as u64);
                        if has && (st.len() + cp.len()) > 0 {
                            $acc.nontrivial_enum += 1;
                        }
                        if mode == 0 {
                            if !has { Some("custom stepper rejected an input".to_string()) } else { judge_steps(&st, base, $unit, len, &|o| $boundary(wi, o)) }
                        } else {
                            judge_caps(&cp, base, $unit, len, &|o| $boundary(wi, o))
                        }
                    }
                };
                if let Some(b) = bad {
                    $acc.viol(Viol { weight: 60 + w.len(), what: format!("C07: [{}] on {:?} as {}: {}", name, w, $kind, b), detail: json!({"grammar_text": name, "input": w, "input_kind": $kind, "part": "api family"}) });
                }
            }
        }
    }};
}

pub fn family<'s>(acc: &mut Acc, words: &'s [String], chars: &'s [Vec<char>]) {
    family_on!(acc, &'s str, "&str", |s: &'s str| (s.as_ptr() as usize, s.len()), words, |i: usize| words[i].as_str(), 1usize, |i: usize| words[i].len(), |i: usize, o: usize| words[i].is_char_boundary(o));
    family_on!(acc, &'s [char], "&[char]", |s: &'s [char]| (s.as_ptr() as usize, s.len()), words, |i: usize| chars[i].as_slice(), std::mem::size_of::<char>(), |i: usize| chars[i].len(), |_i: usize, _o: usize| true);
}
