//! C05 — backtracking is atomic: abandoned paths leave no trace, kept paths lose nothing.
//! Reference-model monitor over the ordered list of reported non-fatal errors, the final inspector
//! state and the probe trace (state as seen at zero-width observation points).

use crate::classes;
use crate::drv::*;
use crate::ev::*;
use crate::gram::*;
use crate::mk::*;
use crate::model::Outcome;
use crate::par::for_each_index;
use crate::rng::Rng;
use chumsky::error::Rich;
use serde_json::json;

pub fn basis() -> Basis {
    let mut b = classes::k01_core(true);
    b.leaves.push(G::leaf(Op::Probe));
    b.leaves.push(G::leaf(Op::Custom).with(|p| {
        p.n = 1;
        p.ok = false
    }));
    b.leaves.push(G::leaf(Op::Custom).with(|p| {
        p.n = 2;
        p.ok = false
    }));
    b.ctors.extend(classes::rep_light());
    b.ctors.extend(classes::fold_ctors());
    b.ctors.extend(classes::validate_ctors());
    b.ctors.extend(classes::recover_ctors());
    b.ctors.push(ctor(2, |k| G::new(Op::Group, k)));
    b.ctors.push(ctor(2, |k| G::new(Op::ChoiceTup, k)));
    b
}

fn emitters(g: &G) -> usize {
    g.count_op(&|o| matches!(o, Op::Validate | Op::RecVia | Op::RecSkipUntil | Op::RecSkipRetry | Op::RecNested))
}

fn counters(acc: &mut Acc, m: &Outcome, r: &RunOut) {
    acc.count("abandoned_emissions_in_model", m.stats.abandoned_emissions);
    acc.count("emissions_kept_under_lookahead", m.stats.lookahead_kept_emissions);
    acc.count("outputs_with_errors", (m.out.is_some() && !m.em.is_empty()) as u64);
    acc.count("reported_errors_compared", if m.out.is_some() { r.errs.len() as u64 } else { 0 });
    acc.count("recoveries_in_model", m.stats.recoveries);
    acc.count("parser_rewinds_observed", r.rewinds);
    acc.count("probe_state_observations", r.trace.len() as u64);
}

pub fn spec() -> Spec {
    Spec {
        prop: "C05",
        what: What { value: true, trace: true, state: true, emits: true, no_found: true, ..Default::default() },
        nontrivial: |m| m.out.is_some() && (m.stats.abandoned_emissions > 0 || m.stats.lookahead_kept_emissions > 0),
        amb: |m| m.stats.ambiguous_a1 || m.stats.ambiguous_a2 || m.stats.ambiguous_a9,
        counters,
        signature: no_sig,
        slice: false,
        obs: false,
        also_check: true,
    }
}

pub fn run(cx: &RunCtx) -> i32 {
    let alpha: Vec<char> = vec!['a', 'b', 'é'];
    let max_len = cx.t(4, 5);
    let bufs: Vec<Buf> = all_inputs(&alpha, max_len).iter().map(|w| Buf::new(w)).collect();
    let b = basis();
    let size = cx.t(4, 5);
    let grammars: Vec<G> = b.up_to(size).into_iter().filter(|g| (1..=2).contains(&emitters(g))).collect();
    let n_enum = grammars.len();
    let sp = spec();
    let mut acc = for_each_index(grammars.len(), cx.threads, 8, |acc, gi| {
        let g = &grammars[gi];
        let p = build::<&str, Rich<char>>(g, Opts::default());
        for buf in &bufs {
            model_case::<&str, Rich<char>>(acc, &sp, g, &p, buf, true);
        }
    });
    acc.count("enumerated_grammars", n_enum as u64);

    // targeted shapes: every emitter subtree placed in every abandoning / keeping context
    let mut eb = Basis { leaves: vec![G::just('a'), G::leaf(Op::Any), G::just_seq("ab"), G::leaf(Op::Probe)], ctors: vec![] };
    eb.ctors.extend(classes::validate_ctors());
    eb.ctors.extend(classes::recover_ctors());
    eb.ctors.push(ctor(2, |k| G::new(Op::Then, k)));
    let es: Vec<G> = eb.up_to(cx.t(3, 4)).into_iter().filter(|g| emitters(g) >= 1).collect();
    let xs = vec![G::just('a'), G::just('b'), G::leaf(Op::Any), G::leaf(Op::Empty), G::leaf(Op::Probe), G::leaf(Op::Custom).with(|p| { p.n = 1; p.ok = false })];
    let ys = vec![G::just('a'), G::leaf(Op::Any), G::leaf(Op::Empty), G::rep(G::leaf(Op::Any), 0, None, Flav::Vec), G::leaf(Op::End)];
    let shaped = classes::instantiate(&classes::abandon_templates(), &es, &xs, &ys);
    let n_shaped = shaped.len();
    let sacc = for_each_index(shaped.len(), cx.threads, 8, |acc, gi| {
        let g = &shaped[gi];
        let p = build::<&str, Rich<char>>(g, Opts::default());
        for buf in &bufs {
            model_case::<&str, Rich<char>>(acc, &sp, g, &p, buf, true);
        }
    });
    acc.merge(sacc);
    acc.count("shaped_grammars", n_shaped as u64);

    // random: larger grammars, emitters forced in, multi-byte inputs and bracket characters
    let n_rand = cx.t(30_000, 600_000);
    let seed = cx.seed;
    let mut rb = basis();
    rb.ctors.push(ctor(1, |mut k| G::un(Op::RecNested, k.remove(0))));
    rb.ctors.extend(classes::validate_ctors());
    rb.ctors.extend(classes::recover_ctors());
    let racc = for_each_index(n_rand, cx.threads, 64, |acc, i| {
        let mut rng = Rng::derive(seed, 0xC05, i as u64);
        let sz = rng.range(size + 1, 13);
        let g = rb.random(&mut rng, sz);
        if emitters(&g) == 0 {
            return;
        }
        let alpha = ['a', 'b', 'é', '(', ')', '[', ']', '𝄞'];
        let bufs: Vec<Buf> = (0..6).map(|j| Buf::new(&random_input(&mut rng, &alpha[..if j < 3 { 3 } else { 8 }], 10))).collect();
        let p = build::<&str, Rich<char>>(&g, Opts::default());
        let ps = build::<StreamK, Rich<char>>(&g, Opts::default());
        for (j, buf) in bufs.iter().enumerate() {
            model_case::<&str, Rich<char>>(acc, &sp, &g, &p, buf, false);
            if j == 0 {
                model_case::<StreamK, Rich<char>>(acc, &sp, &g, &ps, buf, false);
            }
        }
    });
    acc.merge(racc);
    acc.count("random_grammars", n_rand as u64);

    finish(
        cx,
        acc,
        Finish {
            rule: format!("every grammar with <= {size} nodes over the K02 basis (core combinators, repetition/separator/fold, probes, custom parsers that fail after consuming) that contains 1 or 2 emitters (validate x1/x2, recover_with via_parser/skip_until/skip_then_retry_until) x every input <= {max_len} over {{a,b,é}}, in parse and check mode; {n_shaped} shaped grammars (20 abandoning/keeping contexts: alternatives, options, repetition and separator attempts, not, and_is, rewind, folds, collect_exactly, rejecting filter/try_map, group, delimited_by — each around every emitter subtree of a small class, with 6 x 5 neighbour leaves) x the same inputs; plus {n_rand} random grammars of {}..13 nodes (also nested_delimiters) x 6 inputs; compared: ordered list of reported errors (tags, spans, recovered errors) when there is an output, output value with every node's extent, final inspector state, inspector state at every probe; non-trivial: the parse has an output and the reference evaluation abandoned >= 1 emission or kept >= 1 emission under and_is/rewind", size + 1),
            exhaustive: false,
            exhaustive_note: format!("grammars <= {size} nodes with 1..2 emitters x inputs <= {max_len}: complete"),
            assumptions: vec![
                "oracle = reference PEG interpreter in which emissions are returned functionally (abandoned paths leave no trace by construction)".into(),
                "A3: emissions of the second parser of and_is may or may not be reported; A9: >= 2 successful recoveries compared leniently; P3: order at a recovery site = fallback's emissions, then the recovered error".into(),
                "inspector state observed through zero-width custom() probes in both modes".into(),
            ],
            require: vec![("abandoned_emissions_in_model".into(), 1000), ("emissions_kept_under_lookahead".into(), 100), ("outputs_with_errors".into(), 1000), ("probe_state_observations".into(), 1000)],
            min_evaluations: 10_000,
        },
    )
}
