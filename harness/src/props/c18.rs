//! C18 — user state and inspectors see a history consistent with the parse.  Reference-model
//! monitor: every node observes the inspector state (map_with), as do select closures, fold
//! callbacks and zero-width custom probes; each observation must equal the fold of exactly the
//! tokens before that position (per with_state scope), the final state the fold of the whole input.

use crate::classes;
use crate::drv::*;
use crate::ev::*;
use crate::gram::*;
use crate::mk::*;
use crate::model::Outcome;
use crate::par::for_each_index;
use crate::rng::Rng;
use crate::val::Val;
use chumsky::error::Rich;

pub fn basis() -> Basis {
    let mut b = classes::k01_core(true);
    b.leaves.push(G::leaf(Op::Probe));
    b.leaves.push(G::set(Op::Select, "bé"));
    b.leaves.push(G::leaf(Op::Custom).with(|p| {
        p.n = 2;
        p.ok = false
    }));
    // custom parsers driving the InputRef API by hand: peek()+skip(), and save / consume / rewind / consume again
    b.leaves.push(G::leaf(Op::Custom).with(|p| {
        p.n = 1;
        p.ok = true;
        p.lo = 1
    }));
    b.leaves.push(G::leaf(Op::Custom).with(|p| {
        p.n = 2;
        p.ok = true;
        p.lo = 3
    }));
    b.ctors.extend(classes::rep_light());
    b.ctors.extend(classes::fold_ctors());
    b.ctors.extend(classes::recover_ctors());
    b.ctors.push(ctor(1, |mut k| G::un(Op::WithState, k.remove(0)).with(|p| p.n = 5)));
    b
}

fn count_obs(v: &Val, n: &mut u64) {
    match v {
        Val::Obs { .. } => *n += 1,
        Val::Node { v, .. } | Val::Tag(_, v) | Val::Opt(Some(v)) => count_obs(v, n),
        Val::Seq(x) => x.iter().for_each(|y| count_obs(y, n)),
        Val::Pair(a, b) => {
            count_obs(a, n);
            count_obs(b, n)
        }
        Val::FoldW { acc, x, .. } => {
            count_obs(acc, n);
            count_obs(x, n)
        }
        _ => {}
    }
}

fn counters(acc: &mut Acc, m: &Outcome, r: &RunOut) {
    if let Some(v) = &r.out {
        let mut n = 0;
        count_obs(v, &mut n);
        acc.count("state_observations_in_outputs", n);
        acc.count("final_states_compared", 1);
        acc.count("accepted_after_backtracking", (m.stats.backtracks > 0) as u64);
        acc.count("accepted_after_recovery", (m.stats.recoveries > 0) as u64);
    }
    acc.count("probe_state_observations", r.trace.len() as u64);
    acc.count("parser_rewinds_observed", r.rewinds);
}

pub fn spec() -> Spec {
    Spec {
        prop: "C18",
        what: What { value: true, state: true, trace: true, ..Default::default() },
        nontrivial: |m| m.out.is_some() && m.stats.backtracks > 0,
        amb: |m| m.stats.ambiguous_a1 || m.stats.ambiguous_a2 || m.stats.ambiguous_a9,
        counters,
        signature: no_sig,
        slice: false,
        obs: true,
        also_check: true,
    }
}

fn on_kind<'s, I: Kind<'s>>(acc: &mut Acc, sp: &Spec, g: &G, bufs: &'s [Buf], step: usize, enumerated: bool)
where
    I::Span: Clone + 's,
{
    let p = build::<I, Rich<'s, char, I::Span>>(g, Opts { wrap: true, slice: false, obs: true, track: false, clone_iter: false });
    for buf in bufs.iter().step_by(step) {
        model_case::<I, Rich<'s, char, I::Span>>(acc, sp, g, &p, buf, enumerated);
    }
}

pub fn run(cx: &RunCtx) -> i32 {
    let alpha: Vec<char> = vec!['a', 'b', 'é'];
    let max_len = cx.t(4, 5);
    let bufs: Vec<Buf> = all_inputs(&alpha, max_len).iter().map(|w| Buf::new(w)).collect();
    let b = basis();
    let size = cx.t(3, 4);
    let grammars: Vec<G> = b.up_to(size);
    let n_enum = grammars.len();
    let sp = spec();
    let mut acc = for_each_index(grammars.len(), cx.threads, 8, |acc, gi| {
        let g = &grammars[gi];
        on_kind::<&str>(acc, &sp, g, &bufs, 1, true);
        on_kind::<&[char]>(acc, &sp, g, &bufs, 3, true);
        on_kind::<StreamK>(acc, &sp, g, &bufs, 3, true);
    });
    acc.count("enumerated_grammars", n_enum as u64);

    // shaped: with_state scopes inside repetitions / choices / recovery, observation points around them
    let obs_kids: Vec<G> = vec![
        G::leaf(Op::Probe),
        G::bin(Op::Then, G::leaf(Op::Any), G::leaf(Op::Probe)),
        G::set(Op::Select, "abé"),
        G::bin(Op::Then, G::just('a'), G::un(Op::OrNot, G::bin(Op::Then, G::just('b'), G::leaf(Op::Probe)))),
        G::rep(G::bin(Op::Then, G::leaf(Op::Any), G::leaf(Op::Probe)), 0, Some(2), Flav::Vec),
    ];
    let mut shaped: Vec<G> = vec![];
    for k in &obs_kids {
        let ws = G::un(Op::WithState, k.clone()).with(|p| p.n = 9);
        let tail = G::rep(G::bin(Op::Then, G::leaf(Op::Any), G::leaf(Op::Probe)), 0, None, Flav::Vec);
        shaped.push(G::bin(Op::Then, ws.clone(), tail.clone()));
        shaped.push(G::bin(Op::Then, G::rep(G::bin(Op::Then, G::leaf(Op::Any), ws.clone()), 0, Some(2), Flav::Vec), tail.clone()));
        shaped.push(G::bin(Op::Then, G::bin(Op::Or, G::bin(Op::Then, ws.clone(), G::just('b')), G::leaf(Op::Probe)), tail.clone()));
        shaped.push(G::bin(Op::Then, G::un(Op::WithState, G::bin(Op::Then, G::leaf(Op::Any), G::un(Op::WithState, k.clone()).with(|p| p.n = 2))).with(|p| p.n = 7), tail.clone()));
        shaped.push(G::bin(Op::Then, G::bin(Op::RecVia, G::bin(Op::Then, ws.clone(), G::just('b')), G::bin(Op::Then, G::leaf(Op::Any), G::leaf(Op::Probe))), tail.clone()));
        shaped.push(G::bin(Op::Then, G::un(Op::Not, G::bin(Op::Then, G::leaf(Op::Any), ws.clone())), tail.clone()));
        shaped.push(G::bin(Op::Then, G::bin(Op::AndIs, G::rep(G::leaf(Op::Any), 0, Some(2), Flav::Vec), ws.clone()), tail.clone()));
        let mut f = G::new(Op::Foldl, vec![G::leaf(Op::Probe), G::rep(G::bin(Op::Then, G::leaf(Op::Any), ws.clone()), 0, None, Flav::Unit)]);
        f.p.ok = true;
        shaped.push(f);
        let mut f = G::new(Op::Foldr, vec![G::rep(G::bin(Op::Then, G::just('a'), k.clone()), 0, Some(2), Flav::Unit), G::leaf(Op::Any)]);
        f.p.ok = true;
        shaped.push(G::bin(Op::Then, f, tail));
    }
    let shaped: Vec<G> = shaped.into_iter().filter(|g| g.well_formed()).map(|g| g.numbered()).collect();
    let n_shaped = shaped.len();
    let sacc = for_each_index(shaped.len(), cx.threads, 1, |acc, gi| {
        let g = &shaped[gi];
        on_kind::<&str>(acc, &sp, g, &bufs, 1, true);
        on_kind::<&[char]>(acc, &sp, g, &bufs, 1, true);
        on_kind::<StreamK>(acc, &sp, g, &bufs, 1, true);
    });
    acc.merge(sacc);
    acc.count("shaped_grammars", n_shaped as u64);

    let n_rand = cx.t(20_000, 400_000);
    let seed = cx.seed;
    let racc = for_each_index(n_rand, cx.threads, 64, |acc, i| {
        let mut rng = Rng::derive(seed, 0xC18, i as u64);
        let sz = rng.range(size + 1, 13);
        let g = b.random(&mut rng, sz);
        let bufs: Vec<Buf> = (0..5).map(|_| Buf::new(&random_input(&mut rng, &SIGMA_PLUS, 10))).collect();
        match i % 3 {
            0 => on_kind::<&str>(acc, &sp, &g, &bufs, 1, false),
            1 => on_kind::<&[char]>(acc, &sp, &g, &bufs, 1, false),
            _ => on_kind::<StreamK>(acc, &sp, &g, &bufs, 1, false),
        }
    });
    acc.merge(racc);
    acc.count("random_grammars", n_rand as u64);

    // API family (model-free): every observation carries its own position
    let api_alpha = ['a', '1', ' ', '\n', '\r', '(', ')', ',', 'é'];
    let api_len = cx.t(4, 5);
    let mut api_chars: Vec<Vec<char>> = all_inputs(&api_alpha, api_len);
    {
        const WORDS: &[&str] = &["a1", "a", "1", "12", "0", " ", "  ", "\n", "\r\n", "\r", "\n\r", "(", ")", "[", "]", ",", "é", "𝄞", "\t", "\u{2028}", "\u{85}", "e\u{301}", "a1a", "x_1"];
        let mut rng = Rng::derive(seed, 0xC18A, 0);
        for _ in 0..cx.t(3000, 60_000) {
            let n = rng.range(1, 12);
            let mut s = String::new();
            for _ in 0..n {
                let w: &&str = rng.pick(WORDS);
                s.push_str(w);
            }
            api_chars.push(s.chars().collect());
        }
    }
    let api_words: Vec<String> = api_chars.iter().map(|c| c.iter().collect()).collect();
    let n_api = api_words.len();
    const CH: usize = 128;
    let aacc = for_each_index((n_api + CH - 1) / CH, cx.threads, 1, |acc, ci| {
        let lo = ci * CH;
        let hi = (lo + CH).min(n_api);
        super::c18api::family(acc, &api_words[lo..hi], &api_chars[lo..hi]);
    });
    acc.merge(aacc);
    acc.count("api_family_inputs", n_api as u64);

    finish(
        cx,
        acc,
        Finish {
            rule: format!("every grammar with <= {size} nodes over the K02 basis + all recovery strategies + with_state + select + probes x every input <= {max_len} over {{a,b,é}} on &str (every 3rd input on &[char] and Stream), every node wrapped in a map_with that reads the inspector state; {n_shaped} shaped grammars (with_state scopes inside repetitions, abandoned alternatives, recovery, not, and_is, nested with_state, foldl_with/foldr_with callbacks reading the state); {n_rand} random grammars x 5 inputs; parse and check mode. The inspector is a snapshot-checkpoint inspector (token count + rolling hash); every observation (node map_with, select closure, fold callback, zero-width custom probe — the probes also in check mode) must equal the fold of exactly the tokens before the observation point within its with_state scope, the final state the fold of the whole input outside with_state scopes. Pratt fold callbacks observing the state are checked by the C09 driver. API family (model-free; every observation carries its own position, so state == fold(input[..position]) is judged without a grammar model, on kept and abandoned paths, in parse and check mode): {} statically typed parsers outside the grammar AST (text::padded/whitespace/inline_whitespace/newline/int/digits/ident/keyword, string just, regex, one_of/none_of runs under lookahead, skip_until / skip_then_retry_until / nested_delimiters recovery, Pratt with observing fold callbacks, foldl_with/foldr_with, select!/filter/try_map/validate, custom parsers driving InputRef::next/next_maybe/peek/skip/parse/check/save/rewind by hand, memoized/labelled/map_err) x every string <= {api_len} over {{a,1,space,LF,CR,(,),comma,é}} + random word strings = {n_api} inputs, each as &str, &[char] and Stream. Non-trivial: accepted input whose reference evaluation backtracked", super::c18api::N_PARSERS),
            exhaustive: false,
            exhaustive_note: format!("grammars <= {size} nodes x inputs <= {max_len} on &str: complete"),
            assumptions: vec!["select closures run after their token has been taken: they see the state including that token".into(), "foldr_with callbacks run after the whole fold has been parsed: they see the state at its end".into()],
            require: vec![("state_observations_in_outputs".into(), 100_000), ("final_states_compared".into(), 10_000), ("accepted_after_backtracking".into(), 10_000), ("accepted_after_recovery".into(), 1000), ("probe_state_observations".into(), 10_000), ("api_family_observations".into(), 100_000), ("api_family_final_states_compared".into(), 10_000)],
            min_evaluations: 10_000,
        },
    )
}
