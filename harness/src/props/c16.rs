//! C16 — nested inputs are parsed completely, in isolation, and report back faithfully.
//! (1) reference-model monitor over grammars with `a.nested_in(b.to_slice())` at arbitrary positions
//! and nesting, on &str, &[char] and a gapped-span mapped slice; (2) a token-tree family (spanned
//! tokens with `Group(..)` children, depth <= 4) against an independent recursive recogniser.

use crate::classes;
use crate::drv::*;
use crate::ev::*;
use crate::gram::*;
use crate::mk::*;
use crate::model::Outcome;
use crate::par::for_each_index;
use crate::rng::Rng;
use chumsky::error::Rich;
use chumsky::input::Input as _;
use chumsky::prelude::*;
use serde_json::json;

pub fn basis() -> Basis {
    let mut b = classes::k01_core(false);
    b.leaves.push(G::leaf(Op::Probe));
    b.ctors.extend(classes::rep_light());
    b.ctors.extend(classes::validate_ctors());
    b.ctors.push(ctor(2, |k| G::new(Op::NestedIn, k)));
    b
}

fn nested(g: &G) -> usize {
    g.count_op(&|o| o == Op::NestedIn)
}

fn counters(acc: &mut Acc, m: &Outcome, _r: &RunOut) {
    acc.count("nested_parses_in_model", m.stats.nested_runs);
    acc.count("nested_parses_failed_in_model", m.stats.nested_failures);
    acc.count("nested_parses_incomplete_in_model", m.stats.nested_incomplete);
    acc.count("accepted_with_nested_parse", (m.out.is_some() && m.stats.nested_runs > 0) as u64);
    acc.count("inner_emissions_surfaced", if m.out.is_some() { m.em.iter().filter(|e| e.nested).count() as u64 } else { 0 });
    acc.count("backtracked_over_failed_nested_parse", (m.stats.nested_failures > 0 && m.out.is_some()) as u64);
    if m.out.is_none() {
        acc.count("primary_error_from_inner_failure", m.pend.as_ref().map(|p| p.from_nested).unwrap_or(false) as u64);
    }
}

pub fn spec() -> Spec {
    Spec {
        prop: "C16",
        what: What { value: true, emits: true, primary: true, state: true, no_found: true, ..Default::default() },
        nontrivial: |m| m.stats.nested_runs > 0,
        amb: |m| m.stats.ambiguous_a1 || m.stats.ambiguous_a2,
        counters,
        signature: no_sig,
        slice: false,
        obs: false,
        also_check: true,
    }
}

fn on_kind<'s, I: Kind<'s>>(acc: &mut Acc, sp: &Spec, g: &G, bufs: &'s [Buf], step: usize, enumerated: bool)
where
    I::Span: Clone + 's,
{
    let p = build::<I, Rich<'s, char, I::Span>>(g, Opts::default());
    for buf in bufs.iter().step_by(step) {
        model_case::<I, Rich<'s, char, I::Span>>(acc, sp, g, &p, buf, enumerated);
    }
}

// -----------------------------------------------------------------------------------------------
// Token-tree family

#[derive(Clone, Debug, PartialEq)]
enum TT {
    A,
    B,
    C,
    Group(Vec<(TT, SimpleSpan)>),
}

/// Random token tree with gapped spans; returns the tokens and the next free offset.
fn gen_tree(rng: &mut Rng, depth: usize, at: &mut usize) -> Vec<(TT, SimpleSpan)> {
    let n = rng.below(5);
    let mut out = vec![];
    for _ in 0..n {
        let start = *at + 1 + rng.below(3);
        let t = match rng.below(if depth > 0 { 5 } else { 3 }) {
            0 => TT::A,
            1 => TT::B,
            2 => TT::C,
            _ => {
                let mut inner_at = start + 1;
                let kids = gen_tree(rng, depth - 1, &mut inner_at);
                *at = inner_at;
                TT::Group(kids)
            }
        };
        let end = (*at).max(start) + 1 + rng.below(2);
        *at = end;
        out.push((t, SimpleSpan::from(start..end)));
    }
    out
}

/// Level grammar (same at every level): `A (B | Group)* C?` where every Group must itself match the
/// level grammar completely.  Independent recogniser: returns the number of A..C-tokens seen in total,
/// or the depth-first index path of the first failure.
fn recognise(ts: &[(TT, SimpleSpan)]) -> Option<u32> {
    let mut it = ts.iter().peekable();
    let mut count = 0;
    match it.next() {
        Some((TT::A, _)) => count += 1,
        _ => return None,
    }
    loop {
        match it.peek() {
            Some((TT::B, _)) => {
                count += 1;
                it.next();
            }
            Some((TT::Group(k), _)) => {
                count += recognise(k)? + 100;
                it.next();
            }
            _ => break,
        }
    }
    if let Some((TT::C, _)) = it.peek() {
        count += 1;
        it.next();
    }
    if it.next().is_some() {
        return None;
    }
    Some(count)
}

/// The lenient variant: a group whose inside is ill-formed is skipped by an enclosing choice
/// (`well-formed group | any group -> 1000`), so the outer grammar backtracks over the failed nested parse.
fn recognise_lenient(ts: &[(TT, SimpleSpan)]) -> Option<u32> {
    let mut it = ts.iter().peekable();
    let mut count = 0;
    match it.next() {
        Some((TT::A, _)) => count += 1,
        _ => return None,
    }
    loop {
        match it.peek() {
            Some((TT::B, _)) => {
                count += 1;
                it.next();
            }
            Some((TT::Group(k), _)) => {
                count += match recognise_lenient(k) {
                    Some(c) => c + 100,
                    None => 1000,
                };
                it.next();
            }
            _ => break,
        }
    }
    if let Some((TT::C, _)) = it.peek() {
        count += 1;
        it.next();
    }
    if it.next().is_some() {
        return None;
    }
    Some(count)
}

type TIn<'s> = chumsky::input::MappedInput<TT, SimpleSpan, &'s [(TT, SimpleSpan)], fn(&'s (TT, SimpleSpan)) -> (&'s TT, &'s SimpleSpan)>;
fn split<'s>(x: &'s (TT, SimpleSpan)) -> (&'s TT, &'s SimpleSpan) {
    (&x.0, &x.1)
}
fn tin<'s>(ts: &'s [(TT, SimpleSpan)], eoi: SimpleSpan) -> TIn<'s> {
    let f: fn(&'s (TT, SimpleSpan)) -> (&'s TT, &'s SimpleSpan) = split;
    ts.map(eoi, f)
}

type TE<'s> = extra::Err<Rich<'s, TT>>;

fn tree_parser<'s>(lenient: bool) -> impl Parser<'s, TIn<'s>, u32, TE<'s>> {
    recursive(move |level| {
        let a = select_ref! { TT::A => 1u32 };
        let b = select_ref! { TT::B => 1u32 };
        let c = select_ref! { TT::C => 1u32 };
        let inner = select_ref! { TT::Group(k) = e => { let sp: SimpleSpan = e.span(); tin(k.as_slice(), SimpleSpan::from(sp.end..sp.end)) } };
        let group = level.nested_in(inner).map(|n: u32| n + 100);
        let any_group = select_ref! { TT::Group(_k) => 1000u32 };
        let item = if lenient { choice((b, group, any_group)).boxed() } else { choice((b, group)).boxed() };
        a.then(item.repeated().collect::<Vec<u32>>()).then(c.or_not()).map(|((a, v), c)| a + v.iter().sum::<u32>() + c.unwrap_or(0))
    })
}

fn depth_of(ts: &[(TT, SimpleSpan)]) -> usize {
    1 + ts.iter().map(|(t, _)| if let TT::Group(k) = t { depth_of(k) } else { 0 }).max().unwrap_or(0)
}

fn tree_family(acc: &mut Acc, seed: u64, n: usize) {
    let mut trees: Vec<(Vec<(TT, SimpleSpan)>, usize)> = vec![];
    for i in 0..n {
        let mut rng = Rng::derive(seed, 0xC16, i as u64);
        let mut at = 0;
        let mut ts = gen_tree(&mut rng, 3, &mut at);
        // bias towards well-formed levels: force the first token of most levels to A
        fn fix(ts: &mut Vec<(TT, SimpleSpan)>, rng: &mut Rng) {
            if !ts.is_empty() && rng.chance(3, 4) {
                ts[0].0 = TT::A;
            }
            for (t, _) in ts.iter_mut() {
                if let TT::Group(k) = t {
                    fix(k, rng);
                }
            }
        }
        fix(&mut ts, &mut rng);
        trees.push((ts, at));
    }
    let strict = tree_parser(false);
    let lenient = tree_parser(true);
    for (ts, at) in trees.iter() {
        let at = *at;
        let eoi = SimpleSpan::from(at + 1..at + 1);
        acc.evaluations += 1;
        let want_strict = recognise(ts);
        let want_len = recognise_lenient(ts);
        let has_group = ts.iter().any(|(t, _)| matches!(t, TT::Group(_)));
        if has_group {
            acc.nontrivial_rand.insert(crate::rng::hash64(format!("{:?}", ts).as_bytes()));
        }
        acc.maxc("max_token_tree_depth", depth_of(ts) as u64);
        let run1 = |lenient_p: bool| {
            guarded(|| {
                let r = if lenient_p { lenient.parse(tin(ts, eoi)) } else { strict.parse(tin(ts, eoi)) };
                (r.has_output(), r.output().copied(), r.errors().map(|e| (e.span().start, e.span().end)).collect::<Vec<_>>())
            })
        };
        for (name, want, r) in [("strict", want_strict, run1(false)), ("lenient", want_len, run1(true))] {
            acc.count(&format!("token_tree_runs_{}", name), 1);
            match r {
                Err(e) => acc.viol(Viol { weight: at, what: format!("C16: token-tree family ({}): {}", name, e), detail: json!({"tokens": format!("{:?}", ts)}) }),
                Ok((has, out, errs)) => {
                    acc.count("token_tree_accepted", has as u64);
                    if name == "lenient" && want_len.is_some() && want_strict.is_none() {
                        acc.count("token_tree_backtracked_over_failed_nested_parse", 1);
                    }
                    if has != want.is_some() || (has && out != want) {
                        acc.viol(Viol {
                            weight: at,
                            what: format!("C16: token-tree family ({}): parser {} (output {:?}, errors at {:?}) but the independent recogniser says {:?}", name, if has { "accepts" } else { "rejects" }, out, errs, want),
                            detail: json!({"tokens": format!("{:?}", ts)}),
                        });
                    } else if !has && errs.is_empty() {
                        acc.viol(Viol { weight: at, what: format!("C16: token-tree family ({}): rejected without an error", name), detail: json!({"tokens": format!("{:?}", ts)}) });
                    } else if has && !errs.is_empty() {
                        acc.viol(Viol { weight: at, what: format!("C16: token-tree family ({}): accepted with errors {:?}", name, errs), detail: json!({"tokens": format!("{:?}", ts)}) });
                    }
                }
            }
        }
    }
}

/// Metamorphic monitor (real vs real): `a.nested_in(any().repeated().to_slice())` on `w` against `a` run
/// directly on `w` — the nested parse sees exactly the same tokens, so acceptance, the output and the
/// number and kind of reported errors (emitted ones *and* the final failure, also when the nested parse
/// fails after having emitted) must be the same.
fn nested_vs_direct<'s>(acc: &mut Acc, ga: &G, bufs: &'s [Buf], enumerated: bool) {
    let direct = ga.clone().numbered();
    let nest = G::bin(Op::NestedIn, ga.clone(), G::rep(G::leaf(Op::Any), 0, None, Flav::Unit)).numbered();
    let o = Opts { wrap: false, ..Opts::default() };
    let pd = build::<&str, Rich<char>>(&direct, o);
    let pn = build::<&str, Rich<char>>(&nest, o);
    // error kinds modulo node ids (the two grammars are numbered differently)
    fn kinds(r: &RunOut) -> Vec<String> {
        // "E12.0" -> "E.0", "T3" -> "T", "C4:short" -> "C:short"
        fn no_id(c: &str) -> String {
            let head: String = c.chars().take_while(|x| x.is_alphabetic()).collect();
            let rest: String = c.chars().skip(head.chars().count()).skip_while(|x| x.is_ascii_digit()).collect();
            format!("{}{}", head, rest)
        }
        r.errs.iter().map(|e| match &e.custom { Some(c) => format!("custom {}", no_id(c)), None => "syntax".to_string() }).collect()
    }
    for buf in bufs {
        acc.evaluations += 1;
        let a = guarded(|| run_parse(&pd, buf, 0, STEP_BUDGET));
        let b = guarded(|| run_parse(&pn, buf, 0, STEP_BUDGET));
        if let (Ok(a), Ok(b)) = (a, b) {
            acc.count("nested_vs_direct_comparisons", 1);
            let emitted_and_failed = !a.has_output && a.errs.len() >= 2;
            if emitted_and_failed {
                acc.count("nested_vs_direct_failing_after_emission", 1);
                note_nontrivial(acc, enumerated, || format!("nvd|{}|{}", ga.show(), buf.text));
            }
            let d = if a.has_output != b.has_output {
                Some(format!("acceptance differs: direct {} vs nested {}", a.has_output, b.has_output))
            } else if kinds(&a) != kinds(&b) {
                Some(format!("reported errors differ: direct {:?} vs nested {:?}", a.errs.iter().map(|e| e.show()).collect::<Vec<_>>(), b.errs.iter().map(|e| e.show()).collect::<Vec<_>>()))
            } else {
                None
            };
            if let Some(d) = d {
                acc.viol(Viol::case(format!("C16: a.nested_in(<the whole input>) vs a applied directly: {}", d), &nest, &buf.chars, json!({"direct": direct.show()})));
            }
        }
    }
}

pub fn run(cx: &RunCtx) -> i32 {
    let alpha: Vec<char> = vec!['a', 'b', 'é'];
    let max_len = cx.t(4, 5);
    let bufs: Vec<Buf> = all_inputs(&alpha, max_len).iter().map(|w| Buf::new(w)).collect();
    let b = basis();
    let size = cx.t(4, 5);
    let grammars: Vec<G> = b.up_to(size).into_iter().filter(|g| nested(g) >= 1).collect();
    let n_enum = grammars.len();
    let sp = spec();
    let mut acc = for_each_index(grammars.len(), cx.threads, 8, |acc, gi| {
        let g = &grammars[gi];
        on_kind::<&[char]>(acc, &sp, g, &bufs, 1, true);
        on_kind::<&str>(acc, &sp, g, &bufs, 2, true);
        on_kind::<MappedK>(acc, &sp, g, &bufs, 2, true);
    });
    acc.count("enumerated_grammars", n_enum as u64);

    // shaped: nested parse inside choices / repetitions / nested twice, with emitters inside
    let inner: Vec<G> = vec![
        G::just('a'),
        G::just_seq("ab"),
        G::rep(G::just('a'), 0, None, Flav::Vec),
        G::bin(Op::Then, G::just('a'), G::un(Op::OrNot, G::just('b'))),
        G::un(Op::Validate, G::leaf(Op::Any)).with(|p| p.n = 1),
        G::bin(Op::Then, G::un(Op::Validate, G::just('a')).with(|p| p.n = 2), G::leaf(Op::Probe)),
        G::bin(Op::Or, G::just_seq("ab"), G::just('a')),
    ];
    let outer: Vec<G> = vec![G::leaf(Op::Any), G::bin(Op::Then, G::leaf(Op::Any), G::leaf(Op::Any)), G::rep(G::set(Op::OneOf, "ab"), 1, None, Flav::Unit), G::rep(G::leaf(Op::Any), 0, Some(2), Flav::Unit), G::just_seq("ab")];
    let mut shaped: Vec<G> = vec![];
    for a in &inner {
        for bb in &outer {
            let n = G::new(Op::NestedIn, vec![a.clone(), bb.clone()]);
            shaped.push(G::bin(Op::Then, n.clone(), G::rep(G::leaf(Op::Any), 0, None, Flav::Str)));
            shaped.push(G::bin(Op::Or, n.clone(), G::rep(G::leaf(Op::Any), 0, None, Flav::Str)));
            shaped.push(G::rep(n.clone(), 0, None, Flav::Vec));
            shaped.push(G::bin(Op::Then, G::un(Op::OrNot, n.clone()), G::rep(G::leaf(Op::Any), 0, None, Flav::Unit)));
            // nested twice: the inner input of the outer nested_in contains another nested_in
            shaped.push(G::new(Op::NestedIn, vec![G::bin(Op::Then, n.clone(), G::rep(G::leaf(Op::Any), 0, None, Flav::Unit)), G::rep(G::leaf(Op::Any), 0, Some(3), Flav::Unit)]));
            shaped.push(G::new(Op::NestedIn, vec![G::new(Op::NestedIn, vec![G::new(Op::NestedIn, vec![a.clone(), bb.clone()]), G::rep(G::leaf(Op::Any), 0, None, Flav::Unit)]), G::rep(G::leaf(Op::Any), 0, None, Flav::Unit)]));
        }
    }
    let shaped: Vec<G> = shaped.into_iter().filter(|g| g.well_formed()).map(|g| g.numbered()).collect();
    let n_shaped = shaped.len();
    let sacc = for_each_index(shaped.len(), cx.threads, 4, |acc, gi| {
        let g = &shaped[gi];
        on_kind::<&[char]>(acc, &sp, g, &bufs, 1, true);
        on_kind::<&str>(acc, &sp, g, &bufs, 1, true);
        on_kind::<MappedK>(acc, &sp, g, &bufs, 1, true);
    });
    acc.merge(sacc);
    acc.count("shaped_grammars", n_shaped as u64);

    let n_rand = cx.t(10_000, 200_000);
    let seed = cx.seed;
    let racc = for_each_index(n_rand, cx.threads, 64, |acc, i| {
        let mut rng = Rng::derive(seed, 0xC16, i as u64);
        let sz = rng.range(size + 1, 12);
        let g = b.random(&mut rng, sz);
        if nested(&g) == 0 {
            return;
        }
        let bufs: Vec<Buf> = (0..5).map(|_| Buf::new(&random_input(&mut rng, &SIGMA_PLUS, 9))).collect();
        on_kind::<&[char]>(acc, &sp, &g, &bufs, 1, false);
        on_kind::<&str>(acc, &sp, &g, &bufs, 2, false);
        on_kind::<MappedK>(acc, &sp, &g, &bufs, 2, false);
    });
    acc.merge(racc);

    // token trees
    let n_trees = cx.t(40_000, 1_000_000);
    // (1b) nested vs direct
    let mut mb = classes::k01_core(false);
    mb.ctors.extend(classes::rep_light());
    mb.ctors.extend(classes::validate_ctors());
    mb.ctors.push(ctor(2, |k| G::new(Op::RecVia, k)));
    let mgs: Vec<G> = mb.up_to(cx.t(4, 5)).into_iter().filter(|g| g.any_node(&|n| matches!(n.op, Op::Validate | Op::RecVia))).collect();
    let m_bufs: Vec<Buf> = all_inputs(&['a', 'b', 'é'], cx.t(3, 4)).iter().map(|w| Buf::new(w)).collect();
    let n_meta = mgs.len();
    let macc = for_each_index(mgs.len(), cx.threads, 8, |acc, gi| nested_vs_direct(acc, &mgs[gi], &m_bufs, true));
    acc.merge(macc);
    acc.count("nested_vs_direct_grammars", n_meta as u64);

    let tacc = for_each_index(16, cx.threads, 1, |acc, shard| {
        tree_family(acc, seed.wrapping_mul(31).wrapping_add(shard as u64), n_trees / 16);
    });
    acc.merge(tacc);

    finish(
        cx,
        acc,
        Finish {
            rule: format!("(1b) metamorphic, real vs real: for every grammar a (<= 4/5 nodes, with validate emitters / via_parser recovery) and every small input w, a.nested_in(any().repeated().to_slice()) on w must give the same acceptance, output and the same number and kinds of reported errors as a on w, in particular when the nested parse fails after having emitted; (1) every grammar with <= {size} nodes over the K02 basis + validate + probes containing >= 1 a.nested_in(b.to_slice()) x every input <= {max_len} over {{a,b,é}} on &[char] (and every 2nd input on &str and on a gapped-span mapped slice); {n_shaped} shaped grammars (nested parse followed by a tail / inside a choice / a repetition / an abandoned option / nested two and three levels deep, with validate emitters and probes inside); {n_rand} random grammars x 5 inputs; parse and check mode; compared with the reference semantics: the inner grammar runs on exactly the tokens b consumed and must match them completely, the outer input advances by exactly b's extent, inner emissions surface, an inner failure makes the nested parser fail (enclosing choices/repetitions backtrack), inspector state continues through the inner parse. (2) {n_trees} random token trees (tokens A,B,C,Group(children) with gapped spans, depth <= 4) parsed by a recursive nested_in grammar `A (B | Group)* C?` — strict, and lenient where an enclosing choice falls back to `any group` when the nested parse fails — against an independent recursive recogniser. Non-trivial: the reference evaluation ran >= 1 nested parse / the tree contains a group"),
            exhaustive: false,
            exhaustive_note: format!("grammars <= {size} nodes with >= 1 nested_in x inputs <= {max_len} on &[char]: complete"),
            assumptions: vec![
                "A6: spans of errors produced inside a nested input are not compared (only their presence, order and content); the code has a TODO about translating them".into(),
                "spans of values produced inside a nested &str/&[char] are relative to the inner input; the harness re-bases them by the start of the region before comparing".into(),
            ],
            require: vec![("nested_parses_in_model".into(), 10_000), ("nested_parses_failed_in_model".into(), 1000), ("nested_parses_incomplete_in_model".into(), 1000), ("inner_emissions_surfaced".into(), 1000), ("backtracked_over_failed_nested_parse".into(), 1000), ("primary_error_from_inner_failure".into(), 1000), ("token_tree_accepted".into(), 1000), ("token_tree_backtracked_over_failed_nested_parse".into(), 100), ("max_token_tree_depth".into(), 4), ("nested_vs_direct_comparisons".into(), 10_000), ("nested_vs_direct_failing_after_emission".into(), 100)],
            min_evaluations: 10_000,
        },
    )
}
