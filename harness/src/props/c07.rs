//! C07 — spans and slices are exact, well-formed and zero-copy.  Reference-model monitor: every node
//! of every grammar is wrapped in a span + slice capture; extents, slice text and slice *address*
//! are compared with the reference evaluation, on contiguous and on gapped-span input kinds.

use crate::classes;
use crate::drv::*;
use crate::ev::*;
use crate::gram::*;
use crate::mk::*;
use crate::model::Outcome;
use crate::par::for_each_index;
use crate::rng::Rng;
use chumsky::error::Rich;

pub fn basis(value: bool) -> Basis {
    let mut b = classes::k01(value);
    if !value {
        // kinds that only implement `Input`
        b.leaves.retain(|g| !matches!(g.op, Op::Any | Op::OneOf | Op::NoneOf | Op::Select));
    }
    b.leaves.push(G::leaf(Op::Probe));
    b.ctors.extend(classes::rep_light());
    b.ctors.extend(classes::fold_ctors());
    b.ctors.extend(classes::validate_ctors());
    b
}

fn counters(acc: &mut Acc, m: &Outcome, r: &RunOut) {
    if let Some(v) = &r.out {
        let mut nodes = 0u64;
        let mut empty = 0u64;
        let mut slices = 0u64;
        count_nodes(v, &mut nodes, &mut empty, &mut slices);
        acc.count("node_extents_compared", nodes);
        acc.count("empty_extents_compared", empty);
        acc.count("slices_compared_by_address", slices);
    }
    acc.count("emission_spans_compared", if m.out.is_some() { m.em.len() as u64 } else { 0 });
    acc.count("probe_spans_compared", r.trace.len() as u64);
}

fn count_nodes(v: &crate::val::Val, nodes: &mut u64, empty: &mut u64, slices: &mut u64) {
    use crate::val::Val;
    match v {
        Val::Node { lo, hi, v, .. } => {
            *nodes += 1;
            if lo == hi {
                *empty += 1;
            }
            count_nodes(v, nodes, empty, slices)
        }
        Val::Slice { .. } => *slices += 1,
        Val::Seq(x) => x.iter().for_each(|y| count_nodes(y, nodes, empty, slices)),
        Val::Opt(Some(x)) | Val::Tag(_, x) => count_nodes(x, nodes, empty, slices),
        Val::Pair(a, b) => {
            count_nodes(a, nodes, empty, slices);
            count_nodes(b, nodes, empty, slices)
        }
        Val::FoldW { acc, x, .. } => {
            *nodes += 1;
            count_nodes(acc, nodes, empty, slices);
            count_nodes(x, nodes, empty, slices)
        }
        _ => {}
    }
}

fn signature(_g: &G, _m: &Outcome, _d: &str) -> Option<String> {
    None
}

pub fn spec() -> Spec {
    Spec {
        prop: "C07",
        what: What { value: true, emits: true, trace: true, no_found: true, no_expected: true, ..Default::default() },
        nontrivial: |m| m.out.is_some() && m.prefix_end.map(|e| e >= 1).unwrap_or(false),
        amb: |m| m.stats.ambiguous_a1 || m.stats.ambiguous_a2,
        counters,
        signature,
        slice: true,
        obs: false,
        also_check: false,
    }
}

fn on_kind<'s, I: Kind<'s>>(acc: &mut Acc, sp: &Spec, g: &G, bufs: &'s [Buf], step: usize, enumerated: bool)
where
    I::Span: Clone + 's,
{
    let p = build::<I, Rich<'s, char, I::Span>>(g, Opts { wrap: true, slice: true, obs: false, track: false, clone_iter: false });
    for buf in bufs.iter().step_by(step) {
        model_case::<I, Rich<'s, char, I::Span>>(acc, sp, g, &p, buf, enumerated);
    }
}

pub fn run(cx: &RunCtx) -> i32 {
    // multi-byte letters so that byte offsets differ from token indices
    let alpha: Vec<char> = vec!['a', 'b', 'é'];
    let max_len = cx.t(4, 5);
    let bufs: Vec<Buf> = all_inputs(&alpha, max_len).iter().map(|w| Buf::new(w)).collect();
    let b = basis(true);
    let size = cx.t(3, 4);
    let grammars: Vec<G> = b.up_to(size);
    let n_enum = grammars.len();
    let sp = spec();
    let mut acc = for_each_index(grammars.len(), cx.threads, 8, |acc, gi| {
        let g = &grammars[gi];
        on_kind::<&str>(acc, &sp, g, &bufs, 1, true);
        on_kind::<MappedK>(acc, &sp, g, &bufs, 1, true);
        on_kind::<&[char]>(acc, &sp, g, &bufs, 3, true);
        on_kind::<StreamMapK>(acc, &sp, g, &bufs, 3, true);
        on_kind::<StreamK>(acc, &sp, g, &bufs, 5, true);
    });
    acc.count("enumerated_grammars", n_enum as u64);

    // IterInput: restricted leaf basis
    let bi = basis(false);
    let gi_all: Vec<G> = bi.up_to(size);
    let n_iter = gi_all.len();
    let iacc = for_each_index(gi_all.len(), cx.threads, 8, |acc, gi| {
        on_kind::<IterK>(acc, &sp, &gi_all[gi], &bufs, 1, true);
    });
    acc.merge(iacc);
    acc.count("enumerated_grammars_iter_input", n_iter as u64);

    let n_rand = cx.t(20_000, 400_000);
    let seed = cx.seed;
    let racc = for_each_index(n_rand, cx.threads, 64, |acc, i| {
        let mut rng = Rng::derive(seed, 0xC07, i as u64);
        let sz = rng.range(size + 1, 13);
        let bufs: Vec<Buf> = (0..5).map(|_| Buf::new(&random_input(&mut rng, &SIGMA_PLUS, 12))).collect();
        if i % 4 == 3 {
            let g = bi.random(&mut rng, sz);
            on_kind::<IterK>(acc, &sp, &g, &bufs, 1, false);
        } else {
            let g = b.random(&mut rng, sz);
            on_kind::<&str>(acc, &sp, &g, &bufs, 1, false);
            match i % 4 {
                0 => on_kind::<MappedK>(acc, &sp, &g, &bufs, 2, false),
                1 => on_kind::<StreamMapK>(acc, &sp, &g, &bufs, 2, false),
                _ => on_kind::<&[char]>(acc, &sp, &g, &bufs, 2, false),
            }
        }
    });
    acc.merge(racc);
    acc.count("random_grammars", n_rand as u64);

    // API family (model-free): InputRef / MapExtra span and slice accessors against the caller's buffer
    {
        let mut cs: Vec<Vec<char>> = all_inputs(&['a', ' ', 'é', '𝄞'], cx.t(5, 6));
        let mut rng = Rng::derive(seed, 0xC07A, 0);
        for _ in 0..cx.t(2000, 40_000) {
            cs.push(random_input(&mut rng, &['a', 'b', ' ', ' ', 'é', '𝄞', '\u{301}'], 24));
        }
        let ws: Vec<String> = cs.iter().map(|c| c.iter().collect()).collect();
        const CH: usize = 256;
        let aacc = for_each_index((ws.len() + CH - 1) / CH, cx.threads, 1, |acc, ci| {
            let (lo, hi) = (ci * CH, ((ci + 1) * CH).min(ws.len()));
            super::c07api::family(acc, &ws[lo..hi], &cs[lo..hi]);
        });
        acc.merge(aacc);
        acc.count("api_family_inputs", ws.len() as u64);
    }

    // the slicing / span arithmetic under Miri (out-of-bounds or mid-character slicing of the input is UB or a
    // panic there) and, in the thorough tier, ASan
    crate::san::miri_job(&mut acc, cx, "C07", "c07", cx.t(10, 30), cx.t(2, 8));
    if cx.thorough() {
        crate::san::asan_job(&mut acc, cx, "C07", "c07", 3000, 8, false);
    }

    finish(
        cx,
        acc,
        Finish {
            rule: format!("every grammar with <= {size} nodes over the C01/C02 class (with probes and validate emitters), every node wrapped in map_with capturing span and slice, x every input <= {max_len} over {{a,b,é}} on &str (byte offsets) and on a mapped (token, span) slice with gapped spans (token i = 10i+2..10i+7, end of input 10n..10n); every 3rd input on &[char] and Stream::map (gapped), every 5th on Stream; the same over the Input-only leaf basis on IterInput (gapped); {n_rand} random grammars of {}..13 nodes x 5 multi-byte inputs. Compared with the reference evaluation: every node's span (incl. empty matches: empty span between the neighbouring tokens), slice text = input[span], slice address = caller's buffer + offset, to_span/to_slice nodes, foldl_with/foldr_with callback spans, spans handed to validate and try_map closures, spans of zero-width probes. A slice of the random part also runs under Miri (thorough: ASan). Non-trivial: accepted input with >= 1 token consumed. API family (model-free, judged against the caller's buffer alone): a hand-written custom stepper calling InputRef::span_since / span_from / slice / slice_since / slice_from before and after taking 1..2 tokens, and MapExtra::span / MapExtra::slice / to_span / to_slice captures around abandoned alternatives, lookahead and empty matches, x every string <= 5/6 over {{a,space,é,𝄞}} + random multi-byte strings, on &str and &[char]: every span on token boundaries inside the input, every slice == input[span] by address and length, open-ended forms reach the end of the input", size + 1),
            exhaustive: false,
            exhaustive_note: format!("grammars <= {size} nodes x inputs <= {max_len}: complete on &str and the mapped slice"),
            assumptions: vec![
                "an empty match on a gapped-span input may report any empty span between the end of the preceding and the start of the following token".into(),
                "Pratt fold callback spans are checked by the C09 driver".into(),
            ],
            require: vec![("node_extents_compared".into(), 100_000), ("empty_extents_compared".into(), 10_000), ("slices_compared_by_address".into(), 100_000), ("emission_spans_compared".into(), 1000), ("probe_spans_compared".into(), 1000), ("miri_processes_clean".into(), 1), ("api_family_spans_and_slices_checked".into(), 100_000)],
            min_evaluations: 10_000,
        },
    )
}

/// Slice for the sanitizer builds: random grammars with span + slice capture at every node on
/// multi-byte text, on &str, &[char], mapped and stream inputs.
pub fn san_job(size: usize, seed: u64, shard: usize) -> serde_json::Value {
    let mut acc = Acc::default();
    let sp = spec();
    let b = basis(true);
    let bi = basis(false);
    for k in 0..size {
        let mut rng = Rng::derive(seed, 0x5A07 + shard as u64, k as u64);
        let sz = rng.range(2, 7);
        let bufs: Vec<Buf> = (0..3).map(|_| Buf::new(&random_input(&mut rng, &SIGMA_PLUS, 7))).collect();
        let g = b.random(&mut rng, sz);
        on_kind::<&str>(&mut acc, &sp, &g, &bufs, 1, false);
        match k % 4 {
            0 => on_kind::<MappedK>(&mut acc, &sp, &g, &bufs, 1, false),
            1 => on_kind::<StreamMapK>(&mut acc, &sp, &g, &bufs, 1, false),
            2 => on_kind::<&[char]>(&mut acc, &sp, &g, &bufs, 1, false),
            _ => {
                let gi = bi.random(&mut rng, sz);
                on_kind::<IterK>(&mut acc, &sp, &gi, &bufs, 1, false)
            }
        }
    }
    acc.to_json()
}
