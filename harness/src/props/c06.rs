//! C06 — primary error = furthest failure, merged expectations, truthful span; same span for
//! Cheap / Simple / Rich.  Reference-model monitor over the last reported error of every rejected
//! input plus a cross-error-type differential between real executions.

use crate::classes;
use crate::drv::*;
use crate::ev::*;
use crate::gram::*;
use crate::mk::*;
use crate::model::Outcome;
use crate::par::for_each_index;
use crate::rng::Rng;
use chumsky::error::{Cheap, EmptyErr, Rich, Simple};
use serde_json::json;

pub fn basis() -> Basis {
    let mut b = classes::k01(false);
    b.ctors.extend(classes::rep_light());
    b.ctors.extend(classes::fold_ctors());
    b
}

fn counters(acc: &mut Acc, m: &Outcome, r: &RunOut) {
    if m.out.is_none() {
        acc.count("rejected_inputs", 1);
        if let Some(p) = &m.pend {
            acc.count("primary_errors_with_merged_failures", (p.parts > 1) as u64);
            acc.count("primary_errors_with_user_error", (!p.alt_users.is_empty()) as u64);
            acc.count("primary_errors_at_end_of_input", (p.pos == r.st.0 as usize && false) as u64);
            acc.count("primary_errors_after_deeper_abandoned_alternative", (m.stats.deep_backtracks > 0) as u64);
        }
    }
}

fn signature(_g: &G, m: &Outcome, d: &str) -> Option<String> {
    // D3: `found` of a filter rejection (the rejected match's first token is not reported)
    if d.contains("found ") && d.contains("but the token at the start of the span") && m.pend.as_ref().map(|p| p.filter_like).unwrap_or(false) {
        return Some("D3-filter-found".into());
    }
    None
}

pub fn spec() -> Spec {
    Spec {
        prop: "C06",
        what: What { primary: true, ..Default::default() },
        nontrivial: |m| m.out.is_none() && (m.stats.backtracks > 0 || m.pend.as_ref().map(|p| p.parts > 1).unwrap_or(false)),
        amb: |m| m.stats.ambiguous_a1 || m.stats.ambiguous_a2,
        counters,
        signature,
        slice: false,
        obs: false,
        also_check: false,
    }
}

/// Everything for one grammar x input: Rich against the model, then the other error types against Rich.
fn all_types<'s>(acc: &mut Acc, sp: &Spec, g: &G, buf: &'s Buf, ps: &Parsers<'s>, enumerated: bool, others: bool) {
    let rich = model_case::<&str, Rich<char>>(acc, sp, g, &ps.rich, buf, enumerated);
    let (m, rr) = match rich {
        Some(x) => x,
        None => return,
    };
    if !others || rr.has_output {
        return;
    }
    let amb = (sp.amb)(&m);
    let rich_span = rr.errs.last().map(|e| e.span);
    macro_rules! other {
        ($p:expr, $name:expr, $spanned:expr) => {{
            acc.evaluations += 1;
            match guarded(|| run_parse($p, buf, 0, STEP_BUDGET)) {
                Ok(ro) => {
                    acc.count(concat!("cross_type_runs_", $name), 1);
                    if ro.has_output != rr.has_output {
                        acc.viol(Viol::case(format!("C06: acceptance with {} errors differs from Rich", $name), g, &buf.chars, json!({"error_type": $name})));
                    } else if ro.errs.is_empty() {
                        acc.viol(Viol::case(format!("C06: rejected input but no error reported with {}", $name), g, &buf.chars, json!({"error_type": $name})));
                    } else if $spanned {
                        let sp2 = ro.errs.last().map(|e| e.span);
                        if sp2 != rich_span && !amb {
                            acc.viol(Viol::case(
                                format!("C06: {} reports span {:?} but Rich reports {:?} for the same grammar and input", $name, sp2, rich_span),
                                g,
                                &buf.chars,
                                json!({"error_type": $name}),
                            ));
                        }
                        if let Some(f) = ro.errs.last().and_then(|e| e.found) {
                            // Simple carries `found` too: same rule as for Rich
                            let _ = f;
                            if let (Some(me), Some(last)) = (&m.pend, ro.errs.last()) {
                                if let Some(d) = crate::cmp::found_diff::<&str>(buf, me, last) {
                                    let mut extra = json!({"error_type": $name});
                                    if let Some(s) = signature(g, &m, &d) {
                                        extra["signature"] = json!(s);
                                    }
                                    acc.viol(Viol::case(format!("C06: ({}) {}", $name, d), g, &buf.chars, extra));
                                }
                            }
                        }
                    } else if ro.errs.len() != 1 {
                        acc.viol(Viol::case(format!("C06: {} reported {} errors for a failed parse without emitters", $name, ro.errs.len()), g, &buf.chars, json!({"error_type": $name})));
                    }
                }
                Err(e) if e == "STEP_BUDGET" => acc.inconclusive += 1,
                Err(e) => {
                    acc.viol(Viol::case(format!("C06: with {} errors: {}", $name, e), g, &buf.chars, json!({"error_type": $name, "panic": e})));
                }
            }
        }};
    }
    other!(&ps.simple, "Simple", true);
    other!(&ps.cheap, "Cheap", true);
    other!(&ps.empty, "EmptyErr", false);
}

pub struct Parsers<'s> {
    rich: BP<'s, &'s str, Rich<'s, char>>,
    simple: BP<'s, &'s str, Simple<'s, char>>,
    cheap: BP<'s, &'s str, Cheap>,
    empty: BP<'s, &'s str, EmptyErr>,
}

fn parsers<'s>(g: &G) -> Parsers<'s> {
    let o = Opts::default();
    Parsers { rich: build(g, o), simple: build(g, o), cheap: build(g, o), empty: build(g, o) }
}

pub fn run(cx: &RunCtx) -> i32 {
    let alpha: Vec<char> = vec!['a', 'b', 'é'];
    let max_len = cx.t(4, 5);
    let bufs: Vec<Buf> = all_inputs(&alpha, max_len).iter().map(|w| Buf::new(w)).collect();
    let b = basis();
    let size = cx.t(4, 5);
    let grammars: Vec<G> = b.up_to(size);
    let n_enum = grammars.len();
    let sp = spec();
    let stride = cx.t(5, 3);
    let mut acc = for_each_index(grammars.len(), cx.threads, 8, |acc, gi| {
        let g = &grammars[gi];
        let ps = parsers(g);
        let others = gi % stride == 0 || g.size() <= 3;
        for buf in &bufs {
            all_types(acc, &sp, g, buf, &ps, true, others);
        }
    });
    acc.count("enumerated_grammars", n_enum as u64);

    // sheltering sweep: combinators that take the pending error (try_map, try_map_with, filter, custom,
    // repetitions, folds) placed after an alternative that failed deeper / around parsers failing at their
    // first token or further in
    let deep = vec![G::just_seq("ab"), G::bin(Op::Then, G::just('a'), G::just('b')), G::bin(Op::Then, G::leaf(Op::Any), G::bin(Op::Then, G::leaf(Op::Any), G::just('b')))];
    let mut ib = Basis { leaves: vec![G::just('a'), G::just_seq("ab"), G::leaf(Op::Any), G::set(Op::OneOf, "ab"), G::leaf(Op::End)], ctors: vec![] };
    ib.ctors.push(ctor(2, |k| G::new(Op::Then, k)));
    ib.ctors.push(ctor(2, |k| G::new(Op::Or, k)));
    ib.ctors.push(ctor(1, |mut k| G::un(Op::OrNot, k.remove(0))));
    ib.ctors.push(ctor(1, |mut k| G::rep(k.remove(0), 0, None, Flav::Vec)));
    let inners = ib.up_to(cx.t(3, 4));
    let shelters: Vec<Ctor> = vec![
        ctor(1, |mut k| G::un(Op::TryMap, k.remove(0)).with(|p| p.pred = Pred::Always)),
        ctor(1, |mut k| G::un(Op::TryMap, k.remove(0)).with(|p| p.pred = Pred::Lacks('b'))),
        ctor(1, |mut k| G::un(Op::TryMapWith, k.remove(0)).with(|p| p.pred = Pred::Always)),
        ctor(1, |mut k| G::un(Op::TryMapWith, k.remove(0)).with(|p| p.pred = Pred::LenIs(1))),
        ctor(1, |mut k| G::un(Op::Filter, k.remove(0)).with(|p| p.pred = Pred::FirstIs('a'))),
        ctor(1, |mut k| G::un(Op::Map, k.remove(0))),
        ctor(1, |mut k| G::un(Op::ToSlice, k.remove(0))),
        ctor(1, |mut k| G::un(Op::Rewind, k.remove(0))),
        // combinators that shelter the pending error while their parser runs (C17's decorations, memoized)
        ctor(1, |mut k| G::un(Op::Label, k.remove(0)).with(|p| { p.n = 0; p.ok = false })),
        ctor(1, |mut k| G::un(Op::Label, k.remove(0)).with(|p| { p.n = 1; p.ok = true })),
        ctor(1, |mut k| G::un(Op::MapErr, k.remove(0))),
        ctor(1, |mut k| G::un(Op::Memo, k.remove(0))),
        // nested_in shelters the pending error while the nested parse runs and has to re-file what the nested parse left
        ctor(1, |mut k| G::new(Op::NestedIn, vec![k.remove(0), G::bin(Op::Then, G::leaf(Op::Any), G::leaf(Op::Any))])),
        ctor(1, |mut k| G::new(Op::NestedIn, vec![k.remove(0), G::rep(G::leaf(Op::Any), 1, Some(2), Flav::Unit)])),
    ];
    let tails = vec![G::leaf(Op::Empty), G::just('b'), G::just('é'), G::leaf(Op::End)];
    let mut shaped = vec![];
    for d in &deep {
        for s in &shelters {
            for i in &inners {
                for t in &tails {
                    let sh = (s.make)(vec![i.clone()]);
                    let g = G::new(Op::Choice, vec![d.clone(), G::bin(Op::Then, sh.clone(), t.clone())]);
                    if g.well_formed() {
                        shaped.push(g.numbered());
                    }
                    let g2 = G::bin(Op::Then, G::bin(Op::Or, d.clone(), sh), t.clone());
                    if g2.well_formed() {
                        shaped.push(g2.numbered());
                    }
                }
            }
        }
    }
    let n_shaped = shaped.len();
    let sacc = for_each_index(shaped.len(), cx.threads, 8, |acc, gi| {
        let g = &shaped[gi];
        let ps = parsers(g);
        for buf in &bufs {
            all_types(acc, &sp, g, buf, &ps, true, gi % 3 == 0);
        }
    });
    acc.merge(sacc);
    acc.count("sheltering_sweep_grammars", n_shaped as u64);

    let n_rand = cx.t(30_000, 600_000);
    let seed = cx.seed;
    let racc = for_each_index(n_rand, cx.threads, 64, |acc, i| {
        let mut rng = Rng::derive(seed, 0xC06, i as u64);
        let sz = rng.range(size + 1, 13);
        let g = b.random(&mut rng, sz);
        let bufs: Vec<Buf> = (0..6).map(|_| Buf::new(&random_input(&mut rng, &SIGMA_PLUS, 10))).collect();
        let ps = parsers(&g);
        for buf in &bufs {
            all_types(acc, &sp, &g, buf, &ps, false, true);
        }
    });
    acc.merge(racc);
    acc.count("random_grammars", n_rand as u64);

    // the same with the error-sheltering decorations (labelled, as_context, map_err, memoized) in the class
    let mut bd = basis();
    bd.ctors.extend(classes::decor_ctors());
    bd.ctors.push(ctor(1, |mut k| G::un(Op::Memo, k.remove(0))));
    let n_dec = cx.t(20_000, 400_000);
    let dacc = for_each_index(n_dec, cx.threads, 64, |acc, i| {
        let mut rng = Rng::derive(seed, 0xC06D, i as u64);
        let sz = rng.range(4, 12);
        let mut g = bd.random(&mut rng, sz);
        for _ in 0..8 {
            if g.any_node(&|n| matches!(n.op, Op::Label | Op::MapErr | Op::Memo)) {
                break;
            }
            g = bd.random(&mut rng, sz);
        }
        let bufs: Vec<Buf> = (0..6).map(|_| Buf::new(&random_input(&mut rng, &['a', 'b', 'é'], 6))).collect();
        let ps = parsers(&g);
        for buf in &bufs {
            all_types(acc, &sp, &g, buf, &ps, false, true);
        }
    });
    acc.merge(dacc);
    acc.count("random_grammars_with_sheltering_decorations", n_dec as u64);

    finish(
        cx,
        acc,
        Finish {
            rule: format!("every grammar with <= {size} nodes over the C01/C02 class without negative lookahead x every input <= {max_len} over {{a,b,é}} with Rich errors (every {stride}th and all <= 3 nodes also with Simple, Cheap and EmptyErr); a sheltering sweep of {n_shaped} grammars (an alternative that fails deeper, then try_map/try_map_with/filter/map/to_slice/rewind/labelled/labelled.as_context/map_err/memoized around every inner grammar of a small class, then a tail); {n_dec} random grammars of 4..11 nodes with labelled / as_context / map_err / memoized in the class x 6 inputs; {n_rand} random grammars of {}..13 nodes x 6 multi-byte inputs with all four error types. Judged on the last reported error of every rejected input: (a) span inside the input, start<=end, on character boundaries, found = token at span start / None at end; (b) span = that of a failure at the reference model's furthest failure position; (c) Rich expected set = union over the failures tied there, user error preserved; (d) Simple and Cheap report Rich's span, EmptyErr exactly one error. Non-trivial: rejected input where the reference evaluation backtracked or merged >= 2 failures", size + 1),
            exhaustive: false,
            exhaustive_note: format!("grammars <= {size} nodes x inputs <= {max_len}: complete for Rich"),
            assumptions: vec![
                "A4: expected sets compared as sets; A5: at a tie the span may be that of any tied failure; A7: found/span of user-built errors are the closure's business".into(),
                "P2: failure position conventions (token primitives: start of the offending token; filter and try_map_with: end of the rejected match; try_map/custom: start of the match)".into(),
                "grammars containing not() are excluded as the property says".into(),
            ],
            require: vec![("rejected_inputs".into(), 10_000), ("primary_errors_with_merged_failures".into(), 1000), ("primary_errors_with_user_error".into(), 100), ("primary_errors_after_deeper_abandoned_alternative".into(), 1000), ("cross_type_runs_Simple".into(), 1000), ("cross_type_runs_Cheap".into(), 1000), ("cross_type_runs_EmptyErr".into(), 1000)],
            min_evaluations: 10_000,
        },
    )
}
