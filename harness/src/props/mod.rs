pub mod c01;
pub mod c02;
pub mod c03;
pub mod c04;
pub mod c09;
