pub mod c01;
