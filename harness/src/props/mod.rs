pub mod c01;
pub mod c02;
pub mod c03;
pub mod c04;
pub mod c05;
pub mod c06;
pub mod c07;
pub mod c07api;
pub mod c08;
pub mod c09;
pub mod c10;
pub mod c11;
pub mod c12;
pub mod c13;
pub mod c13clone;
pub mod c14;
pub mod c15;
pub mod c15ref;
pub mod c16;
pub mod c17;
pub mod c18;
pub mod c18api;
pub mod c19;
pub mod c19api;
pub mod c20;
pub mod c20iter;

/// Print the reference model's and the real parser's view of one case (used by `replay`).
pub fn show_case(g: &crate::gram::G, input: &[char]) {
    use crate::drv::*;
    use crate::mk::*;
    println!("grammar: {}", g.show());
    println!("input:   {:?}", input.iter().collect::<String>());
    let m = model_of(g, input, true);
    println!("model:   out={} pathological={}", m.out.as_ref().map(|v| v.show()).unwrap_or("-".into()), m.pathological);
    println!("         emissions={:?}", m.em.iter().map(|e| e.show()).collect::<Vec<_>>());
    println!("         pending={}", m.pend.as_ref().map(|e| e.show()).unwrap_or("-".into()));
    println!("         trace={:?}", m.trace.iter().map(|p| (p.id, p.pos, p.st.n)).collect::<Vec<_>>());
    let buf = Buf::new(input);
    let p = build::<&str, chumsky::error::Rich<char>>(g, Opts::default());
    for mode in ["parse", "check"] {
        let r = guarded(|| if mode == "parse" { run_parse(&p, &buf, 0, STEP_BUDGET) } else { run_check(&p, &buf, 0, STEP_BUDGET) });
        match r {
            Ok(r) => {
                println!("{}:   has_output={} out={}", mode, r.has_output, r.out.as_ref().map(|v| v.show()).unwrap_or("-".into()));
                for e in &r.errs {
                    println!("         error {}", e.show());
                }
                println!("         state={:?} trace={:?} steps={}", r.st, r.trace.iter().map(|p| (p.id, p.off, p.n)).collect::<Vec<_>>(), r.steps);
                let w = What { value: mode == "parse", trace: true, state: true, emits: true, primary: true, ..Default::default() };
                println!("         judge(all rules): {:?}", judge::<&str>(&buf, &m, &r, w));
            }
            Err(e) => println!("{}:   {}", mode, e),
        }
    }
}
