//! Shared driver helpers: run one (grammar, input) case on a kind and judge it against the model.

use crate::cmp::*;
use crate::ev::{Acc, Viol};
use crate::gram::G;
use crate::mk::*;
use crate::model::{self, Outcome, St};
use serde_json::json;

pub const MODEL_BUDGET: u64 = 200_000;
pub const STEP_BUDGET: u64 = 10_000_000;

#[derive(Clone, Copy, Debug, Default)]
pub struct What {
    pub value: bool,
    pub trace: bool,
    pub state: bool,
    pub emits: bool,
    pub primary: bool,
    pub exact_span: bool,
}

/// Compare the model's outcome with a real run.  `None` = agree.
pub fn judge<'s, I: Kind<'s>>(buf: &Buf, m: &Outcome, r: &RunOut, w: What) -> Option<String>
where
    I::Span: Clone + 's,
{
    let rules = ErrRules { exact_span: w.exact_span, ..ErrRules::LENIENT };
    if m.out.is_some() != r.has_output {
        return Some(format!(
            "acceptance: model {} but parser {} (errors: {:?})",
            if m.out.is_some() { "matches the whole input" } else { "rejects" },
            if r.has_output { "produced an output" } else { "produced no output" },
            r.errs.iter().map(|e| e.show()).collect::<Vec<_>>()
        ));
    }
    if let (Some(mv), true) = (&m.out, w.value) {
        if let Some(rv) = &r.out {
            if let Some(d) = val_diff::<I>(buf, mv, rv) {
                return Some(format!("output differs at {}: model {} vs parser {}", d, mv.show(), rv.show()));
            }
        }
    }
    if m.out.is_some() {
        if w.emits {
            if let Some(d) = emits_diff::<I>(buf, &m.em, &r.errs, rules) {
                return Some(d);
            }
        } else if m.em.is_empty() && !r.errs.is_empty() {
            return Some(format!("output with unexpected errors {:?}", r.errs.iter().map(|e| e.show()).collect::<Vec<_>>()));
        }
        if w.state && (m.st.n, m.st.h) != r.st {
            return Some(format!("final inspector state: model (n={},h={:x}) vs real (n={},h={:x})", m.st.n, m.st.h, r.st.0, r.st.1));
        }
    } else {
        if r.errs.is_empty() {
            return Some("no output and no errors".into());
        }
        if w.primary {
            let last = r.errs.last().unwrap();
            if let Some(d) = span_wf::<I>(buf, last.span) {
                return Some(d);
            }
            match &m.pend {
                None => return Some("model has no pending error for a rejected input".into()),
                Some(me) => {
                    if let Some(d) = err_diff::<I>(buf, me, last, rules) {
                        return Some(format!("primary error: {} [model: {}; reported: {}]", d, me.show(), last.show()));
                    }
                }
            }
        }
    }
    if w.trace {
        let mt: Vec<(u32, u64, u64)> = m.trace.iter().map(|p| (p.id, p.st.n, p.st.h)).collect();
        let rt: Vec<(u32, u64, u64)> = r.trace.iter().map(|p| (p.id, p.n, p.h)).collect();
        if mt != rt {
            return Some(format!("probe trace differs: model {:?} vs real {:?}", mt, rt));
        }
    }
    None
}

pub fn case_json(g: &G, input: &[char]) -> serde_json::Value {
    json!({"grammar": g.show(), "input": input.iter().collect::<String>()})
}

/// Standard handling of a guarded real run: panics and step-budget overruns.
/// Returns the run if it completed.
pub fn settle(acc: &mut Acc, prop: &str, g: &G, input: &[char], kind: &str, m: &Outcome, r: Result<RunOut, String>) -> Option<RunOut> {
    match r {
        Ok(r) => Some(r),
        Err(e) if e == "STEP_BUDGET" => {
            if m.pathological {
                acc.pathological += 1;
            } else {
                acc.viol(Viol::case(
                    format!("{}: parser exceeded {} logical steps where the reference semantics terminates in {} steps", prop, STEP_BUDGET, MODEL_BUDGET),
                    g,
                    input,
                    json!({"kind": kind}),
                ));
            }
            None
        }
        Err(e) => {
            acc.viol(Viol::case(format!("{}: {}", prop, e), g, input, json!({"kind": kind, "panic": e})));
            None
        }
    }
}

pub fn model_of(g: &G, input: &[char], wrap: bool) -> Outcome {
    model::run_opts(g, input, St::fresh(0), MODEL_BUDGET, wrap)
}
