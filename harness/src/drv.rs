//! Shared driver helpers: run one (grammar, input) case on a kind and judge it against the model.

use crate::cmp::*;
use crate::ev::{Acc, Viol};
use crate::gram::G;
use crate::mk::*;
use crate::model::{self, Outcome, St};
use serde_json::json;

pub const MODEL_BUDGET: u64 = 200_000;
pub const STEP_BUDGET: u64 = 10_000_000;

#[derive(Clone, Copy, Debug, Default)]
pub struct What {
    pub value: bool,
    pub trace: bool,
    pub state: bool,
    pub emits: bool,
    pub primary: bool,
    pub exact_span: bool,
    /// do not judge `found` (C06(a) does that)
    pub no_found: bool,
    /// do not compare expected sets / contexts of syntax errors
    pub no_expected: bool,
    /// recovered errors: presence only
    pub lenient_rec: bool,
}

/// Compare the model's outcome with a real run.  `None` = agree.
pub fn judge<'s, I: Kind<'s>>(buf: &Buf, m: &Outcome, r: &RunOut, w: What) -> Option<String>
where
    I::Span: Clone + 's,
{
    let rules = ErrRules { exact_span: w.exact_span, found: !w.no_found, expected: !w.no_expected, contexts: !w.no_expected, lenient_rec: w.lenient_rec || m.stats.not_failures > 0 };
    if m.out.is_some() != r.has_output {
        return Some(format!(
            "acceptance: model {} but parser {} (errors: {:?})",
            if m.out.is_some() { "matches the whole input" } else { "rejects" },
            if r.has_output { "produced an output" } else { "produced no output" },
            r.errs.iter().map(|e| e.show()).collect::<Vec<_>>()
        ));
    }
    if let (Some(mv), true) = (&m.out, w.value) {
        if let Some(rv) = &r.out {
            if let Some(d) = val_diff::<I>(buf, mv, rv) {
                return Some(format!("output differs at {}: model {} vs parser {}", d, mv.show(), rv.show()));
            }
        }
    }
    if m.out.is_some() {
        if w.emits {
            if let Some(d) = emits_diff::<I>(buf, &m.em, &r.errs, rules) {
                return Some(d);
            }
        } else if m.em.is_empty() && !r.errs.is_empty() {
            return Some(format!("output with unexpected errors {:?}", r.errs.iter().map(|e| e.show()).collect::<Vec<_>>()));
        }
        if w.state && (m.st.n, m.st.h) != r.st {
            return Some(format!("final inspector state: model (n={},h={:x}) vs real (n={},h={:x})", m.st.n, m.st.h, r.st.0, r.st.1));
        }
    } else {
        if r.errs.is_empty() {
            return Some("no output and no errors".into());
        }
        if w.primary {
            let last = r.errs.last().unwrap();
            // spans of failures inside a nested input are in the inner input's terms (A6)
            let inner_terms = m.stats.nested_runs > 0;
            if !inner_terms {
                if let Some(d) = span_wf::<I>(buf, last.span) {
                    return Some(d);
                }
            }
            match &m.pend {
                // the bookkeeping of a failed not() is pinned, not specified: well-formedness only
                _ if m.stats.not_failures > 0 => {}
                None => return Some("model has no pending error for a rejected input".into()),
                Some(me) => {
                    if let Some(d) = err_diff::<I>(buf, me, last, rules) {
                        return Some(format!("primary error: {} [model: {}; reported: {}]", d, me.show(), last.show()));
                    }
                }
            }
        }
    }
    if w.trace {
        let mt: Vec<(u32, u64, u64)> = m.trace.iter().map(|p| (p.id, p.st.n, p.st.h)).collect();
        let rt: Vec<(u32, u64, u64)> = r.trace.iter().map(|p| (p.id, p.n, p.h)).collect();
        if mt != rt {
            return Some(format!("probe trace differs: model {:?} vs real {:?}", mt, rt));
        }
        for (mp, rp) in m.trace.iter().zip(&r.trace) {
            if !span_ok::<I>(buf, (mp.pos, mp.pos), (rp.off, rp.off_end)) {
                return Some(format!("zero-width probe {} at token position {}: its (empty) span is reported as {}..{}", mp.id, mp.pos, rp.off, rp.off_end));
            }
            if let Some(d) = val_diff::<I>(buf, &mp.ctx, &rp.ctx) {
                return Some(format!("context seen at probe {} (token position {}) differs at {}: model {} vs real {}", mp.id, mp.pos, d, mp.ctx.show(), rp.ctx.show()));
            }
        }
    }
    None
}

pub fn case_json(g: &G, input: &[char]) -> serde_json::Value {
    json!({"grammar": g.show(), "input": input.iter().collect::<String>()})
}

/// Standard handling of a guarded real run: panics and step-budget overruns.
/// Returns the run if it completed.
pub fn settle(acc: &mut Acc, prop: &str, g: &G, input: &[char], kind: &str, m: &Outcome, r: Result<RunOut, String>) -> Option<RunOut> {
    match r {
        Ok(r) => Some(r),
        Err(e) if e == "STEP_BUDGET" => {
            if m.pathological {
                acc.pathological += 1;
            } else {
                acc.viol(Viol::case(
                    format!("{}: parser exceeded {} logical steps where the reference semantics terminates in {} steps", prop, STEP_BUDGET, MODEL_BUDGET),
                    g,
                    input,
                    json!({"kind": kind}),
                ));
            }
            None
        }
        Err(e) => {
            acc.viol(Viol::case(format!("{}: {}", prop, e), g, input, json!({"kind": kind, "panic": e})));
            None
        }
    }
}

pub fn model_of(g: &G, input: &[char], wrap: bool) -> Outcome {
    model::run_opts(g, input, St::fresh(0), MODEL_BUDGET, wrap)
}

/// Declarative description of a reference-model driver step (shared by C05/C06/C07/C08/C15/C17/C18).
pub struct Spec {
    pub prop: &'static str,
    pub what: What,
    /// is this case non-trivial for the property?
    pub nontrivial: fn(&Outcome) -> bool,
    /// does the case pass through a lenient spot (disagreement => `ambiguous`, not a violation)?
    pub amb: fn(&Outcome) -> bool,
    /// property-specific counters
    pub counters: fn(&mut Acc, &Outcome, &RunOut),
    /// classify a disagreement: `Some(signature)` attaches a known-finding signature to the violation
    pub signature: fn(&G, &Outcome, &str) -> Option<String>,
    /// the parsers were built with `Opts { slice: true }` (every node also captures its slice)
    pub slice: bool,
    /// the parsers were built with `Opts { obs: true }` (every node also observes inspector state and context)
    pub obs: bool,
    /// also run check() and compare acceptance/errors/state/trace with the model
    pub also_check: bool,
}

pub fn no_sig(_: &G, _: &Outcome, _: &str) -> Option<String> {
    None
}
pub fn no_counters(_: &mut Acc, _: &Outcome, _: &RunOut) {}

pub fn note_nontrivial(acc: &mut Acc, enumerated: bool, key: impl FnOnce() -> String) {
    if enumerated {
        acc.nontrivial_enum += 1;
    } else {
        acc.nontrivial_rand.insert(crate::rng::hash64(key().as_bytes()));
    }
}

/// Run one (grammar, input) case on kind `I` with error type `ER` against the model.
/// Returns the model outcome and the real run when both completed.
pub fn model_case<'s, I: Kind<'s>, ER: ErrK<'s, I>>(acc: &mut Acc, spec: &Spec, g: &G, p: &BP<'s, I, ER>, buf: &'s Buf, enumerated: bool) -> Option<(Outcome, RunOut)>
where
    I::Span: Clone + 's,
{
    let m = model::run_opts3(g, &buf.chars, St::fresh(0), MODEL_BUDGET, true, spec.slice, spec.obs);
    acc.evaluations += 1;
    if m.pathological {
        acc.pathological += 1;
        return None;
    }
    let r = guarded(|| run_parse(p, buf, 0, STEP_BUDGET));
    let r = settle(acc, spec.prop, g, &buf.chars, I::NAME, &m, r)?;
    if (spec.nontrivial)(&m) {
        note_nontrivial(acc, enumerated, || format!("{}|{}|{}|{}", g.show(), buf.text, I::NAME, ER::NAME));
    }
    (spec.counters)(acc, &m, &r);
    let nt = (spec.nontrivial)(&m);
    if (nt && acc.samples.len() < 2 && buf.n() >= 2 && acc.evaluations % 53 == 0) || (acc.samples.len() < 3 && acc.evaluations % 40_000 == 1) {
        acc.samples.push(json!({
            "grammar": g.show(), "input": buf.text, "kind": I::NAME, "error_type": ER::NAME, "non_trivial": nt,
            "output": r.out.as_ref().map(|v| v.strip().show()),
            "reported_errors": r.errs.iter().map(|e| e.show()).collect::<Vec<_>>(),
            "model_emissions": m.em.iter().map(|e| e.show()).collect::<Vec<_>>(),
            "model_primary": m.pend.as_ref().map(|e| e.show()),
        }));
    }
    let mut what = spec.what;
    if !ER::RICH {
        // user errors / expectations are not representable: positions only
        what.emits = what.emits && false;
    }
    let report = |acc: &mut Acc, d: String, mode: &str| {
        if (spec.amb)(&m) {
            acc.ambiguous += 1;
        } else {
            let sig = (spec.signature)(g, &m, &d);
            let mut extra = json!({"kind": I::NAME, "error_type": ER::NAME, "mode": mode});
            if let Some(s) = sig {
                extra["signature"] = json!(s);
            }
            acc.viol(Viol::case(format!("{}: {}", spec.prop, d), g, &buf.chars, extra));
        }
    };
    if let Some(d) = judge::<I>(buf, &m, &r, what) {
        report(acc, d, "parse");
    }
    if spec.also_check {
        let rc = guarded(|| run_check(p, buf, 0, STEP_BUDGET));
        if let Some(rc) = settle(acc, spec.prop, g, &buf.chars, I::NAME, &m, rc) {
            let mut w2 = what;
            w2.value = false;
            if let Some(d) = judge::<I>(buf, &m, &rc, w2) {
                report(acc, format!("(check mode) {}", d), "check");
            }
        }
    }
    Some((m, r))
}
