//! Work distribution over the 16 cores: dynamic chunks claimed from an atomic counter.

use crate::ev::Acc;
use std::sync::atomic::{AtomicUsize, Ordering};

/// Run `f(acc, index)` for every index in `0..n` on `threads` worker threads (each with a large
/// stack); returns the merged accumulator.
pub fn for_each_index(n: usize, threads: usize, chunk: usize, f: impl Fn(&mut Acc, usize) + Sync) -> Acc {
    let next = AtomicUsize::new(0);
    let f = &f;
    let next = &next;
    let mut total = Acc::default();
    std::thread::scope(|s| {
        let mut hs = vec![];
        for _ in 0..threads.max(1) {
            let h = std::thread::Builder::new()
                .stack_size(256 << 20)
                .spawn_scoped(s, move || {
                    let mut acc = Acc::default();
                    loop {
                        let lo = next.fetch_add(chunk, Ordering::Relaxed);
                        if lo >= n {
                            break;
                        }
                        let hi = (lo + chunk).min(n);
                        for i in lo..hi {
                            f(&mut acc, i);
                        }
                    }
                    acc
                })
                .expect("spawn worker");
            hs.push(h);
        }
        for h in hs {
            match h.join() {
                Ok(a) => total.merge(a),
                Err(_) => {
                    total.inconclusive += 1;
                    total.count("worker_thread_died", 1);
                }
            }
        }
    });
    total
}
