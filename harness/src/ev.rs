//! Evidence writer, violation records, run context shared by all property drivers.

use crate::gram::G;
use serde_json::{json, Map, Value};
use std::collections::HashSet;
use std::time::Instant;

/// Process-wide switch: print violations as they are found (set by child jobs that may die).
pub static EAGER: std::sync::atomic::AtomicBool = std::sync::atomic::AtomicBool::new(false);

#[derive(Clone, Debug)]
pub struct Viol {
    /// short sort key: smaller = simpler witness
    pub weight: usize,
    pub what: String,
    pub detail: Value,
}

impl Viol {
    pub fn case(what: impl Into<String>, g: &G, input: &[char], extra: Value) -> Viol {
        let mut d = Map::new();
        d.insert("grammar".into(), g.to_json());
        d.insert("grammar_text".into(), json!(g.show()));
        d.insert("input".into(), json!(input.iter().collect::<String>()));
        if let Value::Object(o) = extra {
            d.extend(o);
        }
        Viol { weight: g.size() * 64 + input.len(), what: what.into(), detail: Value::Object(d) }
    }
}

/// Per-thread accumulator merged at the end of a run.
#[derive(Default)]
pub struct Acc {
    pub evaluations: u64,
    /// non-trivial cases of enumerated (hence distinct by construction) spaces
    pub nontrivial_enum: u64,
    /// hashes of non-trivial cases from random generation
    pub nontrivial_rand: HashSet<u64>,
    pub counters: std::collections::BTreeMap<String, u64>,
    pub viols: Vec<Viol>,
    pub sig_viols: Vec<Viol>,
    pub known: Vec<String>,
    pub samples: Vec<Value>,
    pub inconclusive: u64,
    pub ambiguous: u64,
    pub pathological: u64,
    /// bucket of `evaluations` in which the last sample was taken (spreads samples over the run)
    pub sample_mark: u64,
    /// print violations as they are found (child processes)
    pub eager: bool,
}

impl Acc {
    pub fn count(&mut self, k: &str, n: u64) {
        if n > 0 {
            *self.counters.entry(k.to_string()).or_insert(0) += n;
        }
    }
    pub fn maxc(&mut self, k: &str, n: u64) {
        let e = self.counters.entry(k.to_string()).or_insert(0);
        if n > *e {
            *e = n;
        }
    }
    pub fn viol(&mut self, v: Viol) {
        // witnesses that carry a known-finding signature are kept apart so that they can never crowd
        // out an unrelated violation
        let signed = v.detail.get("signature").is_some();
        self.count(if signed { "disagreements_with_signature" } else { "disagreements" }, 1);
        // workloads that may take their process down (memory corruption) report what they saw right away
        if (self.eager || EAGER.load(std::sync::atomic::Ordering::Relaxed)) && self.viols.len() < 4 {
            println!("VIOL {}", json!({"weight": v.weight, "what": v.what, "detail": v.detail}));
        }
        self.push_viol(v);
    }
    fn push_viol(&mut self, v: Viol) {
        let signed = v.detail.get("signature").is_some();
        let list = if signed { &mut self.sig_viols } else { &mut self.viols };
        if list.len() < 64 {
            list.push(v);
        } else if let Some(worst) = list.iter_mut().max_by_key(|x| x.weight) {
            if v.weight < worst.weight {
                *worst = v;
            }
        }
    }
    pub fn sample(&mut self, every: u64, mk: impl FnOnce() -> Value) {
        let bucket = self.evaluations / every.max(1) + 1;
        if self.samples.len() < 3 && bucket != self.sample_mark {
            self.sample_mark = bucket;
            self.samples.push(mk());
        }
    }
    /// Serialised form used to hand a child process' observations to the parent.
    pub fn to_json(&self) -> Value {
        json!({
            "evaluations": self.evaluations,
            "nontrivial": self.nontrivial_enum + self.nontrivial_rand.len() as u64,
            "counters": self.counters,
            "viols": self.viols.iter().chain(self.sig_viols.iter()).map(|v| json!({"weight": v.weight, "what": v.what, "detail": v.detail})).collect::<Vec<_>>(),
            "known": self.known,
            "samples": self.samples,
            "inconclusive": self.inconclusive,
            "ambiguous": self.ambiguous,
            "pathological": self.pathological,
        })
    }
    pub fn from_json(v: &Value) -> Acc {
        let mut a = Acc::default();
        a.evaluations = v["evaluations"].as_u64().unwrap_or(0);
        a.nontrivial_enum = v["nontrivial"].as_u64().unwrap_or(0);
        if let Some(o) = v["counters"].as_object() {
            for (k, x) in o {
                a.counters.insert(k.clone(), x.as_u64().unwrap_or(0));
            }
        }
        for x in v["viols"].as_array().cloned().unwrap_or_default() {
            a.push_viol(Viol { weight: x["weight"].as_u64().unwrap_or(0) as usize, what: x["what"].as_str().unwrap_or("").to_string(), detail: x["detail"].clone() });
        }
        for k in v["known"].as_array().cloned().unwrap_or_default() {
            if let Some(s) = k.as_str() {
                a.known.push(s.to_string());
            }
        }
        a.samples = v["samples"].as_array().cloned().unwrap_or_default();
        a.inconclusive = v["inconclusive"].as_u64().unwrap_or(0);
        a.ambiguous = v["ambiguous"].as_u64().unwrap_or(0);
        a.pathological = v["pathological"].as_u64().unwrap_or(0);
        a
    }
    pub fn merge(&mut self, o: Acc) {
        self.evaluations += o.evaluations;
        self.nontrivial_enum += o.nontrivial_enum;
        self.nontrivial_rand.extend(o.nontrivial_rand);
        for (k, v) in o.counters {
            if k.starts_with("max_") {
                self.maxc(&k, v);
            } else {
                self.count(&k, v);
            }
        }
        for v in o.viols.into_iter().chain(o.sig_viols) {
            self.push_viol(v);
        }
        for k in o.known {
            if !self.known.contains(&k) {
                self.known.push(k);
            }
        }
        for s in o.samples {
            if self.samples.len() < 6 {
                self.samples.push(s);
            }
        }
        self.inconclusive += o.inconclusive;
        self.ambiguous += o.ambiguous;
        self.pathological += o.pathological;
    }
}

pub struct RunCtx {
    pub prop: String,
    pub tier: String,
    pub seed: u64,
    pub threads: usize,
    pub evidence_path: String,
    pub replay_dir: String,
    pub known_path: String,
    pub start: Instant,
}

impl RunCtx {
    pub fn thorough(&self) -> bool {
        self.tier == "thorough"
    }
    /// pick by tier
    pub fn t<T>(&self, quick: T, thorough: T) -> T {
        if self.thorough() {
            thorough
        } else {
            quick
        }
    }
}

pub struct Finish {
    pub rule: String,
    pub exhaustive: bool,
    pub exhaustive_note: String,
    pub assumptions: Vec<String>,
    /// minimum counts a run must have observed to be allowed to pass: (counter name, minimum)
    pub require: Vec<(String, u64)>,
    pub min_evaluations: u64,
}

/// Write evidence, print violations, return the process exit code.
pub fn finish(cx: &RunCtx, acc: Acc, fin: Finish) -> i32 {
    let wall = cx.start.elapsed().as_secs_f64();
    let distinct = acc.nontrivial_enum + acc.nontrivial_rand.len() as u64;
    let mut cov = Map::new();
    cov.insert("evaluations".into(), json!(acc.evaluations));
    cov.insert("distinct_nontrivial".into(), json!(distinct));
    cov.insert("rule".into(), json!(fin.rule));
    cov.insert("samples".into(), Value::Array(acc.samples.clone()));
    cov.insert("exhaustive".into(), json!(fin.exhaustive));
    if !fin.exhaustive_note.is_empty() {
        cov.insert("exhaustive_part".into(), json!(fin.exhaustive_note));
    }
    cov.insert("inconclusive".into(), json!(acc.inconclusive));
    cov.insert("ambiguous".into(), json!(acc.ambiguous));
    cov.insert("pathological".into(), json!(acc.pathological));
    cov.insert("known_findings_seen".into(), json!(acc.known));
    let mut counters = Map::new();
    for (k, v) in &acc.counters {
        counters.insert(k.clone(), json!(v));
    }
    cov.insert("observed".into(), Value::Object(counters));

    // known findings: violations whose signature is listed are reported as KNOWN-FINDING (one line per
    // listed finding, with the number of witnesses this run saw and the smallest one)
    let known = load_known(&cx.known_path, &cx.prop);
    let mut real_viols: Vec<&Viol> = vec![];
    let mut known_lines: Vec<String> = acc.known.clone();
    let mut by_sig: std::collections::BTreeMap<String, (u64, &Viol)> = Default::default();
    for v in acc.viols.iter().chain(acc.sig_viols.iter()) {
        let sig = v.detail.get("signature").and_then(|s| s.as_str()).unwrap_or("");
        if !sig.is_empty() && known.iter().any(|(k, _)| k == sig) {
            let e = by_sig.entry(sig.to_string()).or_insert((0, v));
            e.0 += 1;
            if v.weight < e.1.weight {
                e.1 = v;
            }
        } else {
            real_viols.push(v);
        }
    }
    for (sig, (n, v)) in &by_sig {
        let what = known.iter().find(|(k, _)| k == sig).map(|(_, w)| w.clone()).unwrap_or_default();
        known_lines.push(format!(
            "{} {} [witnesses kept this run: {}; smallest: {} on {:?}]",
            sig,
            what,
            n,
            v.detail.get("grammar_text").and_then(|x| x.as_str()).unwrap_or("?"),
            v.detail.get("input").and_then(|x| x.as_str()).unwrap_or("?")
        ));
    }
    real_viols.sort_by_key(|v| v.weight);

    let mut code = 0;
    let mut self_fail: Vec<String> = vec![];
    if acc.evaluations < fin.min_evaluations.max(1) {
        self_fail.push(format!("only {} evaluations (< {})", acc.evaluations, fin.min_evaluations));
    }
    if distinct < 2 {
        self_fail.push(format!("only {} distinct non-trivial cases", distinct));
    }
    let no_san = std::env::var("CVH_NO_SAN").is_ok();
    for (k, min) in &fin.require {
        // development switch: without the sanitizer jobs their observations cannot be required
        if no_san && (k.starts_with("miri_") || k.starts_with("asan_") || k.starts_with("tsan_")) {
            continue;
        }
        let got = acc.counters.get(k).copied().unwrap_or(0);
        if got < *min {
            self_fail.push(format!("observed {} = {} (< {} required for the run to count)", k, got, min));
        }
    }

    let ev = json!({
        "property_id": cx.prop,
        "tier": cx.tier,
        "seed": cx.seed,
        "level": "exploration",
        "coverage": Value::Object(cov),
        "assumptions": fin.assumptions,
        "wall_s": wall,
        "violations": real_viols.len(),
    });
    if let Some(dir) = std::path::Path::new(&cx.evidence_path).parent() {
        let _ = std::fs::create_dir_all(dir);
    }
    std::fs::write(&cx.evidence_path, serde_json::to_string_pretty(&ev).unwrap()).expect("write evidence");

    for l in &known_lines {
        println!("KNOWN-FINDING: property={} {}", cx.prop, l);
    }
    if !real_viols.is_empty() {
        let _ = std::fs::create_dir_all(&cx.replay_dir);
        let v = real_viols[0];
        let h = crate::rng::hash64(serde_json::to_string(&v.detail).unwrap().as_bytes());
        let path = format!("{}/{}-{:016x}.json", cx.replay_dir, cx.prop, h);
        let rep = json!({
            "property": cx.prop,
            "tier": cx.tier,
            "seed": cx.seed,
            "what": v.what,
            "case": v.detail,
            "other_violations": real_viols.iter().skip(1).take(8).map(|v| json!({"what": v.what, "case": v.detail})).collect::<Vec<_>>(),
        });
        std::fs::write(&path, serde_json::to_string_pretty(&rep).unwrap()).expect("write replay");
        println!("violation: {}", v.what);
        println!("  case: {}", serde_json::to_string(&v.detail).unwrap());
        println!("VIOLATION property={} replay={}", cx.prop, path);
        code = 1;
    }
    if code == 0 && !self_fail.is_empty() {
        // a run that observed too little is a harness failure, not a verdict
        for s in &self_fail {
            eprintln!("INCONCLUSIVE-RUN property={} {}", cx.prop, s);
        }
        code = 2;
    }
    println!(
        "{} {} seed={} evaluations={} distinct_nontrivial={} ambiguous={} inconclusive={} pathological={} violations={} known={} wall={:.1}s",
        cx.prop,
        cx.tier,
        cx.seed,
        acc.evaluations,
        distinct,
        acc.ambiguous,
        acc.inconclusive,
        acc.pathological,
        real_viols.len(),
        known_lines.len(),
        wall
    );
    code
}

/// `(signature, what)` of the entries listed as `known` for this property in the committed known-findings file.
pub fn load_known(path: &str, prop: &str) -> Vec<(String, String)> {
    let mut out = vec![];
    if let Ok(s) = std::fs::read_to_string(path) {
        for line in s.lines() {
            if let Ok(v) = serde_json::from_str::<Value>(line) {
                if v["status"] == "known" && v["property"] == prop {
                    if let Some(sig) = v["signature"].as_str() {
                        out.push((sig.to_string(), v["what"].as_str().unwrap_or("").to_string()));
                    }
                }
            }
        }
    }
    out
}
