//! E7 — the same drivers at reduced size under Miri / ASan+LSan / TSan.
//!
//! A "job" is an in-process, deterministic slice of a driver (`cvh job <name> <size> <seed> <shard>`)
//! that prints `JOB <Acc json>`.  The native check spawns the tool chain as a child process, merges
//! the job's own observations and turns sanitizer reports into violations.  A tool chain that cannot
//! be started or built is `inconclusive`, never a violation.

use crate::ev::{Acc, RunCtx, Viol};
use crate::proc::{run_command, ChildOut};
use serde_json::{json, Value};
use std::process::Command;
use std::time::Duration;

pub fn harness_dir() -> String {
    std::env::var("CVH_HARNESS").unwrap_or_else(|_| "/verif/harness".into())
}

/// `<target-dir>` of the running binary (`<target>/debug/cvh` or `<target>/<triple>/debug/cvh`)
pub fn target_dir() -> String {
    let exe = std::env::current_exe().expect("exe");
    let mut p = exe.parent().and_then(|p| p.parent()).map(|p| p.to_path_buf()).unwrap_or_default();
    if p.file_name().map(|n| n.to_string_lossy().contains("-unknown-")).unwrap_or(false) {
        p = p.parent().map(|p| p.to_path_buf()).unwrap_or(p);
    }
    // sanitizer builds live in sub-directories of the native target dir
    for sub in ["miri", "asan", "tsan"] {
        if p.file_name().map(|n| n == sub).unwrap_or(false) {
            p = p.parent().map(|p| p.to_path_buf()).unwrap_or(p);
        }
    }
    p.to_string_lossy().to_string()
}

fn job_acc(out: &str) -> Option<Acc> {
    out.lines().rev().find_map(|l| l.strip_prefix("JOB ").and_then(|j| serde_json::from_str::<Value>(j).ok())).map(|v| Acc::from_json(&v))
}

fn report_lines(stderr: &str, needles: &[&str]) -> Option<String> {
    let ls: Vec<&str> = stderr.lines().collect();
    let i = ls.iter().position(|l| needles.iter().any(|n| l.contains(n)))?;
    Some(ls[i..ls.len().min(i + 14)].join(" | "))
}

fn run_parallel(cmds: Vec<Command>, timeout: Duration) -> Vec<ChildOut> {
    let cmds: Vec<std::sync::Mutex<Option<Command>>> = cmds.into_iter().map(|c| std::sync::Mutex::new(Some(c))).collect();
    let outs: std::sync::Mutex<Vec<Option<ChildOut>>> = std::sync::Mutex::new(vec![None; cmds.len()]);
    std::thread::scope(|s| {
        for (i, c) in cmds.iter().enumerate() {
            let outs = &outs;
            s.spawn(move || {
                let cmd = c.lock().unwrap().take().unwrap();
                let r = run_command(cmd, timeout);
                outs.lock().unwrap()[i] = Some(r);
            });
        }
    });
    outs.into_inner().unwrap().into_iter().map(|o| o.unwrap()).collect()
}

fn settle(acc: &mut Acc, prop: &str, tool: &str, job: &str, outs: Vec<ChildOut>, needles: &[&str], seed: u64, size: usize) {
    for (shard, c) in outs.into_iter().enumerate() {
        acc.count(&format!("{}_processes", tool), 1);
        let rep = report_lines(&c.stderr_tail, needles);
        if let (Some(a), Some(0), None) = (job_acc(&c.stdout), c.code, &rep) {
            acc.count(&format!("{}_evaluations", tool), a.evaluations);
            acc.count(&format!("{}_processes_clean", tool), 1);
            let mut a = a;
            // keep the native distinct-case count apart from what the sanitizer slice re-executes
            a.nontrivial_enum = 0;
            acc.merge(a);
            continue;
        }
        if c.timed_out {
            acc.inconclusive += 1;
            eprintln!("{}: {} job {} shard {} killed by the wall-clock watchdog (inconclusive)", prop, tool, job, shard);
            continue;
        }
        match rep {
            Some(r) => {
                acc.viol(Viol {
                    weight: 30,
                    what: format!("{}: {} reported while running job `{}` (size {}, seed {}, shard {}): {}", prop, tool, job, size, seed, shard, r),
                    detail: json!({"grammar_text": format!("{} job {}", tool, job), "input": format!("size {} seed {} shard {}", size, seed, shard), "sanitizer": tool, "report": r}),
                });
            }
            None => {
                // the job itself may have found a violation and still printed its accumulator
                if let Some(a) = job_acc(&c.stdout) {
                    acc.merge(a);
                    continue;
                }
                acc.inconclusive += 1;
                acc.count(&format!("{}_tool_failures", tool), 1);
                eprintln!("{}: {} tool chain failed for job {} shard {} (inconclusive): {}", prop, tool, job, shard, c.describe());
            }
        }
    }
}

/// Run `shards` Miri processes of `cvh job <job> <size> <seed> <shard>` (chumsky without `stacker`).
pub fn miri_job(acc: &mut Acc, cx: &RunCtx, prop: &str, job: &str, size: usize, shards: usize) {
    miri_job_flags(acc, cx, prop, job, size, shards, "-Zmiri-ignore-leaks")
}

pub fn miri_job_flags(acc: &mut Acc, cx: &RunCtx, prop: &str, job: &str, size: usize, shards: usize, flags: &str) {
    if std::env::var("CVH_NO_SAN").is_ok() {
        return;
    }
    let tdir = format!("{}/miri", target_dir());
    let mk = |shard: usize| {
        let mut c = Command::new("cargo");
        c.current_dir(harness_dir())
            .args(["+nightly", "miri", "run", "--offline", "--no-default-features", "--target-dir", &tdir, "--", "job", job, &size.to_string(), &cx.seed.to_string(), &shard.to_string()])
            .env("MIRIFLAGS", flags.replace("{shard}", &shard.to_string()))
            .env("CARGO_NET_OFFLINE", "true")
            .env("CARGO_TERM_COLOR", "never")
            .env_remove("RUSTFLAGS");
        c
    };
    // first shard alone (it builds), the rest in parallel
    let timeout = Duration::from_secs(3600);
    let mut outs = run_parallel(vec![mk(0)], timeout);
    if shards > 1 {
        outs.extend(run_parallel((1..shards).map(mk).collect(), timeout));
    }
    settle(acc, prop, "miri", job, outs, &["Undefined Behavior", "memory leaked", "Data race", "data race", "deadlock"], cx.seed, size);
}

fn build_san(tool: &str, rustflags: &str, build_std: bool) -> Result<String, String> {
    let tdir = format!("{}/{}", target_dir(), tool);
    let mut c = Command::new("cargo");
    c.current_dir(harness_dir()).args(["+nightly", "build", "--offline", "--target", "x86_64-unknown-linux-gnu", "--target-dir", &tdir]);
    if build_std {
        c.arg("-Zbuild-std");
    }
    c.env("RUSTFLAGS", rustflags).env("CARGO_NET_OFFLINE", "true").env("CARGO_TERM_COLOR", "never");
    let r = run_command(c, Duration::from_secs(3600));
    if r.code == Some(0) {
        Ok(format!("{}/x86_64-unknown-linux-gnu/debug/cvh", tdir))
    } else {
        Err(r.describe())
    }
}

pub fn asan_job(acc: &mut Acc, cx: &RunCtx, prop: &str, job: &str, size: usize, shards: usize, leaks: bool) {
    if std::env::var("CVH_NO_SAN").is_ok() {
        return;
    }
    let exe = match build_san("asan", "-Zsanitizer=address -Cforce-frame-pointers=yes", false) {
        Ok(e) => e,
        Err(e) => {
            acc.inconclusive += 1;
            acc.count("asan_tool_failures", 1);
            eprintln!("{}: ASan build failed (inconclusive): {}", prop, e);
            return;
        }
    };
    let cmds = (0..shards)
        .map(|shard| {
            let mut c = Command::new(&exe);
            c.args(["job", job, &size.to_string(), &cx.seed.to_string(), &shard.to_string()]).env("ASAN_OPTIONS", format!("detect_leaks={}:halt_on_error=1:abort_on_error=0:exitcode=23", leaks as u8)).env("LSAN_OPTIONS", "exitcode=23");
            c
        })
        .collect();
    let outs = run_parallel(cmds, Duration::from_secs(3600));
    settle(acc, prop, "asan", job, outs, &["ERROR: AddressSanitizer", "ERROR: LeakSanitizer"], cx.seed, size);
}

pub fn tsan_job(acc: &mut Acc, cx: &RunCtx, prop: &str, job: &str, size: usize, shards: usize) {
    if std::env::var("CVH_NO_SAN").is_ok() {
        return;
    }
    let exe = match build_san("tsan", "-Zsanitizer=thread", true) {
        Ok(e) => e,
        Err(e) => {
            acc.inconclusive += 1;
            acc.count("tsan_tool_failures", 1);
            eprintln!("{}: TSan build failed (inconclusive): {}", prop, e);
            return;
        }
    };
    let cmds = (0..shards)
        .map(|shard| {
            let mut c = Command::new(&exe);
            c.args(["job", job, &size.to_string(), &cx.seed.to_string(), &shard.to_string()]).env("TSAN_OPTIONS", "halt_on_error=1:exitcode=66");
            c
        })
        .collect();
    let outs = run_parallel(cmds, Duration::from_secs(3600));
    settle(acc, prop, "tsan", job, outs, &["WARNING: ThreadSanitizer", "ERROR: ThreadSanitizer"], cx.seed, size);
}
