//! Reference model: a direct, functional transcription of the property statements (PEG reading)
//! over the grammar AST.  No chumsky types.  See DESIGN.md Appendix B.
//!
//! Positions are token indices `0..=n`.  Values, emissions and inspector state are returned
//! functionally (so "abandoned paths leave no trace" holds by construction); the *pending primary
//! error* is the only piece of global state, because the statement of C06 makes it a function of
//! every failure attempted so far, including those on abandoned paths.

use crate::gram::{Flav, Op, G, LABELS};
use crate::val::Val;
use std::collections::BTreeSet;

#[derive(Clone, Debug, PartialEq, Eq, PartialOrd, Ord, Hash)]
pub enum Exp {
    Tok(char),
    Any,
    SomethingElse,
    EndOfInput,
    Label(String),
    Other(String),
}

pub type Sp = (usize, usize);

/// Model of a (possibly merged) primary-error candidate.
#[derive(Clone, Debug, PartialEq, Eq)]
pub struct MErr {
    pub pos: usize,
    /// span of the first failure merged into this error (what the implementation keeps)
    pub span: Sp,
    /// spans of all tied failures (leniency A5)
    pub alt_spans: Vec<Sp>,
    pub exp: BTreeSet<Exp>,
    /// user-supplied error (first one wins in the implementation; any tied one is accepted)
    pub user: Option<String>,
    pub alt_users: Vec<String>,
    /// `(label, span)` contexts and `map_err` tags (as contexts named `T<id>`) of the first part
    pub ctxs: Vec<(String, Sp)>,
    /// contexts that tied later parts carried (lost by the implementation's merge: accepted either way)
    pub alt_ctxs: Vec<(String, Sp)>,
    /// true if a `filter`-style rejection (whose `found` is not the token at the span start) is among
    /// the tied failures (known finding D3)
    pub filter_like: bool,
    /// true if a user-constructed error (whose `found` and span are the closure's business, A7) was
    /// re-described by a label: `found` is still the one the closure chose
    pub user_built: bool,
    /// true if produced by a failed `not` (C06 does not judge those)
    pub from_not: bool,
    /// true if the failure happened inside a nested input (its span is in the inner input's terms: A6)
    pub from_nested: bool,
    /// number of failures merged
    pub parts: u32,
}

impl MErr {
    pub fn new(pos: usize, span: Sp, exp: impl IntoIterator<Item = Exp>) -> MErr {
        MErr {
            pos,
            span,
            alt_spans: vec![span],
            exp: exp.into_iter().collect(),
            user: None,
            alt_users: vec![],
            ctxs: vec![],
            alt_ctxs: vec![],
            filter_like: false,
            user_built: false,
            from_not: false,
            from_nested: false,
            parts: 1,
        }
    }
    pub fn user(pos: usize, span: Sp, tag: String) -> MErr {
        let mut e = MErr::new(pos, span, []);
        e.user = Some(tag.clone());
        e.alt_users = vec![tag];
        e
    }
    /// The expected set the implementation reports (none for a user error).
    pub fn reported_exp(&self) -> BTreeSet<Exp> {
        if self.user.is_some() {
            BTreeSet::new()
        } else {
            self.exp.clone()
        }
    }
    fn merge(mut self, o: MErr) -> MErr {
        for s in o.alt_spans {
            if !self.alt_spans.contains(&s) {
                self.alt_spans.push(s);
            }
        }
        self.exp.extend(o.exp);
        if self.user.is_none() {
            self.user = o.user;
        }
        for u in o.alt_users {
            if !self.alt_users.contains(&u) {
                self.alt_users.push(u);
            }
        }
        for c in o.ctxs.into_iter().chain(o.alt_ctxs) {
            if !self.ctxs.contains(&c) && !self.alt_ctxs.contains(&c) {
                self.alt_ctxs.push(c);
            }
        }
        self.filter_like |= o.filter_like;
        self.user_built |= o.user_built;
        self.from_not |= o.from_not;
        self.from_nested |= o.from_nested;
        self.parts += o.parts;
        self
    }
    pub fn show(&self) -> String {
        format!(
            "pos {} span {:?}{} {} ctx {:?}{}",
            self.pos,
            self.span,
            if self.alt_spans.len() > 1 { format!(" (tied {:?})", self.alt_spans) } else { String::new() },
            match &self.user {
                Some(u) => format!("user {:?}", u),
                None => format!("expected {:?}", self.exp),
            },
            self.ctxs,
            if self.alt_ctxs.is_empty() { String::new() } else { format!(" (+maybe {:?})", self.alt_ctxs) }
        )
    }
}

#[derive(Clone, Debug, PartialEq, Eq)]
pub enum EmitK {
    /// `validate` emission with this message
    Tag(String),
    /// a recovered syntax error
    Rec(MErr),
}

#[derive(Clone, Debug, PartialEq, Eq)]
pub struct MEmit {
    pub k: EmitK,
    /// span of the emission (for `Tag`; `Rec` carries its own)
    pub span: Sp,
    /// position at which it was emitted (used for `as_context` spans)
    pub at: usize,
    pub ctxs: Vec<(String, Sp)>,
    /// emitted by the second parser of `and_is` (leniency A3)
    pub optional: bool,
    /// emitted inside a nested input (span in the inner input's terms: A6)
    pub nested: bool,
}

impl MEmit {
    pub fn show(&self) -> String {
        match &self.k {
            EmitK::Tag(t) => format!("{}@{:?}{:?}{}", t, self.span, self.ctxs, if self.optional { "?" } else { "" }),
            EmitK::Rec(e) => format!("recovered[{}]{:?}", e.show(), self.ctxs),
        }
    }
}

/// Inspector state model: token count and rolling hash of the tokens fed so far.
#[derive(Clone, Copy, Debug, PartialEq, Eq, Hash, Default)]
pub struct St {
    pub n: u64,
    pub h: u64,
}

impl St {
    pub fn fresh(seed: u8) -> St {
        St { n: 0, h: seed as u64 }
    }
    pub fn feed(self, c: char) -> St {
        St { n: self.n + 1, h: (self.h ^ c as u64).wrapping_mul(0x100000001b3).rotate_left(7) ^ 0x9E37 }
    }
    pub fn feed_all(self, cs: &[char]) -> St {
        cs.iter().fold(self, |s, c| s.feed(*c))
    }
}

#[derive(Clone, Debug)]
pub enum R {
    Ok { v: Val, end: usize, st: St, em: Vec<MEmit> },
    Fail,
}

#[derive(Clone, Debug, PartialEq, Eq)]
pub struct ProbeEv {
    pub id: u32,
    pub pos: usize,
    pub st: St,
    pub ctx: Val,
}

#[derive(Clone, Debug, Default)]
pub struct Stats {
    /// alternatives / items / options abandoned after the sub-parser had been entered
    pub backtracks: u64,
    /// ... of which the abandoned sub-parser had consumed at least one token
    pub deep_backtracks: u64,
    pub rejecting_filters: u64,
    pub abandoned_emissions: u64,
    pub lookahead_kept_emissions: u64,
    pub recoveries: u64,
    pub failed_recoveries: u64,
    pub ambiguous_a1: bool,
    pub ambiguous_a2: bool,
    pub ambiguous_a9: bool,
    /// try_map rejected while its successful inner parser had left a pending failure (P5)
    pub trymap_override: bool,
    /// a labelled parser succeeded but left a pending failure at its first token (A8)
    pub label_on_success: bool,
    /// a collect_exactly ran short because the underlying bound was reached, not because an item failed
    pub short_array_no_event: bool,
    pub max_depth: usize,
    /// failures of `not` (their position/bookkeeping is pinned, not specified: error comparisons are lenient)
    pub not_failures: u64,
    pub nested_runs: u64,
    pub nested_failures: u64,
    pub nested_incomplete: u64,
    /// deepest chain of recursive references being evaluated at once
    pub max_rec_depth: usize,
}

pub struct Model<'a> {
    pub w: &'a [char],
    pub pend: Option<MErr>,
    pub steps: u64,
    pub budget: u64,
    pub over: bool,
    pub trace: Vec<ProbeEv>,
    pub stats: Stats,
    /// bodies of the enclosing `Rec` nodes (innermost last), addressed by `p.n`
    defs: Vec<(u8, &'a G)>,
    rec_depth: usize,
    depth: usize,
    /// number of successful recoveries so far (for A9)
    recovered: u32,
    /// wrap every node's value in `Val::Node` (mirrors `mk::Opts::wrap`)
    pub wrap: bool,
    /// ... together with its slice (mirrors `mk::Opts::slice`)
    pub wrap_slice: bool,
    /// ... and an observation of inspector state + context at its end (mirrors `mk::Opts::obs`)
    pub wrap_obs: bool,
    /// position of the most recent failure event
    last_fail_pos: usize,
}

#[derive(Clone, Debug)]
pub struct Outcome {
    /// `Some` iff the grammar followed by end-of-input matches
    pub out: Option<Val>,
    /// emissions of the surviving path (meaningful when `out` is `Some`)
    pub em: Vec<MEmit>,
    /// pending primary error at the end (what a failed parse reports last)
    pub pend: Option<MErr>,
    pub st: St,
    pub trace: Vec<ProbeEv>,
    pub stats: Stats,
    pub pathological: bool,
    /// result of the grammar itself before the implicit `end()`: end position if it matched a prefix
    pub prefix_end: Option<usize>,
    pub prefix_out: Option<Val>,
    pub prefix_em: Vec<MEmit>,
    pub prefix_st: St,
}

pub fn run(g: &G, w: &[char], st0: St, budget: u64) -> Outcome {
    run_opts(g, w, st0, budget, true)
}

pub fn run_opts(g: &G, w: &[char], st0: St, budget: u64, wrap: bool) -> Outcome {
    run_opts2(g, w, st0, budget, wrap, false)
}

pub fn run_opts2(g: &G, w: &[char], st0: St, budget: u64, wrap: bool, wrap_slice: bool) -> Outcome {
    run_opts3(g, w, st0, budget, wrap, wrap_slice, false)
}

pub fn run_opts3(g: &G, w: &[char], st0: St, budget: u64, wrap: bool, wrap_slice: bool, wrap_obs: bool) -> Outcome {
    let mut m = Model {
        w,
        pend: None,
        steps: 0,
        budget,
        over: false,
        trace: vec![],
        stats: Stats::default(),
        defs: vec![],
        rec_depth: 0,
        depth: 0,
        recovered: 0,
        wrap,
        wrap_slice,
        wrap_obs,
        last_fail_pos: 0,
    };
    // SAFETY of lifetimes: `g` outlives the model; transmute-free by re-borrowing
    let r = m.ev_root(g, st0);
    let mut out = None;
    let mut em_out = vec![];
    let mut st_out = st0;
    let mut prefix_end = None;
    let mut prefix_out = None;
    let mut prefix_em = vec![];
    let mut prefix_st = st0;
    if let R::Ok { v, end, st, em } = r {
        prefix_end = Some(end);
        prefix_out = Some(v.clone());
        prefix_em = em.clone();
        prefix_st = st;
        // implicit end()
        if end == w.len() {
            out = Some(v);
            em_out = em;
            st_out = st;
        } else {
            m.fail(MErr::new(end, (end, end + 1), [Exp::EndOfInput]));
        }
    }
    Outcome {
        out,
        em: em_out,
        pend: m.pend.clone(),
        st: st_out,
        trace: std::mem::take(&mut m.trace),
        stats: m.stats.clone(),
        pathological: m.over,
        prefix_end,
        prefix_out,
        prefix_em,
        prefix_st,
    }
}

impl<'a> Model<'a> {
    fn ev_root(&mut self, g: &G, st: St) -> R {
        // `defs` holds references with the model's lifetime; the grammar outlives `run`.
        let g: &'a G = unsafe { &*(g as *const G) };
        self.ev(g, 0, st, &Val::Unit)
    }

    pub fn fail(&mut self, e: MErr) {
        self.last_fail_pos = e.pos;
        self.pend = Some(match self.pend.take() {
            None => e,
            Some(p) => {
                if e.pos > p.pos {
                    e
                } else if e.pos == p.pos {
                    p.merge(e)
                } else {
                    p
                }
            }
        });
    }

    fn tok_span(&self, p: usize) -> Sp {
        if p < self.w.len() {
            (p, p + 1)
        } else {
            (p, p)
        }
    }

    fn abandoned(&mut self, r: &R, start: usize) {
        self.stats.backtracks += 1;
        if let R::Ok { end, em, .. } = r {
            if *end > start {
                self.stats.deep_backtracks += 1;
            }
            self.stats.abandoned_emissions += em.len() as u64;
        }
    }

    fn ev(&mut self, g: &'a G, p: usize, st: St, cx: &Val) -> R {
        self.steps += 1;
        if self.steps > self.budget {
            self.over = true;
        }
        if self.over {
            return R::Fail;
        }
        self.depth += 1;
        if self.depth > self.stats.max_depth {
            self.stats.max_depth = self.depth;
        }
        let r = self.ev_inner(g, p, st, cx);
        self.depth -= 1;
        match r {
            R::Ok { v, end, st, em } if self.wrap => {
                let v = if self.wrap_obs { Val::pair(Val::Obs { id: g.id, n: st.n, h: st.h, ctx: Box::new(cx.clone()) }, v) } else { v };
                let v = if self.wrap_slice { Val::pair(Val::Slice { s: self.w[p..end].iter().collect(), off: p }, v) } else { v };
                R::Ok { v: Val::node(g.id, p, end, v), end, st, em }
            }
            r => r,
        }
    }

    fn ok(v: Val, end: usize, st: St) -> R {
        R::Ok { v, end, st, em: vec![] }
    }

    /// Items of a repetition-like node (`Rep`, `Sep`, `CtxRep`): `Some((items, end, st, em))` or `None` on failure.
    /// `limit` = additional cap on the number of items requested by the consumer (`collect_exactly`).
    fn ev_iter(&mut self, g: &'a G, p: usize, st: St, cx: &Val, limit: Option<usize>) -> Option<(Vec<(Val, usize, usize, usize, St)>, usize, St, Vec<MEmit>, bool)> {
        // returns (items with their start positions, end, state, emissions, stopped_by_bound)
        let mut items: Vec<(Val, usize, usize, usize, St)> = vec![];
        let mut em: Vec<MEmit> = vec![];
        let mut q = p;
        let mut s = st;
        match g.op {
            Op::Rep | Op::CtxRep => {
                let (lo, hi) = if g.op == Op::CtxRep {
                    let n = cx.flat_string().chars().count();
                    if !g.p.ok && n == 2 {
                        // try_configure returns an error: the parser fails with that error at its start
                        self.fail(MErr::user(p, (p, p), format!("Q{}", g.id)));
                        return None;
                    }
                    if g.p.ok && g.p.trail {
                        (n / 2, Some(n))
                    } else {
                        (n, Some(n))
                    }
                } else {
                    (g.p.lo as usize, g.p.hi.map(|h| h as usize))
                };
                loop {
                    if let Some(l) = limit {
                        if items.len() >= l {
                            return Some((items, q, s, em, false));
                        }
                    }
                    if let Some(h) = hi {
                        if items.len() >= h {
                            return Some((items, q, s, em, true));
                        }
                    }
                    if self.over {
                        return None;
                    }
                    match self.ev(&g.kids[0], q, s, cx) {
                        R::Ok { v, end, st, em: e } => {
                            if end == q {
                                // would loop forever; workload guarantees non-nullable items
                                self.over = true;
                                return None;
                            }
                            items.push((v, q, end, q, st));
                            q = end;
                            s = st;
                            em.extend(e);
                        }
                        R::Fail => {
                            self.stats.backtracks += 1;
                            if self.last_fail_pos > q {
                                self.stats.deep_backtracks += 1;
                            }
                            return if items.len() >= lo { Some((items, q, s, em, false)) } else { None };
                        }
                    }
                }
            }
            Op::Sep => {
                let lo = g.p.lo as usize;
                let hi = g.p.hi.map(|h| h as usize);
                let (item, sep) = (&g.kids[0], &g.kids[1]);
                loop {
                    if let Some(l) = limit {
                        if items.len() >= l {
                            return Some((items, q, s, em, false));
                        }
                    }
                    if let Some(h) = hi {
                        if items.len() >= h {
                            // a separator may follow: whether it is consumed under allow_trailing is A1
                            if g.p.trail {
                                let save = self.pend.clone();
                                let tl = self.trace.len();
                                let stats = self.stats.clone();
                                let hit = matches!(self.ev(sep, q, s, cx), R::Ok { .. });
                                self.pend = save;
                                self.trace.truncate(tl);
                                self.stats = stats;
                                if hit {
                                    self.stats.ambiguous_a1 = true;
                                }
                            }
                            return Some((items, q, s, em, true));
                        }
                    }
                    if self.over {
                        return None;
                    }
                    let before_sep = (q, s, em.len());
                    let mut after_sep = (q, s);
                    let mut sep_em: Vec<MEmit> = vec![];
                    let mut had_sep = false;
                    if items.is_empty() && g.p.lead {
                        if let R::Ok { end, st, em: e, .. } = self.ev(sep, q, s, cx) {
                            after_sep = (end, st);
                            sep_em = e;
                            had_sep = true;
                        } else {
                            self.stats.backtracks += 1;
                        }
                    } else if !items.is_empty() {
                        match self.ev(sep, q, s, cx) {
                            R::Ok { end, st, em: e, .. } => {
                                after_sep = (end, st);
                                sep_em = e;
                                had_sep = true;
                            }
                            R::Fail => {
                                self.stats.backtracks += 1;
                                return if items.len() >= lo { Some((items, q, s, em, false)) } else { None };
                            }
                        }
                    }
                    match self.ev(item, after_sep.0, after_sep.1, cx) {
                        R::Ok { v, end, st, em: e } => {
                            if end == before_sep.0 {
                                self.over = true;
                                return None;
                            }
                            em.extend(sep_em);
                            em.extend(e);
                            items.push((v, after_sep.0, end, before_sep.0, st));
                            q = end;
                            s = st;
                        }
                        R::Fail => {
                            self.stats.backtracks += 1;
                            if items.len() < lo {
                                return None;
                            }
                            // trailing (or lone leading) separator
                            if had_sep {
                                if items.is_empty() {
                                    // leading separator with zero items: A2
                                    self.stats.ambiguous_a2 = true;
                                    if g.p.trail {
                                        em.extend(sep_em);
                                        return Some((items, after_sep.0, after_sep.1, em, false));
                                    }
                                    return Some((items, before_sep.0, before_sep.1, em, false));
                                }
                                if g.p.trail {
                                    em.extend(sep_em);
                                    return Some((items, after_sep.0, after_sep.1, em, false));
                                }
                                self.stats.abandoned_emissions += sep_em.len() as u64;
                            }
                            return Some((items, before_sep.0, before_sep.1, em, false));
                        }
                    }
                }
            }
            _ => panic!("ev_iter on non-iterable {:?}", g.op),
        }
    }

    fn ev_inner(&mut self, g: &'a G, p: usize, st: St, cx: &Val) -> R {
        use Op::*;
        let n = self.w.len();
        let t = self.w.get(p).copied();
        let k = &g.kids;
        match g.op {
            Just => {
                let c = g.p.cs[0];
                if t == Some(c) {
                    Self::ok(Val::Tok(c), p + 1, st.feed(c))
                } else {
                    let sp = self.tok_span(p);
                    self.fail(MErr::new(p, sp, [Exp::Tok(c)]));
                    R::Fail
                }
            }
            JustSeq | CtxJust => {
                let seq: Vec<char> = if g.op == CtxJust { cx.flat_string().chars().collect() } else { g.p.cs.clone() };
                let mut s = st;
                for (j, c) in seq.iter().enumerate() {
                    if self.w.get(p + j) == Some(c) {
                        s = s.feed(*c);
                    } else {
                        let sp = self.tok_span(p + j);
                        self.fail(MErr::new(p + j, sp, [Exp::Tok(*c)]));
                        return R::Fail;
                    }
                }
                Self::ok(Val::Str(seq.iter().collect()), p + seq.len(), s)
            }
            Any | OneOf | NoneOf | Select => {
                let accept = match (g.op, t) {
                    (_, None) => false,
                    (Any, Some(_)) => true,
                    (OneOf, Some(c)) | (Select, Some(c)) => g.p.cs.contains(&c),
                    (NoneOf, Some(c)) => !g.p.cs.contains(&c),
                    _ => unreachable!(),
                };
                if accept {
                    let c = t.unwrap();
                    if g.op == Select && self.wrap_obs {
                        // the select closure runs after the token has been taken
                        let s2 = st.feed(c);
                        return Self::ok(Val::pair(Val::Obs { id: g.id, n: s2.n, h: s2.h, ctx: Box::new(cx.clone()) }, Val::Tok(c)), p + 1, s2);
                    }
                    Self::ok(Val::Tok(c), p + 1, st.feed(c))
                } else {
                    let exp: Vec<Exp> = match g.op {
                        Any => vec![Exp::Any],
                        OneOf => g.p.cs.iter().map(|c| Exp::Tok(*c)).collect(),
                        _ => vec![Exp::SomethingElse],
                    };
                    let sp = self.tok_span(p);
                    self.fail(MErr::new(p, sp, exp));
                    R::Fail
                }
            }
            End => {
                if p == n {
                    Self::ok(Val::Unit, p, st)
                } else {
                    self.fail(MErr::new(p, (p, p + 1), [Exp::EndOfInput]));
                    R::Fail
                }
            }
            Empty => Self::ok(Val::Unit, p, st),
            Custom => {
                let want = g.p.n as usize;
                let avail = want.min(n - p);
                if avail < want {
                    self.fail(MErr::user(p, (p, p + avail), format!("C{}:short", g.id)));
                    R::Fail
                } else if g.p.ok {
                    let s: String = self.w[p..p + want].iter().collect();
                    Self::ok(Val::Str(s), p + want, st.feed_all(&self.w[p..p + want]))
                } else {
                    self.fail(MErr::user(p, (p, p + want), format!("C{}", g.id)));
                    R::Fail
                }
            }
            Probe => {
                self.trace.push(ProbeEv { id: g.id, pos: p, st, ctx: cx.clone() });
                Self::ok(Val::Obs { id: g.id, n: st.n, h: st.h, ctx: Box::new(cx.clone()) }, p, st)
            }
            Then | IgnoreThen | ThenIgnore | ThenWithCtx | IgnoreWithCtx => {
                let (va, q, s, mut em) = match self.ev(&k[0], p, st, cx) {
                    R::Ok { v, end, st, em } => (v, end, st, em),
                    R::Fail => return R::Fail,
                };
                let cx_b = if matches!(g.op, ThenWithCtx | IgnoreWithCtx) { va.clone() } else { cx.clone() };
                match self.ev(&k[1], q, s, &cx_b) {
                    R::Ok { v: vb, end, st, em: e } => {
                        em.extend(e);
                        let v = match g.op {
                            Then | ThenWithCtx => Val::pair(va, vb),
                            IgnoreThen | IgnoreWithCtx => vb,
                            _ => va,
                        };
                        R::Ok { v, end, st, em }
                    }
                    R::Fail => {
                        self.stats.abandoned_emissions += em.len() as u64;
                        R::Fail
                    }
                }
            }
            Group | GroupArr => {
                let mut vs = vec![];
                let mut q = p;
                let mut s = st;
                let mut em = vec![];
                for kid in k {
                    match self.ev(kid, q, s, cx) {
                        R::Ok { v, end, st, em: e } => {
                            vs.push(v);
                            q = end;
                            s = st;
                            em.extend(e);
                        }
                        R::Fail => {
                            self.stats.abandoned_emissions += em.len() as u64;
                            return R::Fail;
                        }
                    }
                }
                R::Ok { v: Val::Seq(vs), end: q, st: s, em }
            }
            Or | Choice | ChoiceTup | ChoiceArr => {
                if k.is_empty() {
                    self.fail(MErr::new(p, (p, p), []));
                    return R::Fail;
                }
                for kid in k {
                    match self.ev(kid, p, st, cx) {
                        r @ R::Ok { .. } => return r,
                        R::Fail => {
                            self.stats.backtracks += 1;
                            if self.last_fail_pos > p {
                                self.stats.deep_backtracks += 1;
                            }
                        }
                    }
                    if self.over {
                        return R::Fail;
                    }
                }
                R::Fail
            }
            OrNot => match self.ev(&k[0], p, st, cx) {
                R::Ok { v, end, st, em } => R::Ok { v: Val::some(v), end, st, em },
                R::Fail => {
                    self.stats.backtracks += 1;
                    if self.last_fail_pos > p {
                        self.stats.deep_backtracks += 1;
                    }
                    Self::ok(Val::Opt(None), p, st)
                }
            },
            Not => {
                let save = self.pend.take();
                let r = self.ev(&k[0], p, st, cx);
                self.pend = save;
                match r {
                    R::Ok { end, .. } => {
                        self.abandoned(&r, p);
                        let mut e = MErr::new(p, (p, end), [Exp::SomethingElse]);
                        e.from_not = true;
                        self.stats.not_failures += 1;
                        self.fail(e);
                        R::Fail
                    }
                    R::Fail => Self::ok(Val::Unit, p, st),
                }
            }
            AndIs => {
                let (v, q, s, mut em) = match self.ev(&k[0], p, st, cx) {
                    R::Ok { v, end, st, em } => (v, end, st, em),
                    R::Fail => return R::Fail,
                };
                match self.ev(&k[1], p, st, cx) {
                    R::Ok { em: e, .. } => {
                        self.stats.lookahead_kept_emissions += em.len() as u64;
                        em.extend(e.into_iter().map(|mut x| {
                            x.optional = true;
                            x
                        }));
                        R::Ok { v, end: q, st: s, em }
                    }
                    R::Fail => {
                        self.stats.backtracks += 1;
                        self.stats.abandoned_emissions += em.len() as u64;
                        R::Fail
                    }
                }
            }
            Rewind => match self.ev(&k[0], p, st, cx) {
                R::Ok { v, em, .. } => {
                    self.stats.lookahead_kept_emissions += em.len() as u64;
                    R::Ok { v, end: p, st, em }
                }
                R::Fail => R::Fail,
            },
            Delim | Padded => {
                // Delim(a, l, r) = l a r ; Padded(a, pad) = pad a pad ; value of a
                let order: [&'a G; 3] = if g.op == Delim { [&k[1], &k[0], &k[2]] } else { [&k[1], &k[0], &k[1]] };
                let mut q = p;
                let mut s = st;
                let mut em = vec![];
                let mut val = Val::Unit;
                for (i, kid) in order.iter().enumerate() {
                    match self.ev(kid, q, s, cx) {
                        R::Ok { v, end, st, em: e } => {
                            if i == 1 {
                                val = v;
                            }
                            q = end;
                            s = st;
                            em.extend(e);
                        }
                        R::Fail => {
                            self.stats.abandoned_emissions += em.len() as u64;
                            return R::Fail;
                        }
                    }
                }
                R::Ok { v: val, end: q, st: s, em }
            }
            Map | To | Ignored | ToSpan | ToSlice => match self.ev(&k[0], p, st, cx) {
                R::Ok { v, end, st, em } => {
                    let v = match g.op {
                        Map => Val::Tag(g.id, Box::new(v)),
                        To => Val::Num(g.id as i64),
                        Ignored => Val::Unit,
                        ToSpan => Val::Span(p, end),
                        _ => Val::Slice { s: self.w[p..end].iter().collect(), off: p },
                    };
                    R::Ok { v, end, st, em }
                }
                R::Fail => R::Fail,
            },
            Filter => match self.ev(&k[0], p, st, cx) {
                R::Ok { v, end, st, em } => {
                    if g.p.pred.eval(&v.flat_string()) {
                        R::Ok { v, end, st, em }
                    } else {
                        self.stats.rejecting_filters += 1;
                        self.stats.abandoned_emissions += em.len() as u64;
                        let mut e = MErr::new(end, (p, end), [Exp::SomethingElse]);
                        e.filter_like = true;
                        self.fail(e);
                        R::Fail
                    }
                }
                R::Fail => R::Fail,
            },
            TryMap => {
                let old = self.pend.take();
                let r = self.ev(&k[0], p, st, cx);
                let new = self.pend.take();
                self.pend = old;
                match r {
                    R::Ok { v, end, st, em } => {
                        if g.p.pred.eval(&v.flat_string()) {
                            if let Some(e) = new {
                                self.fail(e);
                            }
                            R::Ok { v, end, st, em }
                        } else {
                            self.stats.rejecting_filters += 1;
                            self.stats.abandoned_emissions += em.len() as u64;
                            if let Some(e) = &new {
                                if e.pos > p {
                                    self.stats.trymap_override = true;
                                }
                            }
                            self.fail(MErr::user(p, (p, end), format!("T{}", g.id)));
                            R::Fail
                        }
                    }
                    R::Fail => {
                        if let Some(e) = new {
                            self.fail(e);
                        }
                        R::Fail
                    }
                }
            }
            TryMapWith => match self.ev(&k[0], p, st, cx) {
                R::Ok { v, end, st, em } => {
                    if g.p.pred.eval(&v.flat_string()) {
                        R::Ok { v, end, st, em }
                    } else {
                        self.stats.rejecting_filters += 1;
                        self.stats.abandoned_emissions += em.len() as u64;
                        self.fail(MErr::user(end, (p, end), format!("T{}", g.id)));
                        R::Fail
                    }
                }
                R::Fail => R::Fail,
            },
            Rep | Sep | CtxRep => {
                let limit = match g.p.flav {
                    Flav::Arr2 if g.op != CtxRep => Some(2),
                    Flav::Arr3 if g.op != CtxRep => Some(3),
                    _ => None,
                };
                match self.ev_iter(g, p, st, cx, limit) {
                    None => R::Fail,
                    Some((items, end, st, em, by_bound)) => {
                        if let Some(l) = limit {
                            if items.len() < l {
                                // collect_exactly ran short
                                if by_bound {
                                    self.stats.short_array_no_event = true;
                                    if self.pend.is_none() {
                                        let sp = self.tok_span(end);
                                        self.fail(MErr::new(end, sp, [Exp::SomethingElse]));
                                    }
                                }
                                self.stats.abandoned_emissions += em.len() as u64;
                                return R::Fail;
                            }
                        }
                        let flav = if g.op == CtxRep && !matches!(g.p.flav, Flav::Unit | Flav::Count) { Flav::Vec } else { g.p.flav };
                        let v = match flav {
                            Flav::Unit => Val::Unit,
                            Flav::Vec | Flav::Arr2 | Flav::Arr3 => Val::Seq(items.into_iter().map(|(v, _, _, _, _)| v).collect()),
                            Flav::Str => Val::Str(items.iter().map(|(v, _, _, _, _)| v.first_char()).collect()),
                            Flav::Count | Flav::CountM => Val::Num(items.len() as i64),
                            Flav::Enum => Val::Seq(items.into_iter().enumerate().map(|(i, (v, _, _, _, _))| Val::pair(Val::Num(i as i64), v)).collect()),
                        };
                        R::Ok { v, end, st, em }
                    }
                }
            }
            Foldl => {
                let (mut acc, q, s, mut em) = match self.ev(&k[0], p, st, cx) {
                    R::Ok { v, end, st, em } => (v, end, st, em),
                    R::Fail => return R::Fail,
                };
                // the fold observes the span from the start of the whole fold to the end of each item,
                // so items are replayed one at a time
                match self.ev_iter(&k[1], q, s, cx, None) {
                    None => {
                        self.stats.abandoned_emissions += em.len() as u64;
                        R::Fail
                    }
                    Some((items, end, st, e, _)) => {
                        em.extend(e);
                        for (x, _, item_end, _, st_item) in items.into_iter() {
                            acc = if g.p.ok {
                                let acc = if self.wrap_obs { Val::pair(Val::Obs { id: g.id, n: st_item.n, h: st_item.h, ctx: Box::new(cx.clone()) }, acc) } else { acc };
                                Val::FoldW { lo: p, lo2: p, hi: item_end, acc: Box::new(acc), x: Box::new(x) }
                            } else {
                                Val::pair(acc, x)
                            };
                        }
                        R::Ok { v: acc, end, st, em }
                    }
                }
            }
            Foldr => {
                let (items, q, s, mut em) = match self.ev_iter(&k[0], p, st, cx, None) {
                    None => return R::Fail,
                    Some((items, end, st, em, _)) => (items, end, st, em),
                };
                match self.ev(&k[1], q, s, cx) {
                    R::Ok { v, end, st, em: e } => {
                        em.extend(e);
                        let mut acc = v;
                        for (x, start, _, step_start, _) in items.into_iter().rev() {
                            acc = if g.p.ok {
                                // foldr callbacks run after everything has been parsed: they see the final state
                                let acc = if self.wrap_obs { Val::pair(Val::Obs { id: g.id, n: st.n, h: st.h, ctx: Box::new(cx.clone()) }, acc) } else { acc };
                                // the callback's span starts where the step that produced the item started
                                // (before its separator); the item's own start is accepted as well
                                Val::FoldW { lo: step_start, lo2: start, hi: end, acc: Box::new(acc), x: Box::new(x) }
                            } else {
                                Val::pair(x, acc)
                            };
                        }
                        R::Ok { v: acc, end, st, em }
                    }
                    R::Fail => {
                        self.stats.abandoned_emissions += em.len() as u64;
                        R::Fail
                    }
                }
            }
            Validate => match self.ev(&k[0], p, st, cx) {
                R::Ok { v, end, st, mut em } => {
                    for i in 0..g.p.n {
                        em.push(MEmit { k: EmitK::Tag(format!("E{}.{}", g.id, i)), span: (p, end), at: p, ctxs: vec![], optional: false, nested: false });
                    }
                    R::Ok { v, end, st, em }
                }
                R::Fail => R::Fail,
            },
            RecVia | RecNested | RecSkipUntil | RecSkipRetry => self.ev_recover(g, p, st, cx),
            Memo | WithCtx | MapCtx | WithState => {
                let cx2;
                let cxr: &Val = match g.op {
                    WithCtx => {
                        cx2 = Val::Str(g.p.cs.iter().collect());
                        &cx2
                    }
                    MapCtx => {
                        cx2 = Val::pair(cx.clone(), Val::Str(g.p.cs.iter().collect()));
                        &cx2
                    }
                    _ => cx,
                };
                if g.op == WithState {
                    match self.ev(&k[0], p, St::fresh(g.p.n), cxr) {
                        R::Ok { v, end, em, .. } => R::Ok { v, end, st, em },
                        R::Fail => R::Fail,
                    }
                } else {
                    self.ev(&k[0], p, st, cxr)
                }
            }
            Label => {
                let label = LABELS[g.p.n as usize % 4].to_string();
                let old = self.pend.take();
                let r = self.ev(&k[0], p, st, cx);
                let new = self.pend.take();
                self.pend = old;
                if let Some(mut e) = new {
                    if e.pos == p {
                        if matches!(r, R::Ok { .. }) {
                            self.stats.label_on_success = true;
                        }
                        e.exp = [Exp::Label(label.clone())].into_iter().collect();
                        e.user_built |= !e.alt_users.is_empty();
                        e.user = None;
                        e.alt_users.clear();
                    } else if g.p.ok && e.pos > p {
                        if !e.ctxs.iter().any(|(l, _)| *l == label) {
                            e.ctxs.push((label.clone(), (p, e.pos)));
                        }
                    }
                    self.fail(e);
                }
                match r {
                    R::Ok { v, end, st, mut em } => {
                        if g.p.ok {
                            for m in em.iter_mut() {
                                let tgt = match &mut m.k {
                                    EmitK::Rec(e) => &mut e.ctxs,
                                    EmitK::Tag(_) => &mut m.ctxs,
                                };
                                if !tgt.iter().any(|(l, _)| *l == label) {
                                    tgt.push((label.clone(), (p, m.at)));
                                }
                            }
                        }
                        R::Ok { v, end, st, em }
                    }
                    R::Fail => R::Fail,
                }
            }
            MapErr => {
                let old = self.pend.take();
                let r = self.ev(&k[0], p, st, cx);
                let new = self.pend.take();
                self.pend = old;
                if let Some(mut e) = new {
                    if matches!(r, R::Fail) {
                        let tag = format!("M{}", g.id);
                        if !e.ctxs.iter().any(|(l, _)| *l == tag) {
                            let sp = e.span;
                            e.ctxs.push((tag, sp));
                        }
                    }
                    self.fail(e);
                }
                r
            }
            ExtWrap => {
                let r = self.ev(&k[0], p, st, cx);
                if matches!(r, R::Fail) {
                    // `inp.parse(..)` hands the whole pending error to the extension, which reports it at its start
                    if let Some(mut e) = self.pend.take() {
                        e.pos = p;
                        self.fail(e);
                    }
                }
                r
            }
            NestedIn => {
                let (q, s_b, mut em) = match self.ev(&k[1], p, st, cx) {
                    R::Ok { end, st, em, .. } => (end, st, em),
                    R::Fail => return R::Fail,
                };
                // the inner input is exactly w[p..q]; positions stay absolute in the model
                let outer_w = self.w;
                let outer_pend = self.pend.take();
                self.w = &outer_w[..q];
                let mut r = self.ev(&k[0], p, s_b, cx);
                if let R::Ok { end, .. } = &r {
                    if *end != q {
                        let e = MErr::new(*end, (*end, *end + 1), [Exp::EndOfInput]);
                        self.fail(e);
                        self.stats.nested_incomplete += 1;
                        r = R::Fail;
                    }
                }
                self.w = outer_w;
                let inner_pend = self.pend.take();
                self.pend = outer_pend;
                if let Some(mut e) = inner_pend {
                    // what the inner parse left pending surfaces at the outer position after `b`
                    e.pos = q;
                    e.from_nested = true;
                    self.fail(e);
                }
                self.stats.nested_runs += 1;
                match r {
                    R::Ok { v, st, em: e, .. } => {
                        em.extend(e.into_iter().map(|mut x| {
                            x.nested = true;
                            if let EmitK::Rec(me) = &mut x.k {
                                me.from_nested = true;
                            }
                            x
                        }));
                        R::Ok { v, end: q, st, em }
                    }
                    R::Fail => {
                        self.stats.nested_failures += 1;
                        self.stats.abandoned_emissions += em.len() as u64;
                        R::Fail
                    }
                }
            }
            Rec => {
                self.defs.push((g.p.n, &k[0]));
                let r = self.ev(&k[0], p, st, cx);
                self.defs.pop();
                r
            }
            Ref => {
                let body = self.defs.iter().rev().find(|(n, _)| *n == g.p.n).map(|(_, b)| *b);
                match body {
                    Some(b) => {
                        self.rec_depth += 1;
                        self.stats.max_rec_depth = self.stats.max_rec_depth.max(self.rec_depth);
                        let r = self.ev(b, p, st, cx);
                        self.rec_depth -= 1;
                        r
                    }
                    None => panic!("unbound recursion reference r{}", g.p.n),
                }
            }
        }
    }

    fn ev_recover(&mut self, g: &'a G, p: usize, st: St, cx: &Val) -> R {
        use Op::*;
        let k = &g.kids;
        match self.ev(&k[0], p, st, cx) {
            r @ R::Ok { .. } => return r,
            R::Fail => {}
        }
        if self.over {
            return R::Fail;
        }
        self.stats.backtracks += 1;
        if self.recovered > 0 {
            self.stats.ambiguous_a9 = true;
        }
        let estar = match self.pend.take() {
            Some(e) => e,
            None => {
                // a failing parser always leaves a pending error in the model
                panic!("model: failure without pending error at node {}", g.id)
            }
        };
        let rec_emit = |e: &MErr, at: usize| MEmit { k: EmitK::Rec(e.clone()), span: e.span, at, ctxs: vec![], optional: false, nested: false };
        match g.op {
            RecVia => match self.ev(&k[1], p, st, cx) {
                R::Ok { v, end, st, mut em } => {
                    em.push(rec_emit(&estar, end));
                    self.stats.recoveries += 1;
                    self.recovered += 1;
                    R::Ok { v, end, st, em }
                }
                R::Fail => {
                    self.pend = Some(estar);
                    self.stats.failed_recoveries += 1;
                    R::Fail
                }
            },
            RecNested => {
                // via_parser(nested_delimiters('(', ')', [('[', ']')], fallback)): one balanced region.
                // The region is decided by an independent bracket matcher; the failure events the strategy
                // leaves behind are obtained by evaluating its documented definition as a grammar.
                let want = self.balanced(p, st);
                let got = {
                    let g: &'static G = nested_g();
                    let save_wrap = self.wrap;
                    self.wrap = false;
                    let r = self.ev(g, p, st, cx);
                    self.wrap = save_wrap;
                    r
                };
                if self.over {
                    return R::Fail;
                }
                match (want, got) {
                    (Some((end, st)), R::Ok { end: e2, .. }) => {
                        assert_eq!(end, e2, "model: bracket matcher and desugared nested_delimiters disagree");
                        self.stats.recoveries += 1;
                        self.recovered += 1;
                        R::Ok { v: Val::Fb(g.id), end, st, em: vec![rec_emit(&estar, end)] }
                    }
                    (None, R::Fail) => {
                        self.pend = Some(estar);
                        self.stats.failed_recoveries += 1;
                        R::Fail
                    }
                    (w, g) => panic!("model: bracket matcher {:?} and desugared nested_delimiters {:?} disagree", w.map(|x| x.0), matches!(g, R::Ok { .. })),
                }
            }
            RecSkipUntil => {
                let mut q = p;
                let mut s = st;
                let mut em: Vec<MEmit> = vec![];
                loop {
                    if self.over {
                        return R::Fail;
                    }
                    if let R::Ok { end, st, em: e, .. } = self.ev(&k[2], q, s, cx) {
                        em.extend(e);
                        em.push(rec_emit(&estar, end));
                        self.stats.recoveries += 1;
                        self.recovered += 1;
                        return R::Ok { v: Val::Fb(g.id), end, st, em };
                    }
                    match self.ev(&k[1], q, s, cx) {
                        R::Ok { end, st, em: e, .. } => {
                            if end == q {
                                self.over = true;
                                return R::Fail;
                            }
                            q = end;
                            s = st;
                            em.extend(e);
                        }
                        R::Fail => {
                            self.pend = Some(estar);
                            self.stats.failed_recoveries += 1;
                            self.stats.abandoned_emissions += em.len() as u64;
                            return R::Fail;
                        }
                    }
                }
            }
            RecSkipRetry => {
                let mut q = p;
                let mut s = st;
                let mut em: Vec<MEmit> = vec![];
                loop {
                    if self.over {
                        return R::Fail;
                    }
                    if let R::Ok { .. } = self.ev(&k[2], q, s, cx) {
                        self.pend = Some(estar);
                        self.stats.failed_recoveries += 1;
                        return R::Fail;
                    }
                    match self.ev(&k[1], q, s, cx) {
                        R::Ok { end, st, em: e, .. } => {
                            if end == q {
                                self.over = true;
                                return R::Fail;
                            }
                            q = end;
                            s = st;
                            em.extend(e);
                        }
                        R::Fail => {
                            self.pend = Some(estar);
                            self.stats.failed_recoveries += 1;
                            return R::Fail;
                        }
                    }
                    match self.ev(&k[0], q, s, cx) {
                        R::Ok { v, end, st, em: e } if e.is_empty() => {
                            em.push(rec_emit(&estar, end));
                            self.stats.recoveries += 1;
                            self.recovered += 1;
                            return R::Ok { v, end, st, em };
                        }
                        _ => {
                            // the retry failed (or was not error-free): what it recorded does not compete
                            self.pend = None;
                        }
                    }
                }
            }
            _ => unreachable!(),
        }
    }

    /// Independent bracket matcher for `nested_delimiters('(', ')', [('[', ']')])`: from `p`, which
    /// must hold `(`, consume up to the matching `)`, where inner `(..)` and `[..]` regions must be
    /// balanced and any other token except the four delimiters may appear.
    fn balanced(&mut self, p: usize, st: St) -> Option<(usize, St)> {
        fn region(w: &[char], p: usize, open: char, close: char) -> Option<usize> {
            // returns the position after the closing delimiter
            if w.get(p) != Some(&open) {
                return None;
            }
            let mut q = p + 1;
            loop {
                match w.get(q) {
                    None => return None,
                    Some(&c) if c == close => return Some(q + 1),
                    Some('(') => q = region(w, q, '(', ')')?,
                    Some('[') => q = region(w, q, '[', ']')?,
                    Some(')') | Some(']') => return None,
                    Some(_) => q += 1,
                }
            }
        }
        let end = region(self.w, p, '(', ')')?;
        Some((end, st.feed_all(&self.w[p..end])))
    }
}

/// `nested_delimiters('(', ')', [('[', ']')], _)` written out as a grammar (its documented definition):
/// `block = ( block.delimited_by('(', ')') | block.delimited_by('[', ']') | any().and_is(none_of("()[]")).ignored() ).repeated()`,
/// the whole being `block.delimited_by('(', ')')`.
pub fn nested_g() -> &'static G {
    static CELL: std::sync::OnceLock<G> = std::sync::OnceLock::new();
    CELL.get_or_init(|| {
        let r = || G::leaf(Op::Ref).with(|p| p.n = 250);
        let d = |o: char, c: char| G::new(Op::Delim, vec![r(), G::just(o), G::just(c)]);
        let other = G::un(Op::Ignored, G::bin(Op::AndIs, G::leaf(Op::Any), G::set(Op::NoneOf, "()[]")));
        let item = G::bin(Op::Or, G::bin(Op::Or, d('(', ')'), d('[', ']')), other);
        let block = G::un(Op::Rec, G::rep(item, 0, None, Flav::Unit)).with(|p| p.n = 250);
        let mut g = G::new(Op::Delim, vec![block, G::just('('), G::just(')')]);
        g.renumber(1_000_000);
        g
    })
}
