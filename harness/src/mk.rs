//! Builders: grammar AST -> real chumsky parsers (boxed at every node), generic over the input kind
//! and the error type; plus the glue that runs them and normalises what they report.

use crate::gram::{Flav, Op, Via, G, LABELS};
use crate::model::{Exp, Sp};
use crate::obs::{trace_push, Insp, RErr, RProbe};
use crate::val::Val;
use chumsky::error::{Cheap, EmptyErr, Rich, RichPattern, RichReason, Simple};
use chumsky::input::{Input, ValueInput};
use chumsky::label::LabelError;
use chumsky::prelude::*;
use chumsky::recursive::Recursive;
use std::collections::BTreeSet;

pub type Ex<ER> = extra::Full<ER, Insp, Val>;
pub type BP<'s, I, ER> = Boxed<'s, 's, I, Val, Ex<ER>>;

// -----------------------------------------------------------------------------------------------
// Input buffers and kinds

/// One token sequence in every representation the kinds need.  Built once per case.
pub struct Buf {
    pub chars: Vec<char>,
    pub text: String,
    /// byte offset of token i in `text` (len+1 entries)
    pub byte_off: Vec<usize>,
    /// tokens with gapped spans: token i spans `10*i+2 .. 10*i+7`, end of input `10*n .. 10*n`
    pub spanned: Vec<(char, SimpleSpan)>,
}

impl Buf {
    pub fn new(chars: &[char]) -> Buf {
        let text: String = chars.iter().collect();
        let mut byte_off = Vec::with_capacity(chars.len() + 1);
        let mut o = 0;
        for c in chars {
            byte_off.push(o);
            o += c.len_utf8();
        }
        byte_off.push(o);
        let spanned = chars.iter().enumerate().map(|(i, c)| (*c, SimpleSpan::from(gap_span(i)))).collect();
        Buf { chars: chars.to_vec(), text, byte_off, spanned }
    }
    pub fn n(&self) -> usize {
        self.chars.len()
    }
}

pub fn gap_span(i: usize) -> std::ops::Range<usize> {
    10 * i + 2..10 * i + 7
}

/// An input representation under test.
pub trait Kind<'s>: Input<'s, Token = char> + Sized + 's
where
    Self::Span: Clone + 's,
{
    const NAME: &'static str;
    /// Does the kind implement `ValueInput` (any/one_of/none_of/select/not/nested_delimiters)?
    const VALUE: bool = true;
    /// `any` / `one_of` / `none_of` / `select` leaves (need `ValueInput`)
    fn value_leaf<ER: ErrK<'s, Self>>(g: &G, _obs: bool) -> BP<'s, Self, ER> {
        panic!("{:?} is not supported on input kind {}", g.op, Self::NAME)
    }
    fn not_of<ER: ErrK<'s, Self>>(_p: BP<'s, Self, ER>) -> BP<'s, Self, ER> {
        panic!("not() is not supported on input kind {}", Self::NAME)
    }
    fn nested_of<ER: ErrK<'s, Self>>(_id: u32) -> BP<'s, Self, ER> {
        panic!("nested_delimiters is not supported on input kind {}", Self::NAME)
    }
    /// `Custom` leaf that consumes through `peek()` + `skip()` (needs `ValueInput`)
    fn custom_skip_of<ER: ErrK<'s, Self>>(g: &G) -> BP<'s, Self, ER> {
        panic!("{:?} via skip() is not supported on input kind {}", g.op, Self::NAME)
    }
    /// `a.nested_in(b.to_slice())` (kinds whose slices are inputs of the same kind)
    const NESTED: bool = false;
    fn nested_in_of<ER: ErrK<'s, Self>>(_a: BP<'s, Self, ER>, _b: BP<'s, Self, ER>) -> BP<'s, Self, ER> {
        panic!("nested_in is not supported on input kind {}", Self::NAME)
    }
    /// Wrapper capturing span and slice of a node (C07); kinds without slices capture the span twice.
    fn capture<ER: ErrK<'s, Self>>(id: u32, p: BP<'s, Self, ER>) -> BP<'s, Self, ER> {
        p.map_with(move |v, e| {
            let s = Self::sp(&e.span());
            Val::node(id, s.0, s.1, Val::pair(Val::Span(s.0, s.1), v))
        })
        .boxed()
    }
    /// Are empty spans exact (`off(p)..off(p)`) or only required to lie between the neighbours?
    const GAPPED: bool = false;
    fn make(buf: &'s Buf) -> Self;
    fn sp(s: &Self::Span) -> Sp;
    /// Expected offsets of the extent `p..q` (token indices) in this representation.
    fn off(buf: &Buf, p: usize, q: usize) -> Sp;
    /// `to_slice` support (kinds without slices return `None` and the node degrades to `to_span`)
    fn slice_of<ER: ErrK<'s, Self>>(_p: BP<'s, Self, ER>) -> Option<BP<'s, Self, ER>> {
        None
    }
    /// Address of the caller's buffer (for the zero-copy check)
    fn base(_buf: &Buf) -> usize {
        0
    }
}

pub fn value_leaf_impl<'s, I: Kind<'s> + ValueInput<'s>, ER: ErrK<'s, I>>(g: &G, obs: bool) -> BP<'s, I, ER>
where
    I::Span: Clone + 's,
{
    let cs: Vec<char> = g.p.cs.clone();
    let id = g.id;
    // the token set in every container type the library accepts (`p.n` selects it)
    macro_rules! set_leaf {
        ($f:ident) => {{
            let st: String = cs.iter().collect();
            match g.p.n {
                1 => $f(st).map(Val::Tok).boxed(),
                2 => $f(intern(&st)).map(Val::Tok).boxed(),
                3 => match cs.len() {
                    1 => $f([cs[0]]).map(Val::Tok).boxed(),
                    2 => $f([cs[0], cs[1]]).map(Val::Tok).boxed(),
                    3 => $f([cs[0], cs[1], cs[2]]).map(Val::Tok).boxed(),
                    _ => $f(cs).map(Val::Tok).boxed(),
                },
                4 => $f(cs.iter().copied().collect::<std::collections::BTreeSet<char>>()).map(Val::Tok).boxed(),
                5 => $f(cs.iter().copied().collect::<std::collections::HashSet<char>>()).map(Val::Tok).boxed(),
                6 if contiguous(&cs) => $f(*cs.iter().min().unwrap()..=*cs.iter().max().unwrap()).map(Val::Tok).boxed(),
                _ => $f(cs).map(Val::Tok).boxed(),
            }
        }};
    }
    match g.op {
        Op::Any => any().map(Val::Tok).boxed(),
        Op::OneOf => set_leaf!(one_of),
        Op::NoneOf => set_leaf!(none_of),
        Op::Select if obs => chumsky::primitive::select(move |c: char, e: &mut chumsky::input::MapExtra<'s, '_, I, Ex<ER>>| {
            if cs.contains(&c) {
                let ctx: Val = e.ctx().clone();
                let st: &mut Insp = e.state();
                Some(Val::pair(Val::Obs { id, n: st.n, h: st.h, ctx: Box::new(ctx) }, Val::Tok(c)))
            } else {
                None
            }
        })
        .boxed(),
        Op::Select => chumsky::primitive::select(move |c: char, _e| if cs.contains(&c) { Some(Val::Tok(c)) } else { None }).boxed(),
        other => panic!("value_leaf on {:?}", other),
    }
}

/// Interned `&'static str` (bounded leak: one allocation per distinct string).
pub fn intern(s: &str) -> &'static str {
    use std::collections::HashMap;
    use std::sync::{Mutex, OnceLock};
    static POOL: OnceLock<Mutex<HashMap<String, &'static str>>> = OnceLock::new();
    let mut m = POOL.get_or_init(|| Mutex::new(HashMap::new())).lock().unwrap();
    if let Some(x) = m.get(s) {
        return x;
    }
    let l: &'static str = Box::leak(s.to_string().into_boxed_str());
    m.insert(s.to_string(), l);
    l
}

fn contiguous(cs: &[char]) -> bool {
    if cs.is_empty() {
        return false;
    }
    let lo = *cs.iter().min().unwrap() as u32;
    let hi = *cs.iter().max().unwrap() as u32;
    (lo..=hi).all(|c| char::from_u32(c).map(|c| cs.contains(&c)).unwrap_or(false))
}

macro_rules! value_kind {
    () => {
        fn value_leaf<ER: ErrK<'s, Self>>(g: &G, obs: bool) -> BP<'s, Self, ER> {
            value_leaf_impl::<Self, ER>(g, obs)
        }
        fn not_of<ER: ErrK<'s, Self>>(p: BP<'s, Self, ER>) -> BP<'s, Self, ER> {
            p.not().to(Val::Unit).boxed()
        }
        fn nested_of<ER: ErrK<'s, Self>>(id: u32) -> BP<'s, Self, ER> {
            nested_delimiters('(', ')', [('[', ']')], move |_| Val::Fb(id)).boxed()
        }
        fn custom_skip_of<ER: ErrK<'s, Self>>(g: &G) -> BP<'s, Self, ER> {
            custom_skip_impl::<Self, ER>(g)
        }
    };
}

/// `Custom{n, ok}` consuming its tokens with `peek()` + `skip()` instead of `next()`.
pub fn custom_skip_impl<'s, I: Kind<'s> + ValueInput<'s>, ER: ErrK<'s, I>>(g: &G) -> BP<'s, I, ER>
where
    I::Span: Clone + 's,
{
    let want = g.p.n as usize;
    let ok = g.p.ok;
    let id = g.id;
    custom(move |inp: &mut chumsky::input::InputRef<'s, '_, I, Ex<ER>>| {
        let before = inp.cursor();
        let mut s = String::new();
        for _ in 0..want {
            match inp.peek() {
                Some(c) => {
                    s.push(c);
                    inp.skip();
                }
                None => return Err(ER::user(inp.span_since(&before), format!("C{}:short", id))),
            }
        }
        if ok {
            Ok(Val::Str(s))
        } else {
            Err(ER::user(inp.span_since(&before), format!("C{}", id)))
        }
    })
    .boxed()
}

fn simple(s: &SimpleSpan) -> Sp {
    (s.start, s.end)
}

impl<'s> Kind<'s> for &'s str {
    const NAME: &'static str = "str";
    value_kind!();
    fn make(buf: &'s Buf) -> Self {
        &buf.text
    }
    fn sp(s: &SimpleSpan) -> Sp {
        simple(s)
    }
    fn off(buf: &Buf, p: usize, q: usize) -> Sp {
        (buf.byte_off[p], buf.byte_off[q])
    }
    fn slice_of<ER: ErrK<'s, Self>>(p: BP<'s, Self, ER>) -> Option<BP<'s, Self, ER>> {
        Some(p.to_slice().map(|s: &str| Val::Slice { s: s.to_string(), off: s.as_ptr() as usize }).boxed())
    }
    fn base(buf: &Buf) -> usize {
        buf.text.as_ptr() as usize
    }
    const NESTED: bool = true;
    fn nested_in_of<ER: ErrK<'s, Self>>(a: BP<'s, Self, ER>, b: BP<'s, Self, ER>) -> BP<'s, Self, ER> {
        // spans inside are relative to the inner &str: re-base by the start of the region
        a.nested_in(b.to_slice()).map_with(|v: Val, e| v.shift_spans(Self::sp(&e.span()).0)).boxed()
    }
    fn capture<ER: ErrK<'s, Self>>(id: u32, p: BP<'s, Self, ER>) -> BP<'s, Self, ER> {
        p.map_with(move |v, e| {
            let s = Self::sp(&e.span());
            let sl: &str = e.slice();
            Val::node(id, s.0, s.1, Val::pair(Val::Slice { s: sl.to_string(), off: sl.as_ptr() as usize }, v))
        })
        .boxed()
    }
}

impl<'s> Kind<'s> for &'s [char] {
    const NAME: &'static str = "slice";
    value_kind!();
    fn make(buf: &'s Buf) -> Self {
        &buf.chars
    }
    fn sp(s: &SimpleSpan) -> Sp {
        simple(s)
    }
    fn off(_buf: &Buf, p: usize, q: usize) -> Sp {
        (p, q)
    }
    fn slice_of<ER: ErrK<'s, Self>>(p: BP<'s, Self, ER>) -> Option<BP<'s, Self, ER>> {
        Some(
            p.to_slice()
                .map(|s: &[char]| Val::Slice { s: s.iter().collect(), off: s.as_ptr() as usize / std::mem::size_of::<char>() })
                .boxed(),
        )
    }
    fn base(buf: &Buf) -> usize {
        buf.chars.as_ptr() as usize / std::mem::size_of::<char>()
    }
    const NESTED: bool = true;
    fn nested_in_of<ER: ErrK<'s, Self>>(a: BP<'s, Self, ER>, b: BP<'s, Self, ER>) -> BP<'s, Self, ER> {
        a.nested_in(b.to_slice()).map_with(|v: Val, e| v.shift_spans(Self::sp(&e.span()).0)).boxed()
    }
    fn capture<ER: ErrK<'s, Self>>(id: u32, p: BP<'s, Self, ER>) -> BP<'s, Self, ER> {
        p.map_with(move |v, e| {
            let s = Self::sp(&e.span());
            let sl: &[char] = e.slice();
            Val::node(id, s.0, s.1, Val::pair(Val::Slice { s: sl.iter().collect(), off: sl.as_ptr() as usize / std::mem::size_of::<char>() }, v))
        })
        .boxed()
    }
}

pub type StreamK = chumsky::input::Stream<std::vec::IntoIter<char>>;
impl<'s> Kind<'s> for StreamK {
    const NAME: &'static str = "stream";
    value_kind!();
    fn make(buf: &'s Buf) -> Self {
        chumsky::input::Stream::from_iter(buf.chars.clone())
    }
    fn sp(s: &SimpleSpan) -> Sp {
        simple(s)
    }
    fn off(_buf: &Buf, p: usize, q: usize) -> Sp {
        (p, q)
    }
}

pub type MapFn<'s> = fn(&'s (char, SimpleSpan)) -> (&'s char, &'s SimpleSpan);
pub type MappedK<'s> = chumsky::input::MappedInput<char, SimpleSpan, &'s [(char, SimpleSpan)], MapFn<'s>>;
fn split_pair<'s>(x: &'s (char, SimpleSpan)) -> (&'s char, &'s SimpleSpan) {
    (&x.0, &x.1)
}
impl<'s> Kind<'s> for MappedK<'s> {
    const NAME: &'static str = "mapped";
    value_kind!();
    const GAPPED: bool = true;
    fn make(buf: &'s Buf) -> Self {
        let n = buf.n();
        let f: MapFn<'s> = split_pair;
        buf.spanned.as_slice().map(SimpleSpan::from(10 * n..10 * n), f)
    }
    fn sp(s: &SimpleSpan) -> Sp {
        simple(s)
    }
    const NESTED: bool = true;
    fn nested_in_of<ER: ErrK<'s, Self>>(a: BP<'s, Self, ER>, b: BP<'s, Self, ER>) -> BP<'s, Self, ER> {
        // tokens carry their own (absolute) spans; the inner end-of-input span is the empty span at the region's end
        let inner = b.to_slice().map_with(|sl: &'s [(char, SimpleSpan)], e| {
            let sp: SimpleSpan = e.span();
            let f: MapFn<'s> = split_pair;
            sl.map(SimpleSpan::from(sp.end..sp.end), f)
        });
        a.nested_in(inner).boxed()
    }
    fn off(buf: &Buf, p: usize, q: usize) -> Sp {
        if p == q {
            // empty: nominally at the start of the following token (checked leniently)
            let a = if p < buf.n() { gap_span(p).start } else { 10 * buf.n() };
            (a, a)
        } else {
            (gap_span(p).start, gap_span(q - 1).end)
        }
    }
}

/// `Stream` of `(token, span)` pairs mapped to a spanned input (`Stream::map`), gapped spans.
pub type SMapFn = fn((char, SimpleSpan)) -> (char, SimpleSpan);
pub type StreamMapK = chumsky::input::MappedInput<char, SimpleSpan, chumsky::input::Stream<std::vec::IntoIter<(char, SimpleSpan)>>, SMapFn>;
fn ident_pair(x: (char, SimpleSpan)) -> (char, SimpleSpan) {
    x
}
fn gapped_off(buf: &Buf, p: usize, q: usize) -> Sp {
    if p == q {
        let a = if p < buf.n() { gap_span(p).start } else { 10 * buf.n() };
        (a, a)
    } else {
        (gap_span(p).start, gap_span(q - 1).end)
    }
}
impl<'s> Kind<'s> for StreamMapK {
    const NAME: &'static str = "stream_map";
    value_kind!();
    const GAPPED: bool = true;
    fn make(buf: &'s Buf) -> Self {
        let n = buf.n();
        let f: SMapFn = ident_pair;
        chumsky::input::Stream::from_iter(buf.spanned.clone()).map(SimpleSpan::from(10 * n..10 * n), f)
    }
    fn sp(s: &SimpleSpan) -> Sp {
        simple(s)
    }
    fn off(buf: &Buf, p: usize, q: usize) -> Sp {
        gapped_off(buf, p, q)
    }
}

/// `IterInput` over a cloneable iterator of `(token, span)` pairs, gapped spans.  Implements only
/// `Input` (not `ValueInput`): leaf basis restricted to just / end / empty / custom.
pub type IterK<'s> = chumsky::input::IterInput<std::iter::Cloned<std::slice::Iter<'s, (char, SimpleSpan)>>, SimpleSpan>;
impl<'s> Kind<'s> for IterK<'s> {
    const NAME: &'static str = "iter";
    const VALUE: bool = false;
    const GAPPED: bool = true;
    fn make(buf: &'s Buf) -> Self {
        let n = buf.n();
        chumsky::input::IterInput::new(buf.spanned.iter().cloned(), SimpleSpan::from(10 * n..10 * n))
    }
    fn sp(s: &SimpleSpan) -> Sp {
        simple(s)
    }
    fn off(buf: &Buf, p: usize, q: usize) -> Sp {
        gapped_off(buf, p, q)
    }
}

/// `&[char; N]`
pub struct ArrK<'s, const N: usize>(std::marker::PhantomData<&'s ()>);
macro_rules! arr_kind {
    ($($n:literal),*) => {$(
        impl<'s> Kind<'s> for &'s [char; $n] {
            const NAME: &'static str = concat!("array", stringify!($n));
            value_kind!();
            fn make(buf: &'s Buf) -> Self {
                (&buf.chars[..]).try_into().expect("array kind used with an input of another length")
            }
            fn sp(s: &SimpleSpan) -> Sp {
                simple(s)
            }
            fn off(_buf: &Buf, p: usize, q: usize) -> Sp {
                (p, q)
            }
        }
    )*};
}
arr_kind!(0, 1, 2, 3, 4, 5, 6);

pub type BoxedStreamK<'s> = chumsky::input::BoxedStream<'s, char>;
impl<'s> Kind<'s> for BoxedStreamK<'s> {
    const NAME: &'static str = "boxed_stream";
    value_kind!();
    fn make(buf: &'s Buf) -> Self {
        chumsky::input::Stream::from_iter(buf.chars.iter().copied()).boxed()
    }
    fn sp(s: &SimpleSpan) -> Sp {
        simple(s)
    }
    fn off(_buf: &Buf, p: usize, q: usize) -> Sp {
        (p, q)
    }
}

pub type ExactStreamK<'s> = chumsky::input::BoxedExactSizeStream<'s, char>;
impl<'s> Kind<'s> for ExactStreamK<'s> {
    const NAME: &'static str = "exact_size_boxed_stream";
    value_kind!();
    fn make(buf: &'s Buf) -> Self {
        chumsky::input::Stream::from_iter(buf.chars.iter().copied()).exact_size_boxed()
    }
    fn sp(s: &SimpleSpan) -> Sp {
        simple(s)
    }
    fn off(_buf: &Buf, p: usize, q: usize) -> Sp {
        (p, q)
    }
}

/// `Stream` over an iterator that logs every pull (index of the item handed out).
pub struct CountingIter {
    chars: std::rc::Rc<Vec<char>>,
    i: usize,
}
thread_local! {
    pub static PULLS: std::cell::RefCell<Vec<usize>> = std::cell::RefCell::new(Vec::new());
}
impl Iterator for CountingIter {
    type Item = char;
    fn next(&mut self) -> Option<char> {
        let c = self.chars.get(self.i).copied();
        if c.is_some() {
            PULLS.with(|p| p.borrow_mut().push(self.i));
            self.i += 1;
        }
        c
    }
}
pub type CountStreamK = chumsky::input::Stream<CountingIter>;
impl<'s> Kind<'s> for CountStreamK {
    const NAME: &'static str = "counting_stream";
    value_kind!();
    fn make(buf: &'s Buf) -> Self {
        PULLS.with(|p| p.borrow_mut().clear());
        chumsky::input::Stream::from_iter(CountingIter { chars: std::rc::Rc::new(buf.chars.clone()), i: 0 })
    }
    fn sp(s: &SimpleSpan) -> Sp {
        simple(s)
    }
    fn off(_buf: &Buf, p: usize, q: usize) -> Sp {
        (p, q)
    }
}

/// `&str` wrapped by `with_context`: spans carry the context 77.
pub type CtxSpan = SimpleSpan<usize, u32>;
pub type WithCtxK<'s> = chumsky::input::WithContext<CtxSpan, &'s str>;
impl<'s> Kind<'s> for WithCtxK<'s> {
    const NAME: &'static str = "with_context";
    value_kind!();
    fn make(buf: &'s Buf) -> Self {
        buf.text.as_str().with_context::<CtxSpan>(77)
    }
    fn sp(s: &CtxSpan) -> Sp {
        assert_eq!(s.context, 77, "span lost the context given to with_context");
        (s.start, s.end)
    }
    fn off(buf: &Buf, p: usize, q: usize) -> Sp {
        (buf.byte_off[p], buf.byte_off[q])
    }
}

/// `&[char]` wrapped by `map_span`: offsets shifted by 1000, context 5.
pub type SpanFn = fn(SimpleSpan) -> CtxSpan;
pub type MapSpanK<'s> = chumsky::input::MappedSpan<CtxSpan, &'s [char], SpanFn>;
fn shift_span(s: SimpleSpan) -> CtxSpan {
    SimpleSpan { start: s.start + 1000, end: s.end + 1000, context: 5 }
}
impl<'s> Kind<'s> for MapSpanK<'s> {
    const NAME: &'static str = "map_span";
    value_kind!();
    fn make(buf: &'s Buf) -> Self {
        let f: SpanFn = shift_span;
        buf.chars.as_slice().map_span(f)
    }
    fn sp(s: &CtxSpan) -> Sp {
        assert_eq!(s.context, 5, "span lost the context produced by map_span's function");
        (s.start, s.end)
    }
    fn off(_buf: &Buf, p: usize, q: usize) -> Sp {
        (p + 1000, q + 1000)
    }
}

// -----------------------------------------------------------------------------------------------
// Error types

pub trait ErrK<'s, I: Kind<'s>>: chumsky::error::Error<'s, I> + LabelError<'s, I, &'static str> + Clone + 's
where
    I::Span: Clone + 's,
{
    const NAME: &'static str;
    const RICH: bool = false;
    fn user(span: I::Span, msg: String) -> Self;
    /// span-preserving `map_err` function that leaves a recognisable mark where the type allows it
    fn tag(self, id: u32) -> Self;
    fn norm(&self) -> RErr;
}

impl<'s, I: Kind<'s>> ErrK<'s, I> for Rich<'s, char, I::Span>
where
    I::Span: Clone + 's,
{
    const NAME: &'static str = "Rich";
    const RICH: bool = true;
    fn user(span: I::Span, msg: String) -> Self {
        Rich::custom(span, msg)
    }
    fn tag(mut self, id: u32) -> Self {
        let sp = self.span().clone();
        <Self as LabelError<'s, I, String>>::in_context(&mut self, format!("M{}", id), sp);
        self
    }
    fn norm(&self) -> RErr {
        let pat = |p: &RichPattern<'s, char>| -> Exp {
            match p {
                RichPattern::Token(t) => Exp::Tok(**t),
                RichPattern::Label(l) => Exp::Label(l.to_string()),
                RichPattern::Identifier(i) => Exp::Other(format!("ident:{}", i)),
                RichPattern::Any => Exp::Any,
                RichPattern::SomethingElse => Exp::SomethingElse,
                RichPattern::EndOfInput => Exp::EndOfInput,
                #[allow(unreachable_patterns)]
                _ => Exp::Other("?".into()),
            }
        };
        let (exp, found, custom) = match self.reason() {
            RichReason::ExpectedFound { expected, found } => {
                (expected.iter().map(pat).collect::<BTreeSet<_>>(), found.as_ref().map(|f| **f), None)
            }
            RichReason::Custom(m) => (BTreeSet::new(), None, Some(m.clone())),
        };
        RErr {
            span: I::sp(self.span()),
            exp: Some(exp),
            found: Some(found),
            custom,
            ctxs: self
                .contexts()
                .map(|(l, s)| {
                    (
                        match l {
                            RichPattern::Label(l) => l.to_string(),
                            other => format!("{:?}", other),
                        },
                        I::sp(s),
                    )
                })
                .collect(),
        }
    }
}

impl<'s, I: Kind<'s>> ErrK<'s, I> for Simple<'s, char, I::Span>
where
    I::Span: Clone + 's,
{
    const NAME: &'static str = "Simple";
    fn user(span: I::Span, _msg: String) -> Self {
        Simple::new(None, span)
    }
    fn tag(self, _id: u32) -> Self {
        self
    }
    fn norm(&self) -> RErr {
        RErr { span: I::sp(self.span()), exp: None, found: Some(self.found().copied()), custom: None, ctxs: vec![] }
    }
}

impl<'s, I: Kind<'s>> ErrK<'s, I> for Cheap<I::Span>
where
    I::Span: Clone + 's,
{
    const NAME: &'static str = "Cheap";
    fn user(span: I::Span, _msg: String) -> Self {
        Cheap::new(span)
    }
    fn tag(self, _id: u32) -> Self {
        self
    }
    fn norm(&self) -> RErr {
        RErr { span: I::sp(self.span()), exp: None, found: None, custom: None, ctxs: vec![] }
    }
}

impl<'s, I: Kind<'s>> ErrK<'s, I> for EmptyErr
where
    I::Span: Clone + 's,
{
    const NAME: &'static str = "EmptyErr";
    fn user(_span: I::Span, _msg: String) -> Self {
        EmptyErr::default()
    }
    fn tag(self, _id: u32) -> Self {
        self
    }
    fn norm(&self) -> RErr {
        RErr { span: (0, 0), exp: None, found: None, custom: None, ctxs: vec![] }
    }
}

// -----------------------------------------------------------------------------------------------
// Builder

#[derive(Clone, Copy, Debug)]
pub struct Opts {
    /// wrap every node in `map_with` capturing its id and span
    pub wrap: bool,
    /// ... and its slice (C07)
    pub slice: bool,
    /// ... and an observation of the inspector state and the context at the node's end (C15, C18)
    pub obs: bool,
    /// every node's output is paired with a fresh drop-tracked value created by a `map` (C19)
    pub track: bool,
    /// every repetition / separated list is driven through an explicit `.clone()` of the iterable parser
    pub clone_iter: bool,
}

impl Default for Opts {
    fn default() -> Self {
        Opts { wrap: true, slice: false, obs: false, track: false, clone_iter: false }
    }
}

pub struct Env<'s, I: Kind<'s>, ER: ErrK<'s, I>>
where
    I::Span: Clone + 's,
{
    pub recs: Vec<(u8, BP<'s, I, ER>)>,
    pub o: Opts,
}

pub fn build<'s, I: Kind<'s>, ER: ErrK<'s, I>>(g: &G, o: Opts) -> BP<'s, I, ER>
where
    I::Span: Clone + 's,
{
    let mut env = Env { recs: vec![], o };
    node(g, &mut env)
}

fn pair2(a: Val, b: Val) -> Val {
    Val::pair(a, b)
}

/// Build the iterable parser for a `Rep`/`Sep`/`CtxRep` node from the given item parser, bind it to
/// `$it` and evaluate `$body` (once per way of supplying the bounds, since the types differ).
macro_rules! with_iter {
    // `clone_iter`: the iterable parser is driven through an explicit `.clone()` of itself
    (@go $env:expr, $it:ident, $body:expr) => {{
        if $env.o.clone_iter {
            let $it = $it.clone();
            $body
        } else {
            $body
        }
    }};
    ($g:expr, $env:expr, $item:expr, $it:ident => $body:expr) => {{
        let g: &G = $g;
        let lo = g.p.lo as usize;
        let hi = g.p.hi.map(|h| h as usize);
        match g.op {
            Op::Rep => {
                let rep = $item.repeated();
                match g.p.via {
                    Via::Static => {
                        let rep = if lo > 0 { rep.at_least(lo) } else { rep };
                        let $it = match hi {
                            Some(h) => rep.at_most(h),
                            None => rep,
                        };
                        with_iter!(@go $env, $it, $body)
                    }
                    Via::Exactly => {
                        let $it = rep.exactly(lo);
                        with_iter!(@go $env, $it, $body)
                    }
                    Via::Configure => {
                        let $it = rep.configure(move |cfg, _ctx: &Val| {
                            let cfg = cfg.at_least(lo);
                            match hi {
                                Some(h) => cfg.at_most(h),
                                None => cfg,
                            }
                        });
                        with_iter!(@go $env, $it, $body)
                    }
                    Via::ConfigureExactly => {
                        let $it = rep.configure(move |cfg, _ctx: &Val| cfg.exactly(lo));
                        with_iter!(@go $env, $it, $body)
                    }
                    Via::MixedLo => {
                        let rep = match hi {
                            Some(h) => rep.at_most(h),
                            None => rep,
                        };
                        let $it = rep.configure(move |cfg, _ctx: &Val| cfg.at_least(lo));
                        with_iter!(@go $env, $it, $body)
                    }
                    Via::MixedHi => {
                        let h = hi.expect("MixedHi needs an upper bound");
                        let $it = rep.at_least(lo).configure(move |cfg, _ctx: &Val| cfg.at_most(h));
                        with_iter!(@go $env, $it, $body)
                    }
                    Via::Override => {
                        let h = hi.expect("Override needs an upper bound");
                        let $it = rep.at_least(lo + 1).at_most(h.saturating_sub(1)).configure(move |cfg, _ctx: &Val| cfg.at_least(lo).at_most(h));
                        with_iter!(@go $env, $it, $body)
                    }
                    Via::OverrideExactly => {
                        let $it = rep.at_most(1).configure(move |cfg, _ctx: &Val| cfg.exactly(lo));
                        with_iter!(@go $env, $it, $body)
                    }
                    Via::ConfigureNoop => {
                        let rep = rep.at_least(lo);
                        let rep = match hi {
                            Some(h) => rep.at_most(h),
                            None => rep,
                        };
                        let $it = rep.configure(move |cfg, _ctx: &Val| cfg);
                        with_iter!(@go $env, $it, $body)
                    }
                }
            }
            Op::CtxRep if g.p.ok => {
                let rep = $item.repeated();
                // `lead`: contradictory static bounds that the configuration must replace, not intersect with
                let rep = if g.p.lead { rep.at_least(3).at_most(1) } else { rep };
                // `trail`: the context gives a range (at_least(n/2).at_most(n)) instead of an exact count
                let ranged = g.p.trail;
                let $it = rep.configure(move |cfg, ctx: &Val| {
                    let n = ctx.flat_string().chars().count();
                    if ranged {
                        cfg.at_least(n / 2).at_most(n)
                    } else {
                        cfg.exactly(n)
                    }
                });
                with_iter!(@go $env, $it, $body)
            }
            Op::CtxRep => {
                let qid = g.id;
                let $it = $item.repeated().try_configure(move |cfg, ctx: &Val, span| {
                    let n = ctx.flat_string().chars().count();
                    if n == 2 {
                        Err(ER::user(span, format!("Q{}", qid)))
                    } else {
                        Ok(cfg.exactly(n))
                    }
                });
                with_iter!(@go $env, $it, $body)
            }
            Op::Sep => {
                let sep = node(&g.kids[1], $env);
                let s = $item.separated_by(sep);
                let s = match g.p.via {
                    Via::Exactly | Via::ConfigureExactly => s.exactly(lo),
                    _ => {
                        let s = if lo > 0 { s.at_least(lo) } else { s };
                        match hi {
                            Some(h) => s.at_most(h),
                            None => s,
                        }
                    }
                };
                let s = if g.p.lead { s.allow_leading() } else { s };
                let $it = if g.p.trail { s.allow_trailing() } else { s };
                with_iter!(@go $env, $it, $body)
            }
            other => panic!("with_iter on {:?}", other),
        }
    }};
}

fn node<'s, I: Kind<'s>, ER: ErrK<'s, I>>(g: &G, env: &mut Env<'s, I, ER>) -> BP<'s, I, ER>
where
    I::Span: Clone + 's,
{
    let id = g.id;
    let inner = raw(g, env);
    let inner = if env.o.track { inner.map(move |v| Val::pair(Val::Tr(crate::track::Tracked::new(id)), v)).boxed() } else { inner };
    let inner = if env.o.wrap && env.o.obs {
        inner
            .map_with(move |v, e| {
                let ctx: Val = e.ctx().clone();
                let st: &mut Insp = e.state();
                Val::pair(Val::Obs { id, n: st.n, h: st.h, ctx: Box::new(ctx) }, v)
            })
            .boxed()
    } else {
        inner
    };
    if env.o.wrap && env.o.slice {
        I::capture::<ER>(id, inner)
    } else if env.o.wrap {
        inner
            .map_with(move |v, e| {
                let s = I::sp(&e.span());
                Val::node(id, s.0, s.1, v)
            })
            .boxed()
    } else {
        inner
    }
}

fn raw<'s, I: Kind<'s>, ER: ErrK<'s, I>>(g: &G, env: &mut Env<'s, I, ER>) -> BP<'s, I, ER>
where
    I::Span: Clone + 's,
{
    use Op::*;
    let id = g.id;
    let cs: Vec<char> = g.p.cs.clone();
    let pred = g.p.pred;
    macro_rules! kid {
        ($i:expr) => {
            node(&g.kids[$i], env)
        };
    }
    match g.op {
        Just => just(cs[0]).map(Val::Tok).boxed(),
        JustSeq => {
            let s: String = cs.iter().collect();
            let s2 = s.clone();
            match g.p.n {
                1 => just(intern(&s)).map(move |_| Val::Str(s2.clone())).boxed(),
                2 => just(cs.clone()).map(move |_| Val::Str(s2.clone())).boxed(),
                3 if cs.len() == 2 => just([cs[0], cs[1]]).map(move |_| Val::Str(s2.clone())).boxed(),
                _ => just(s).map(Val::Str).boxed(),
            }
        }
        Any | OneOf | NoneOf | Select => I::value_leaf::<ER>(g, env.o.wrap && env.o.obs),
        End => end().to(Val::Unit).boxed(),
        Empty => empty().to(Val::Unit).boxed(),
        Custom if g.p.lo == 1 && I::VALUE => I::custom_skip_of::<ER>(g),
        Custom => {
            let want = g.p.n as usize;
            let ok = g.p.ok;
            let twice = g.p.lo == 3;
            custom(move |inp: &mut chumsky::input::InputRef<'s, '_, I, Ex<ER>>| {
                let before = inp.cursor();
                if twice {
                    // consume, rewind by hand, consume again: the manual save/rewind API inside a custom parser
                    let cp = inp.save();
                    for _ in 0..want {
                        if inp.next_maybe().is_none() {
                            break;
                        }
                    }
                    inp.rewind(cp);
                }
                let mut s = String::new();
                for _ in 0..want {
                    match inp.next_maybe() {
                        Some(c) => s.push(*c),
                        None => return Err(ER::user(inp.span_since(&before), format!("C{}:short", id))),
                    }
                }
                if ok {
                    Ok(Val::Str(s))
                } else {
                    Err(ER::user(inp.span_since(&before), format!("C{}", id)))
                }
            })
            .boxed()
        }
        Probe => custom(move |inp: &mut chumsky::input::InputRef<'s, '_, I, Ex<ER>>| {
            let c = inp.cursor();
            let (off, off_end) = I::sp(&inp.span_since(&c));
            let ctx = inp.ctx().clone();
            let st: &mut Insp = inp.state();
            let (n, h) = (st.n, st.h);
            trace_push(RProbe { id, off, off_end, n, h, ctx: ctx.clone() });
            Ok(Val::Obs { id, n, h, ctx: Box::new(ctx) })
        })
        .boxed(),
        Then => kid!(0).then(kid!(1)).map(|(a, b)| pair2(a, b)).boxed(),
        IgnoreThen => kid!(0).ignore_then(kid!(1)).boxed(),
        ThenIgnore => kid!(0).then_ignore(kid!(1)).boxed(),
        Group => match g.kids.len() {
            2 => group((kid!(0), kid!(1))).map(|(a, b)| Val::Seq(vec![a, b])).boxed(),
            3 => group((kid!(0), kid!(1), kid!(2))).map(|(a, b, c)| Val::Seq(vec![a, b, c])).boxed(),
            4 => group((kid!(0), kid!(1), kid!(2), kid!(3))).map(|(a, b, c, d)| Val::Seq(vec![a, b, c, d])).boxed(),
            n => panic!("group arity {}", n),
        },
        GroupArr => match g.kids.len() {
            2 => group([kid!(0), kid!(1)]).map(|a: [Val; 2]| Val::Seq(a.into_iter().collect())).boxed(),
            3 => group([kid!(0), kid!(1), kid!(2)]).map(|a: [Val; 3]| Val::Seq(a.into_iter().collect())).boxed(),
            n => panic!("group array arity {}", n),
        },
        Or => kid!(0).or(kid!(1)).boxed(),
        Choice => {
            let v: Vec<BP<'s, I, ER>> = g.kids.iter().map(|k| node(k, env)).collect();
            choice(v).boxed()
        }
        ChoiceTup => match g.kids.len() {
            2 => choice((kid!(0), kid!(1))).boxed(),
            3 => choice((kid!(0), kid!(1), kid!(2))).boxed(),
            4 => choice((kid!(0), kid!(1), kid!(2), kid!(3))).boxed(),
            n => panic!("choice tuple arity {}", n),
        },
        ChoiceArr => match g.kids.len() {
            2 => choice([kid!(0), kid!(1)]).boxed(),
            3 => choice([kid!(0), kid!(1), kid!(2)]).boxed(),
            n => panic!("choice array arity {}", n),
        },
        OrNot => kid!(0).or_not().map(|o| Val::Opt(o.map(Box::new))).boxed(),
        Not => I::not_of::<ER>(kid!(0)),
        AndIs => kid!(0).and_is(kid!(1)).boxed(),
        Rewind => kid!(0).rewind().boxed(),
        Delim => kid!(0).delimited_by(kid!(1), kid!(2)).boxed(),
        Padded => kid!(0).padded_by(kid!(1)).boxed(),
        Map => kid!(0).map(move |v| Val::Tag(id, Box::new(v))).boxed(),
        To => kid!(0).to(Val::Num(id as i64)).boxed(),
        Ignored => kid!(0).ignored().to(Val::Unit).boxed(),
        Filter => kid!(0).filter(move |v: &Val| pred.eval(&v.flat_string())).boxed(),
        TryMap => kid!(0)
            .try_map(move |v: Val, span| if pred.eval(&v.flat_string()) { Ok(v) } else { Err(ER::user(span, format!("T{}", id))) })
            .boxed(),
        TryMapWith => kid!(0)
            .try_map_with(move |v: Val, e| if pred.eval(&v.flat_string()) { Ok(v) } else { Err(ER::user(e.span(), format!("T{}", id))) })
            .boxed(),
        ToSlice => {
            let k = kid!(0);
            match I::slice_of::<ER>(k.clone()) {
                Some(p) => p,
                None => k
                    .to_span()
                    .map(|s| {
                        let s = I::sp(&s);
                        Val::Span(s.0, s.1)
                    })
                    .boxed(),
            }
        }
        ToSpan => kid!(0)
            .to_span()
            .map(|s| {
                let s = I::sp(&s);
                Val::Span(s.0, s.1)
            })
            .boxed(),
        Rep | Sep | CtxRep => {
            let flav = if g.op == CtxRep && !matches!(g.p.flav, Flav::Unit | Flav::Count) { Flav::Vec } else { g.p.flav };
            let item = kid!(0);
            match flav {
                Flav::Unit => with_iter!(g, env, item, it => it.to(Val::Unit).boxed()),
                Flav::Vec => with_iter!(g, env, item, it => it.collect::<Vec<Val>>().map(Val::Seq).boxed()),
                Flav::Str => {
                    let item = item.map(|v: Val| v.first_char());
                    with_iter!(g, env, item, it => it.collect::<String>().map(Val::Str).boxed())
                }
                Flav::Count => with_iter!(g, env, item, it => it.collect::<usize>().map(|n| Val::Num(n as i64)).boxed()),
                Flav::CountM => with_iter!(g, env, item, it => it.count().map(|n| Val::Num(n as i64)).boxed()),
                Flav::Enum => with_iter!(g, env, item, it => it
                    .enumerate()
                    .collect::<Vec<(usize, Val)>>()
                    .map(|v| Val::Seq(v.into_iter().map(|(i, x)| Val::pair(Val::Num(i as i64), x)).collect()))
                    .boxed()),
                Flav::Arr2 => with_iter!(g, env, item, it => it.collect_exactly::<[Val; 2]>().map(|a| Val::Seq(a.into_iter().collect())).boxed()),
                Flav::Arr3 => with_iter!(g, env, item, it => it.collect_exactly::<[Val; 3]>().map(|a| Val::Seq(a.into_iter().collect())).boxed()),
            }
        }
        Foldl => {
            let init = kid!(0);
            let itg = &g.kids[1];
            let item = node(&itg.kids[0], env);
            if g.p.ok {
                let obs = env.o.wrap && env.o.obs;
                with_iter!(itg, env, item, it => init
                    .foldl_with(it, move |acc: Val, x: Val, e| {
                        let s = I::sp(&e.span());
                        let acc = if obs {
                            let ctx: Val = e.ctx().clone();
                            let st: &mut Insp = e.state();
                            Val::pair(Val::Obs { id, n: st.n, h: st.h, ctx: Box::new(ctx) }, acc)
                        } else {
                            acc
                        };
                        Val::FoldW { lo: s.0, lo2: s.0, hi: s.1, acc: Box::new(acc), x: Box::new(x) }
                    })
                    .boxed())
            } else {
                with_iter!(itg, env, item, it => init.foldl(it, pair2).boxed())
            }
        }
        Foldr => {
            let itg = &g.kids[0];
            let item = node(&itg.kids[0], env);
            let last = kid!(1);
            if g.p.ok {
                let obs = env.o.wrap && env.o.obs;
                with_iter!(itg, env, item, it => it
                    .foldr_with(last, move |x: Val, acc: Val, e| {
                        let s = I::sp(&e.span());
                        let acc = if obs {
                            let ctx: Val = e.ctx().clone();
                            let st: &mut Insp = e.state();
                            Val::pair(Val::Obs { id, n: st.n, h: st.h, ctx: Box::new(ctx) }, acc)
                        } else {
                            acc
                        };
                        Val::FoldW { lo: s.0, lo2: s.0, hi: s.1, acc: Box::new(acc), x: Box::new(x) }
                    })
                    .boxed())
            } else {
                with_iter!(itg, env, item, it => it.foldr(last, pair2).boxed())
            }
        }
        Validate => {
            let n = g.p.n;
            kid!(0)
                .validate(move |v, e, emitter| {
                    for i in 0..n {
                        emitter.emit(ER::user(e.span(), format!("E{}.{}", id, i)));
                    }
                    v
                })
                .boxed()
        }
        RecVia => kid!(0).recover_with(via_parser(kid!(1))).boxed(),
        RecNested => kid!(0).recover_with(via_parser(I::nested_of::<ER>(id))).boxed(),
        RecSkipUntil => kid!(0)
            .recover_with(skip_until(kid!(1).ignored(), kid!(2).ignored(), move || Val::Fb(id)))
            .boxed(),
        RecSkipRetry => kid!(0).recover_with(skip_then_retry_until(kid!(1).ignored(), kid!(2).ignored())).boxed(),
        Memo => kid!(0).memoized().boxed(),
        Label => {
            let l = kid!(0).labelled(LABELS[g.p.n as usize % 4]);
            if g.p.ok {
                l.as_context().boxed()
            } else {
                l.boxed()
            }
        }
        MapErr => kid!(0).map_err(move |e: ER| e.tag(id)).boxed(),
        WithCtx => {
            let s: String = cs.iter().collect();
            kid!(0).with_ctx(Val::Str(s)).boxed()
        }
        ThenWithCtx => kid!(0).then_with_ctx(kid!(1)).map(|(a, b)| pair2(a, b)).boxed(),
        IgnoreWithCtx => kid!(0).ignore_with_ctx(kid!(1)).boxed(),
        MapCtx => {
            let s: String = cs.iter().collect();
            let k = kid!(0);
            map_ctx::<_, Val, I, Ex<ER>, Ex<ER>, _>(move |c: &Val| Val::pair(c.clone(), Val::Str(s.clone())), k).boxed()
        }
        CtxJust => just(String::new()).configure(|cfg, ctx: &Val| cfg.seq(ctx.flat_string())).map(Val::Str).boxed(),
        WithState => kid!(0).with_state(Insp::fresh(g.p.n)).boxed(),
        Rec => {
            let n = g.p.n;
            if g.p.ok {
                let depth = env.recs.len();
                let o = env.o;
                // `recursive` hands the handle to a closure; the builder needs the environment inside it
                let mut recs = std::mem::take(&mut env.recs);
                let body_g = &g.kids[0];
                let p = recursive(|r| {
                    recs.push((n, r.boxed()));
                    let mut inner_env = Env { recs: std::mem::take(&mut recs), o };
                    let b = node(body_g, &mut inner_env);
                    recs = inner_env.recs;
                    b
                });
                recs.truncate(depth);
                env.recs = recs;
                p.boxed()
            } else {
                let mut r = Recursive::declare();
                env.recs.push((n, r.clone().boxed()));
                let body = node(&g.kids[0], env);
                env.recs.pop();
                r.define(body);
                r.boxed()
            }
        }
        ExtWrap => chumsky::extension::v1::Ext(WrapExt(kid!(0))).boxed(),
        NestedIn => {
            let a = kid!(0);
            let b = kid!(1);
            I::nested_in_of::<ER>(a, b)
        }
        Ref => {
            let n = g.p.n;
            env.recs.iter().rev().find(|(m, _)| *m == n).map(|(_, p)| p.clone()).expect("unbound Ref")
        }
    }
}

/// Extension parser with a separate check path.
pub struct WrapExt<P>(pub P);

impl<'s, I: Kind<'s>, ER: ErrK<'s, I>, P: Parser<'s, I, Val, Ex<ER>>> chumsky::extension::v1::ExtParser<'s, I, Val, Ex<ER>> for WrapExt<P>
where
    I::Span: Clone + 's,
{
    fn parse(&self, inp: &mut chumsky::input::InputRef<'s, '_, I, Ex<ER>>) -> Result<Val, ER> {
        inp.parse(&self.0)
    }
    fn check(&self, inp: &mut chumsky::input::InputRef<'s, '_, I, Ex<ER>>) -> Result<(), ER> {
        inp.check(&self.0)
    }
}

// -----------------------------------------------------------------------------------------------
// Running

#[derive(Clone, Debug)]
pub struct RunOut {
    pub has_output: bool,
    pub out: Option<Val>,
    pub errs: Vec<RErr>,
    pub st: (u64, u64),
    pub steps: u64,
    pub saves: u64,
    pub rewinds: u64,
    pub trace: Vec<RProbe>,
}

/// Result-contract assertions of C03(iv) that hold for every `ParseResult` whatever the grammar.
/// Returns a description of the first inconsistency.
pub fn result_contract<T: Clone, E: Clone>(r: &chumsky::ParseResult<T, E>) -> Option<String> {
    let has_out = r.has_output();
    let has_err = r.has_errors();
    let n_err = r.errors().len();
    if has_err != (n_err > 0) {
        return Some(format!("has_errors()={} but errors().len()={}", has_err, n_err));
    }
    if !has_out && n_err == 0 {
        return Some("no output and no errors".into());
    }
    if has_out != r.output().is_some() {
        return Some("has_output() disagrees with output()".into());
    }
    let (o, e) = r.clone().into_output_errors();
    if o.is_some() != has_out || e.len() != n_err {
        return Some("into_output_errors disagrees with accessors".into());
    }
    match r.clone().into_result() {
        Ok(_) => {
            if has_err {
                return Some("into_result() is Ok although there are errors".into());
            }
            if !has_out {
                return Some("into_result() is Ok without output".into());
            }
        }
        Err(es) => {
            if !has_err {
                return Some("into_result() is Err although error-free".into());
            }
            if es.len() != n_err {
                return Some("into_result() error count differs".into());
            }
        }
    }
    if r.clone().into_errors().len() != n_err {
        return Some("into_errors() count differs".into());
    }
    if r.clone().into_output().is_some() != has_out {
        return Some("into_output() disagrees".into());
    }
    None
}

thread_local! {
    pub static CONTRACT_FAIL: std::cell::RefCell<Option<String>> = std::cell::RefCell::new(None);
    pub static RESULTS_SEEN: std::cell::Cell<u64> = std::cell::Cell::new(0);
}

fn note_contract<T: Clone, E: Clone>(r: &chumsky::ParseResult<T, E>) {
    RESULTS_SEEN.with(|c| c.set(c.get() + 1));
    if let Some(m) = result_contract(r) {
        CONTRACT_FAIL.with(|c| {
            let mut c = c.borrow_mut();
            if c.is_none() {
                *c = Some(m);
            }
        });
    }
}

pub fn run_parse<'s, I: Kind<'s>, ER: ErrK<'s, I>, P: Parser<'s, I, Val, Ex<ER>>>(p: &P, buf: &'s Buf, seed: u8, budget: u64) -> RunOut
where
    I::Span: Clone + 's,
{
    let mut st = Insp::with_budget(seed, budget);
    crate::obs::trace_start();
    let r = p.parse_with_state(I::make(buf), &mut st);
    let trace = crate::obs::trace_take();
    note_contract(&r);
    RunOut {
        has_output: r.has_output(),
        errs: r.errors().map(|e| e.norm()).collect(),
        out: r.into_output(),
        st: (st.n, st.h),
        steps: st.steps.get(),
        saves: st.saves.get(),
        rewinds: st.rewinds,
        trace,
    }
}

pub fn run_check<'s, I: Kind<'s>, ER: ErrK<'s, I>, P: Parser<'s, I, Val, Ex<ER>>>(p: &P, buf: &'s Buf, seed: u8, budget: u64) -> RunOut
where
    I::Span: Clone + 's,
{
    let mut st = Insp::with_budget(seed, budget);
    crate::obs::trace_start();
    let r = p.check_with_state(I::make(buf), &mut st);
    let trace = crate::obs::trace_take();
    note_contract(&r);
    RunOut {
        has_output: r.has_output(),
        errs: r.errors().map(|e| e.norm()).collect(),
        out: None,
        st: (st.n, st.h),
        steps: st.steps.get(),
        saves: st.saves.get(),
        rewinds: st.rewinds,
        trace,
    }
}

/// Run `f`, converting a panic into `Err(message)`; a step-budget unwind becomes `Err("STEP_BUDGET")`.
pub fn guarded<T>(f: impl FnOnce() -> T) -> Result<T, String> {
    match std::panic::catch_unwind(std::panic::AssertUnwindSafe(f)) {
        Ok(v) => Ok(v),
        Err(p) => {
            crate::obs::trace_take();
            if p.is::<crate::obs::StepBudgetExceeded>() {
                Err("STEP_BUDGET".into())
            } else if let Some(s) = p.downcast_ref::<String>() {
                Err(format!("panic: {}", s))
            } else if let Some(s) = p.downcast_ref::<&str>() {
                Err(format!("panic: {}", s))
            } else {
                Err("panic: <non-string payload>".into())
            }
        }
    }
}
