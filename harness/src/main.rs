#![allow(dead_code)]
#![allow(clippy::type_complexity)]
mod classes;
mod cmp;
mod drv;
mod ev;
mod gram;
mod mk;
mod model;
mod obs;
mod par;
mod prattk;
mod proc;
mod props;
mod rng;
mod san;
mod track;
mod val;

use std::time::Instant;

fn arg(args: &[String], name: &str) -> Option<String> {
    args.iter().position(|a| a == name).and_then(|i| args.get(i + 1).cloned())
}

fn main() {
    let args: Vec<String> = std::env::args().collect();
    // caught panics are verdict material, not noise
    if std::env::var("CVH_PANICS").is_err() {
        std::panic::set_hook(Box::new(|_| {}));
    }
    match args.get(1).map(|s| s.as_str()) {
        Some("run") => {
            let prop = args.get(2).expect("property id").clone();
            let tier = arg(&args, "--tier").or_else(|| std::env::var("VERIF_TIER").ok()).unwrap_or_else(|| "quick".into());
            let seed = arg(&args, "--seed")
                .or_else(|| std::env::var("VERIF_SEED").ok())
                .and_then(|s| s.parse::<u64>().ok())
                .unwrap_or(0);
            let root = arg(&args, "--root").unwrap_or_else(|| "/verif".into());
            let threads = arg(&args, "--threads")
                .and_then(|s| s.parse().ok())
                .unwrap_or_else(|| std::thread::available_parallelism().map(|n| n.get()).unwrap_or(8));
            let cx = ev::RunCtx {
                prop: prop.clone(),
                tier,
                seed,
                threads,
                evidence_path: arg(&args, "--evidence").unwrap_or_else(|| format!("{}/evidence/{}.json", root, prop)),
                replay_dir: format!("{}/replays", root),
                known_path: format!("{}/known_findings.jsonl", root),
                start: Instant::now(),
            };
            let code = match prop.as_str() {
                "C01" => props::c01::run(&cx),
                "C02" => props::c02::run(&cx),
                "C03" => props::c03::run(&cx),
                "C04" => props::c04::run(&cx),
                "C05" => props::c05::run(&cx),
                "C06" => props::c06::run(&cx),
                "C07" => props::c07::run(&cx),
                "C08" => props::c08::run(&cx),
                "C09" => props::c09::run(&cx),
                "C10" => props::c10::run(&cx),
                "C11" => props::c11::run(&cx),
                "C12" => props::c12::run(&cx),
                "C13" => props::c13::run(&cx),
                "C14" => props::c14::run(&cx),
                "C15" => props::c15::run(&cx),
                "C16" => props::c16::run(&cx),
                "C17" => props::c17::run(&cx),
                "C18" => props::c18::run(&cx),
                "C19" => props::c19::run(&cx),
                "C20" => props::c20::run(&cx),
                other => {
                    eprintln!("unknown property {}", other);
                    3
                }
            };
            std::process::exit(code);
        }
        Some("child") => {
            // work that may kill the process; see proc.rs
            let code = match args.get(2).map(|s| s.as_str()) {
                Some("c11-leftrec") => props::c11::child_leftrec(args[3].parse().unwrap_or(6)),
                Some("c12-depth") => props::c12::child_depth(&args[3..]),
                Some("c19") => props::c19::child_native(&args[3..]),
                Some("c20") => props::c20::child(&args[3..]),
                other => {
                    eprintln!("unknown child job {:?}", other);
                    3
                }
            };
            std::process::exit(code);
        }
        Some("job") => {
            // cvh job <name> <size> <seed> <shard> : in-process slice of a driver for the sanitizer builds
            let size: usize = args.get(3).and_then(|s| s.parse().ok()).unwrap_or(4);
            let seed: u64 = args.get(4).and_then(|s| s.parse().ok()).unwrap_or(0);
            let shard: usize = args.get(5).and_then(|s| s.parse().ok()).unwrap_or(0);
            let v = match args.get(2).map(|s| s.as_str()) {
                Some("c07") => props::c07::san_job(size, seed, shard),
                Some("c12") => props::c12::san_job(size, seed, shard),
                Some("c13") => props::c13::san_job(size, seed, shard),
                Some("c19") => props::c19::san_job(size, seed, shard),
                Some("c20") => props::c20::san_job(size, seed, shard),
                other => {
                    eprintln!("unknown job {:?}", other);
                    std::process::exit(3);
                }
            };
            println!("JOB {}", v);
        }
        Some("case") => {
            // cvh case '<grammar json>' '<input>'  : print the model's and the parser's view of one case
            let g = gram::G::from_json(&serde_json::from_str(&args[2]).expect("grammar json")).expect("grammar").numbered();
            let input: Vec<char> = args.get(3).map(|s| s.chars().collect()).unwrap_or_default();
            props::show_case(&g, &input);
        }
        Some("replay") => {
            let v: serde_json::Value = serde_json::from_str(&std::fs::read_to_string(&args[2]).expect("replay file")).expect("json");
            println!("property {} — recorded: {}", v["property"], v["what"]);
            let case = &v["case"];
            if case.get("grammar").is_some() {
                let g = gram::G::from_json(&case["grammar"]).expect("grammar").numbered();
                let input: Vec<char> = case["input"].as_str().unwrap_or("").chars().collect();
                props::show_case(&g, &input);
            } else {
                println!("case: {}", serde_json::to_string_pretty(case).unwrap());
            }
        }
        _ => {
            eprintln!("usage: cvh run <Cxx> [--tier quick|thorough] [--seed N]");
            std::process::exit(3);
        }
    }
}
