//! E5 — drop / clone tracking value and token types with a per-thread live-instance ledger.
//!
//! The ledger stores ids only (no addresses), so it does not keep leaked objects reachable: LSan and
//! Miri still see a leak as a leak.  Every tracked object owns one heap byte so that the sanitizers
//! also see double frees and leaks of the objects themselves.

use std::cell::RefCell;

#[derive(Default, Debug, Clone)]
pub struct Ledger {
    /// per id: 1 = live, 2 = dropped
    pub state: Vec<u8>,
    pub live: i64,
    pub created: u64,
    pub cloned: u64,
    pub dropped: u64,
    pub double_drops: Vec<u32>,
}

thread_local! {
    pub static LEDGER: RefCell<Ledger> = RefCell::new(Ledger::default());
}

pub fn ledger() -> Ledger {
    LEDGER.with(|l| l.borrow().clone())
}
pub fn live() -> i64 {
    LEDGER.with(|l| l.borrow().live)
}
pub fn counts() -> (u64, u64, u64, usize) {
    LEDGER.with(|l| {
        let l = l.borrow();
        (l.created, l.cloned, l.dropped, l.double_drops.len())
    })
}
/// Forget everything (only when nothing tracked is alive that will be dropped later).
pub fn reset() {
    LEDGER.with(|l| *l.borrow_mut() = Ledger::default());
}
pub fn is_live(id: u32) -> bool {
    LEDGER.with(|l| l.borrow().state.get(id as usize).copied() == Some(1))
}

fn new_id(clone: bool) -> u32 {
    LEDGER.with(|l| {
        let mut l = l.borrow_mut();
        let id = l.state.len() as u32;
        l.state.push(1);
        l.live += 1;
        if clone {
            l.cloned += 1;
        } else {
            l.created += 1;
        }
        id
    })
}

/// Returns whether this was the first (legitimate) drop of the instance.
fn drop_id(id: u32) -> bool {
    // `try_with`: thread-local destructors may run after the ledger is gone
    LEDGER
        .try_with(|l| {
            let mut l = l.borrow_mut();
            match l.state.get(id as usize).copied() {
                Some(1) => {
                    l.state[id as usize] = 2;
                    l.live -= 1;
                    l.dropped += 1;
                    true
                }
                _ => {
                    l.double_drops.push(id);
                    false
                }
            }
        })
        .unwrap_or(true)
}

/// A value created by a user mapper.
pub struct Tracked {
    pub id: u32,
    /// the node whose mapper created it
    pub node: u32,
    /// freed by hand on the first drop only, so that a double drop is *recorded* by the ledger instead of
    /// corrupting the allocator of the monitoring process (Miri / ASan still see the double drop itself)
    _heap: std::mem::ManuallyDrop<Box<u8>>,
}

impl Tracked {
    pub fn new(node: u32) -> Tracked {
        Tracked { id: new_id(false), node, _heap: std::mem::ManuallyDrop::new(Box::new(0xA5)) }
    }
}
impl Clone for Tracked {
    fn clone(&self) -> Tracked {
        Tracked { id: new_id(true), node: self.node, _heap: std::mem::ManuallyDrop::new(Box::new(0xA5)) }
    }
}
impl Drop for Tracked {
    fn drop(&mut self) {
        if drop_id(self.id) {
            // SAFETY: first drop of this instance
            unsafe { std::mem::ManuallyDrop::drop(&mut self._heap) }
        }
    }
}
impl PartialEq for Tracked {
    fn eq(&self, _: &Tracked) -> bool {
        true
    }
}
impl Eq for Tracked {}
impl std::hash::Hash for Tracked {
    fn hash<H: std::hash::Hasher>(&self, _: &mut H) {}
}
impl std::fmt::Debug for Tracked {
    fn fmt(&self, f: &mut std::fmt::Formatter<'_>) -> std::fmt::Result {
        write!(f, "T#{}@{}", self.id, self.node)
    }
}

/// A caller-owned token: compares by character, every clone is a new tracked instance.
pub struct TTok {
    pub c: char,
    pub id: u32,
    pub original: bool,
    _heap: std::mem::ManuallyDrop<Box<u8>>,
}

impl TTok {
    pub fn new(c: char) -> TTok {
        TTok { c, id: new_id(false), original: true, _heap: std::mem::ManuallyDrop::new(Box::new(0x5A)) }
    }
}
impl Clone for TTok {
    fn clone(&self) -> TTok {
        TTok { c: self.c, id: new_id(true), original: false, _heap: std::mem::ManuallyDrop::new(Box::new(0x5A)) }
    }
}
impl Drop for TTok {
    fn drop(&mut self) {
        if drop_id(self.id) {
            // SAFETY: first drop of this instance
            unsafe { std::mem::ManuallyDrop::drop(&mut self._heap) }
        }
    }
}
impl PartialEq for TTok {
    fn eq(&self, o: &TTok) -> bool {
        self.c == o.c
    }
}
impl Eq for TTok {}
impl std::hash::Hash for TTok {
    fn hash<H: std::hash::Hasher>(&self, h: &mut H) {
        self.c.hash(h)
    }
}
impl std::fmt::Debug for TTok {
    fn fmt(&self, f: &mut std::fmt::Formatter<'_>) -> std::fmt::Result {
        write!(f, "{:?}#{}", self.c, self.id)
    }
}
impl std::fmt::Display for TTok {
    fn fmt(&self, f: &mut std::fmt::Formatter<'_>) -> std::fmt::Result {
        write!(f, "{}", self.c)
    }
}
