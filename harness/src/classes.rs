//! Grammar classes named by the properties, as enumeration/generation bases.

use crate::gram::*;

fn un(op: Op) -> Ctor {
    ctor(1, move |mut k| G::un(op, k.remove(0)))
}
fn unp(op: Op, f: impl Fn(&mut P) + Send + Sync + 'static) -> Ctor {
    ctor(1, move |mut k| {
        let mut g = G::un(op, k.remove(0));
        f(&mut g.p);
        g
    })
}
fn bin(op: Op) -> Ctor {
    ctor(2, move |k| G::new(op, k))
}
fn nary(op: Op, n: usize) -> Ctor {
    ctor(n, move |k| G::new(op, k))
}

pub fn leaves_small() -> Vec<G> {
    vec![
        G::just('a'),
        G::just('b'),
        G::just_seq("ab"),
        G::leaf(Op::Any),
        G::set(Op::OneOf, "ab"),
        G::set(Op::NoneOf, "a"),
        G::leaf(Op::End),
        G::leaf(Op::Empty),
    ]
}

pub fn leaves_k01() -> Vec<G> {
    let mut v = leaves_small();
    // token sets / sequences in other container types, with a two-byte (Latin-1) and a four-byte character
    v.push(G::set(Op::OneOf, "bé").with(|p| p.n = 1));
    v.push(G::set(Op::NoneOf, "é").with(|p| p.n = 2));
    v.push(G::set(Op::OneOf, "é𝄞").with(|p| p.n = 4));
    v.push(G::set(Op::NoneOf, "ab").with(|p| p.n = 6));
    v.push(G::just_seq("éa").with(|p| p.n = 1));
    v.push(G::set(Op::Select, "bé"));
    v.push(G::leaf(Op::Custom).with(|p| {
        p.n = 1;
        p.ok = true
    }));
    v.push(G::leaf(Op::Custom).with(|p| {
        p.n = 1;
        p.ok = false
    }));
    v.push(G::leaf(Op::Custom).with(|p| {
        p.n = 2;
        p.ok = false
    }));
    v
}

/// K01: the C01 class (primitive matchers; sequencing, ordered choice, option, lookahead; value shaping).
pub fn k01(with_not: bool) -> Basis {
    let mut ctors = vec![
        un(Op::OrNot),
        un(Op::Rewind),
        un(Op::Map),
        un(Op::To),
        un(Op::Ignored),
        un(Op::ToSlice),
        un(Op::ToSpan),
        unp(Op::Filter, |p| p.pred = Pred::FirstIs('a')),
        unp(Op::Filter, |p| p.pred = Pred::LenIs(1)),
        unp(Op::TryMap, |p| p.pred = Pred::Lacks('b')),
        unp(Op::TryMapWith, |p| p.pred = Pred::FirstIs('b')),
        bin(Op::Then),
        bin(Op::IgnoreThen),
        bin(Op::ThenIgnore),
        bin(Op::Or),
        bin(Op::AndIs),
        bin(Op::Padded),
        nary(Op::Group, 2),
        nary(Op::GroupArr, 2),
        nary(Op::Choice, 2),
        nary(Op::ChoiceTup, 3),
        nary(Op::ChoiceArr, 2),
        nary(Op::Delim, 3),
    ];
    if with_not {
        ctors.push(un(Op::Not));
    }
    Basis { leaves: leaves_k01(), ctors }
}

/// A smaller K01 used where another dimension (decorations, kinds, histories) is multiplied in.
pub fn k01_core(with_not: bool) -> Basis {
    let mut ctors = vec![
        un(Op::OrNot),
        un(Op::Rewind),
        un(Op::Map),
        unp(Op::Filter, |p| p.pred = Pred::FirstIs('a')),
        unp(Op::TryMap, |p| p.pred = Pred::Lacks('b')),
        bin(Op::Then),
        bin(Op::IgnoreThen),
        bin(Op::Or),
        bin(Op::AndIs),
    ];
    if with_not {
        ctors.push(un(Op::Not));
    }
    Basis { leaves: leaves_small(), ctors }
}

/// All repetition constructors for the given bounds range (items become the single child).
pub fn rep_ctors(max_bound: u8, flavs: &[Flav], with_cfg: bool) -> Vec<Ctor> {
    let mut out = vec![];
    for &flav in flavs {
        for lo in 0..=max_bound {
            // unbounded above
            out.push(unp(Op::Rep, move |p| {
                p.lo = lo;
                p.hi = None;
                p.flav = flav;
            }));
            for hi in lo..=max_bound {
                out.push(unp(Op::Rep, move |p| {
                    p.lo = lo;
                    p.hi = Some(hi);
                    p.flav = flav;
                }));
                if with_cfg {
                    out.push(unp(Op::Rep, move |p| {
                        p.lo = lo;
                        p.hi = Some(hi);
                        p.flav = flav;
                        p.via = Via::Configure;
                    }));
                }
                if lo == hi {
                    out.push(unp(Op::Rep, move |p| {
                        p.lo = lo;
                        p.hi = Some(hi);
                        p.flav = flav;
                        p.via = Via::Exactly;
                    }));
                    if with_cfg {
                        out.push(unp(Op::Rep, move |p| {
                            p.lo = lo;
                            p.hi = Some(hi);
                            p.flav = flav;
                            p.via = Via::ConfigureExactly;
                        }));
                    }
                }
            }
        }
    }
    out
}

pub fn sep_ctors(max_bound: u8, flavs: &[Flav]) -> Vec<Ctor> {
    let mut out = vec![];
    for &flav in flavs {
        for lead in [false, true] {
            for trail in [false, true] {
                for lo in 0..=max_bound {
                    let mk = move |hi: Option<u8>, via: Via| {
                        ctor(2, move |k| {
                            let mut g = G::new(Op::Sep, k);
                            g.p.lo = lo;
                            g.p.hi = hi;
                            g.p.flav = flav;
                            g.p.lead = lead;
                            g.p.trail = trail;
                            g.p.via = via;
                            g
                        })
                    };
                    out.push(mk(None, Via::Static));
                    for hi in lo..=max_bound {
                        out.push(mk(Some(hi), Via::Static));
                        if lo == hi {
                            out.push(mk(Some(hi), Via::Exactly));
                        }
                    }
                }
            }
        }
    }
    out
}

/// A light set of repetition constructors to mix into other classes.
pub fn rep_light() -> Vec<Ctor> {
    vec![
        unp(Op::Rep, |p| {
            p.flav = Flav::Vec;
        }),
        unp(Op::Rep, |p| {
            p.flav = Flav::Unit;
        }),
        unp(Op::Rep, |p| {
            p.lo = 1;
            p.flav = Flav::Vec;
        }),
        unp(Op::Rep, |p| {
            p.lo = 1;
            p.hi = Some(2);
            p.flav = Flav::Count;
        }),
        unp(Op::Rep, |p| {
            p.lo = 2;
            p.hi = Some(2);
            p.via = Via::Exactly;
            p.flav = Flav::Arr2;
        }),
        ctor(2, |k| {
            let mut g = G::new(Op::Sep, k);
            g.p.flav = Flav::Vec;
            g
        }),
        ctor(2, |k| {
            let mut g = G::new(Op::Sep, k);
            g.p.flav = Flav::Vec;
            g.p.trail = true;
            g.p.lo = 1;
            g
        }),
        ctor(2, |k| {
            let mut g = G::new(Op::Sep, k);
            g.p.flav = Flav::Unit;
            g.p.lead = true;
            g
        }),
    ]
}

/// Fold constructors: `Foldl(init, iter)` / `Foldr(iter, last)` where `iter` is built from the item child.
pub fn fold_ctors() -> Vec<Ctor> {
    let mut out = vec![];
    for with in [false, true] {
        out.push(ctor(2, move |mut k| {
            let item = k.remove(1);
            let init = k.remove(0);
            let mut g = G::new(Op::Foldl, vec![init, G::rep(item, 0, None, Flav::Unit)]);
            g.p.ok = with;
            g
        }));
        out.push(ctor(2, move |mut k| {
            let last = k.remove(1);
            let item = k.remove(0);
            let mut g = G::new(Op::Foldr, vec![G::rep(item, 0, Some(2), Flav::Unit), last]);
            g.p.ok = with;
            g
        }));
        out.push(ctor(3, move |mut k| {
            let sep = k.remove(2);
            let item = k.remove(1);
            let init = k.remove(0);
            let mut s = G::new(Op::Sep, vec![item, sep]);
            s.p.flav = Flav::Unit;
            s.p.lo = 1;
            let mut g = G::new(Op::Foldl, vec![init, s]);
            g.p.ok = with;
            g
        }));
    }
    out
}

/// K02 = K01 core + repetitions/separators/folds (light).
pub fn k02(with_not: bool) -> Basis {
    let mut b = k01_core(with_not);
    b.ctors.extend(rep_light());
    b.ctors.extend(fold_ctors());
    b
}

pub fn validate_ctors() -> Vec<Ctor> {
    vec![unp(Op::Validate, |p| p.n = 1), unp(Op::Validate, |p| p.n = 2)]
}

pub fn recover_ctors() -> Vec<Ctor> {
    vec![
        bin(Op::RecVia),
        nary(Op::RecSkipUntil, 3),
        nary(Op::RecSkipRetry, 3),
    ]
}

pub fn decor_ctors() -> Vec<Ctor> {
    vec![
        unp(Op::Label, |p| {
            p.n = 0;
            p.ok = false
        }),
        unp(Op::Label, |p| {
            p.n = 1;
            p.ok = true
        }),
        un(Op::MapErr),
    ]
}

/// Contexts that abandon or keep-under-lookahead their first child `e` (arity 3: e, x, y): used to
/// put emitters / recoveries / probes on paths that are later abandoned, and on kept ones.
pub fn abandon_templates() -> Vec<Ctor> {
    fn t(f: impl Fn(G, G, G) -> G + Send + Sync + 'static) -> Ctor {
        ctor(3, move |mut k| {
            let y = k.remove(2);
            let x = k.remove(1);
            let e = k.remove(0);
            f(e, x, y)
        })
    }
    use Op::*;
    vec![
        // alternative abandoned after the emitter succeeded
        t(|e, x, y| G::bin(Or, G::bin(Then, e, x), y)),
        t(|e, x, y| G::new(ChoiceTup, vec![G::bin(Then, e, x.clone()), y, x])),
        t(|e, x, y| G::new(Choice, vec![G::bin(ThenIgnore, e, x), y])),
        // optional abandoned / kept
        t(|e, x, y| G::bin(Then, G::un(OrNot, G::bin(Then, e, x)), y)),
        // repetition attempt abandoned on its last iteration
        t(|e, x, y| G::bin(Then, G::rep(G::bin(Then, e, x), 0, None, Flav::Vec), y)),
        t(|e, x, y| G::bin(Then, G::rep(G::bin(IgnoreThen, e, x), 1, Some(2), Flav::Count), y)),
        t(|e, x, y| {
            let mut s = G::new(Sep, vec![e, x]);
            s.p.flav = Flav::Vec;
            G::bin(Then, s, y)
        }),
        t(|e, x, y| {
            let mut s = G::new(Sep, vec![x, e]);
            s.p.flav = Flav::Vec;
            s.p.trail = true;
            G::bin(Then, s, y)
        }),
        // negative lookahead: everything inside is abandoned
        t(|e, x, y| G::bin(Then, G::un(Not, G::bin(Then, e, x)), y)),
        // kept under lookahead
        t(|e, x, y| G::bin(Then, G::bin(AndIs, e, x), y)),
        t(|e, x, y| G::bin(Then, G::bin(AndIs, x, e), y)),
        t(|e, x, y| G::bin(Then, G::un(Rewind, G::bin(Then, e, x)), y)),
        t(|e, x, y| G::bin(Or, G::bin(Then, G::un(Rewind, e), x), y)),
        // folds
        t(|e, x, y| {
            let mut f = G::new(Foldl, vec![y, G::rep(G::bin(Then, e, x), 0, None, Flav::Unit)]);
            f.p.ok = true;
            f
        }),
        t(|e, x, y| G::new(Foldr, vec![G::rep(G::bin(Then, e, x), 0, Some(2), Flav::Unit), y])),
        // fixed-size collection running short
        t(|e, x, y| G::bin(Or, G::rep(G::bin(Then, e, x), 2, Some(2), Flav::Arr2).with(|p| p.via = Via::Exactly), y)),
        // filter / try_map rejecting a value that carried emissions
        t(|e, x, y| G::bin(Or, G::un(Filter, G::bin(Then, e, x)).with(|p| p.pred = Pred::Lacks('b')), y)),
        t(|e, x, y| G::bin(Or, G::un(TryMap, G::bin(Then, e, x)).with(|p| p.pred = Pred::LenIs(1)), y)),
        // group / delimiters
        t(|e, x, y| G::bin(Or, G::new(Group, vec![e, x.clone(), x]), y)),
        t(|e, x, y| G::bin(Or, G::new(Delim, vec![e, x.clone(), x]), y)),
    ]
}

/// Apply every template to every (e, x, y) triple.
pub fn instantiate(templates: &[Ctor], es: &[G], xs: &[G], ys: &[G]) -> Vec<G> {
    let mut out = vec![];
    for t in templates {
        for e in es {
            for x in xs {
                for y in ys {
                    let g = (t.make)(vec![e.clone(), x.clone(), y.clone()]);
                    if g.well_formed() {
                        out.push(g.numbered());
                    }
                }
            }
        }
    }
    out
}
