//! Private PRNG (splitmix64 seeding a xoshiro256**); every random choice in the harness derives
//! from `VERIF_SEED` through this type so that runs are reproducible.

#[derive(Clone, Debug)]
pub struct Rng {
    s: [u64; 4],
}

fn splitmix(x: &mut u64) -> u64 {
    *x = x.wrapping_add(0x9E3779B97F4A7C15);
    let mut z = *x;
    z = (z ^ (z >> 30)).wrapping_mul(0xBF58476D1CE4E5B9);
    z = (z ^ (z >> 27)).wrapping_mul(0x94D049BB133111EB);
    z ^ (z >> 31)
}

impl Rng {
    pub fn new(seed: u64) -> Rng {
        let mut x = seed ^ 0xC0FF_EE00_D15E_A5E5;
        let s = [splitmix(&mut x), splitmix(&mut x), splitmix(&mut x), splitmix(&mut x)];
        Rng { s }
    }
    /// Independent stream derived from this seed and a label (e.g. worker index, property id).
    pub fn derive(seed: u64, a: u64, b: u64) -> Rng {
        let mut x = seed.wrapping_mul(0x2545F4914F6CDD1D) ^ a.rotate_left(17) ^ b.rotate_left(41);
        let y = splitmix(&mut x);
        Rng::new(y ^ a.wrapping_mul(0x9E3779B97F4A7C15) ^ b)
    }
    pub fn next(&mut self) -> u64 {
        let r = self.s[1].wrapping_mul(5).rotate_left(7).wrapping_mul(9);
        let t = self.s[1] << 17;
        self.s[2] ^= self.s[0];
        self.s[3] ^= self.s[1];
        self.s[1] ^= self.s[2];
        self.s[0] ^= self.s[3];
        self.s[2] ^= t;
        self.s[3] = self.s[3].rotate_left(45);
        r
    }
    pub fn below(&mut self, n: usize) -> usize {
        if n == 0 {
            0
        } else {
            (self.next() % n as u64) as usize
        }
    }
    pub fn range(&mut self, lo: usize, hi_incl: usize) -> usize {
        lo + self.below(hi_incl - lo + 1)
    }
    pub fn chance(&mut self, num: usize, den: usize) -> bool {
        self.below(den) < num
    }
    pub fn pick<'a, T>(&mut self, xs: &'a [T]) -> &'a T {
        &xs[self.below(xs.len())]
    }
    pub fn shuffle<T>(&mut self, xs: &mut [T]) {
        for i in (1..xs.len()).rev() {
            let j = self.below(i + 1);
            xs.swap(i, j);
        }
    }
}

pub fn hash64(bytes: &[u8]) -> u64 {
    // FNV-1a 64 followed by a splitmix finaliser
    let mut h: u64 = 0xcbf29ce484222325;
    for b in bytes {
        h ^= *b as u64;
        h = h.wrapping_mul(0x100000001b3);
    }
    let mut x = h;
    splitmix(&mut x)
}
