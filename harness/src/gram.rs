//! Grammar AST shared by the reference model and the builders, with printing, (de)serialisation,
//! well-formedness analysis, exhaustive enumeration by size and seeded random generation.

use crate::rng::Rng;
use serde_json::{json, Value};

#[derive(Clone, Copy, Debug, PartialEq, Eq, Hash, PartialOrd, Ord)]
pub enum Op {
    // leaves
    Just,
    JustSeq,
    Any,
    OneOf,
    NoneOf,
    Select,
    End,
    Empty,
    Custom,
    Probe,
    // sequencing / choice / lookahead
    Then,
    IgnoreThen,
    ThenIgnore,
    Group,
    GroupArr,
    Or,
    Choice,
    ChoiceTup,
    ChoiceArr,
    OrNot,
    Not,
    AndIs,
    Rewind,
    Delim,
    Padded,
    // value shaping
    Map,
    To,
    Ignored,
    Filter,
    TryMap,
    TryMapWith,
    ToSlice,
    ToSpan,
    // repetition
    Rep,
    Sep,
    Foldl,
    Foldr,
    // errors
    Validate,
    RecVia,
    RecSkipUntil,
    RecSkipRetry,
    RecNested,
    Memo,
    Label,
    MapErr,
    // context
    WithCtx,
    ThenWithCtx,
    IgnoreWithCtx,
    MapCtx,
    CtxJust,
    CtxRep,
    // state
    WithState,
    // recursion: `Rec` binds a recursive definition whose body refers to it with `Ref`
    Rec,
    Ref,
    /// `Ext(W(a))` where `W::parse = inp.parse(&a)` and `W::check = inp.check(&a)` (separate check path)
    ExtWrap,
    /// `a.nested_in(b.to_slice())`: kids = [a, b]; `a` must match exactly the input consumed by `b`
    NestedIn,
}

pub const ALL_OPS: &[Op] = &[
    Op::Just, Op::JustSeq, Op::Any, Op::OneOf, Op::NoneOf, Op::Select, Op::End, Op::Empty, Op::Custom, Op::Probe,
    Op::Then, Op::IgnoreThen, Op::ThenIgnore, Op::Group, Op::GroupArr, Op::Or, Op::Choice, Op::ChoiceTup,
    Op::ChoiceArr, Op::OrNot, Op::Not, Op::AndIs, Op::Rewind, Op::Delim, Op::Padded, Op::Map, Op::To, Op::Ignored,
    Op::Filter, Op::TryMap, Op::TryMapWith, Op::ToSlice, Op::ToSpan, Op::Rep, Op::Sep, Op::Foldl, Op::Foldr,
    Op::Validate, Op::RecVia, Op::RecSkipUntil, Op::RecSkipRetry, Op::RecNested, Op::Memo, Op::Label, Op::MapErr,
    Op::WithCtx, Op::ThenWithCtx, Op::IgnoreWithCtx, Op::MapCtx, Op::CtxJust, Op::CtxRep, Op::WithState, Op::Rec,
    Op::Ref, Op::ExtWrap, Op::NestedIn,
];

impl Op {
    pub fn name(self) -> String {
        format!("{:?}", self)
    }
    pub fn from_name(s: &str) -> Option<Op> {
        ALL_OPS.iter().copied().find(|o| o.name() == s)
    }
}

/// What a repetition is turned into.
#[derive(Clone, Copy, Debug, PartialEq, Eq, Hash, PartialOrd, Ord)]
pub enum Flav {
    Unit,
    Vec,
    Str,
    Count,
    CountM,
    Enum,
    Arr2,
    Arr3,
}
pub const ALL_FLAVS: &[Flav] = &[Flav::Unit, Flav::Vec, Flav::Str, Flav::Count, Flav::CountM, Flav::Enum, Flav::Arr2, Flav::Arr3];

/// How the bounds of a repetition are supplied.
#[derive(Clone, Copy, Debug, PartialEq, Eq, Hash, PartialOrd, Ord)]
pub enum Via {
    /// `.at_least(lo)` / `.at_most(hi)` (each only when not the default)
    Static,
    /// `.exactly(n)` (requires lo == hi)
    Exactly,
    /// `.configure(|cfg, _| cfg.at_least(lo).at_most(hi))`
    Configure,
    /// `.configure(|cfg, _| cfg.exactly(n))`
    ConfigureExactly,
    /// static `.at_most(hi)`, `.configure(|cfg, _| cfg.at_least(lo))`
    MixedLo,
    /// static `.at_least(lo)`, `.configure(|cfg, _| cfg.at_most(hi))` (requires an upper bound)
    MixedHi,
    /// static bounds, `.configure(|cfg, _| cfg)`
    ConfigureNoop,
    /// tighter static bounds `.at_least(lo+1).at_most(hi-1)` overridden by `.configure(|cfg, _| cfg.at_least(lo).at_most(hi))`
    /// (requires an upper bound >= 1): the configured bounds replace the static ones
    Override,
    /// static `.at_most(1)` overridden by `.configure(|cfg, _| cfg.exactly(n))` (requires lo == hi)
    OverrideExactly,
}
pub const ALL_VIAS: &[Via] = &[Via::Static, Via::Exactly, Via::Configure, Via::ConfigureExactly, Via::MixedLo, Via::MixedHi, Via::ConfigureNoop, Via::Override, Via::OverrideExactly];

/// Predicates of `filter` / `try_map`: functions of the flattened token text of the output only.
#[derive(Clone, Copy, Debug, PartialEq, Eq, Hash, PartialOrd, Ord)]
pub enum Pred {
    Always,
    Never,
    FirstIs(char),
    LenIs(u8),
    Lacks(char),
}

impl Pred {
    pub fn eval(&self, flat: &str) -> bool {
        match self {
            Pred::Always => true,
            Pred::Never => false,
            Pred::FirstIs(c) => flat.chars().next() == Some(*c),
            Pred::LenIs(n) => flat.chars().count() == *n as usize,
            Pred::Lacks(c) => !flat.contains(*c),
        }
    }
    fn show(&self) -> String {
        match self {
            Pred::Always => "|_| true".into(),
            Pred::Never => "|_| false".into(),
            Pred::FirstIs(c) => format!("|v| first(v)=={:?}", c),
            Pred::LenIs(n) => format!("|v| len(v)=={}", n),
            Pred::Lacks(c) => format!("|v| !v.contains({:?})", c),
        }
    }
}

#[derive(Clone, Debug, PartialEq, Eq, Hash)]
pub struct P {
    pub cs: Vec<char>,
    pub lo: u8,
    pub hi: Option<u8>,
    pub flav: Flav,
    pub via: Via,
    pub lead: bool,
    pub trail: bool,
    pub pred: Pred,
    /// Custom: tokens to consume; Validate: number of emissions; Label: label index
    pub n: u8,
    /// Custom: succeed?; Label: as_context; Fold*: `_with` variant
    pub ok: bool,
}

impl Default for P {
    fn default() -> P {
        P { cs: vec![], lo: 0, hi: None, flav: Flav::Vec, via: Via::Static, lead: false, trail: false, pred: Pred::Always, n: 0, ok: true }
    }
}

#[derive(Clone, Debug, PartialEq, Eq, Hash)]
pub struct G {
    pub id: u32,
    pub op: Op,
    pub kids: Vec<G>,
    pub p: P,
}

pub const LABELS: [&str; 4] = ["L0", "L1", "L2", "L3"];

impl G {
    pub fn new(op: Op, kids: Vec<G>) -> G {
        G { id: 0, op, kids, p: P::default() }
    }
    pub fn leaf(op: Op) -> G {
        G::new(op, vec![])
    }
    pub fn just(c: char) -> G {
        let mut g = G::leaf(Op::Just);
        g.p.cs = vec![c];
        g
    }
    pub fn just_seq(s: &str) -> G {
        let mut g = G::leaf(Op::JustSeq);
        g.p.cs = s.chars().collect();
        g
    }
    pub fn set(op: Op, s: &str) -> G {
        let mut g = G::leaf(op);
        g.p.cs = s.chars().collect();
        g
    }
    pub fn un(op: Op, a: G) -> G {
        G::new(op, vec![a])
    }
    pub fn bin(op: Op, a: G, b: G) -> G {
        G::new(op, vec![a, b])
    }
    pub fn with(mut self, f: impl FnOnce(&mut P)) -> G {
        f(&mut self.p);
        self
    }
    pub fn rep(item: G, lo: u8, hi: Option<u8>, flav: Flav) -> G {
        G::un(Op::Rep, item).with(|p| {
            p.lo = lo;
            p.hi = hi;
            p.flav = flav;
        })
    }

    /// Number of nodes.
    pub fn size(&self) -> usize {
        1 + self.kids.iter().map(|k| k.size()).sum::<usize>()
    }
    pub fn depth(&self) -> usize {
        1 + self.kids.iter().map(|k| k.depth()).max().unwrap_or(0)
    }
    /// Pre-order numbering; returns the next free id.
    pub fn renumber(&mut self, mut next: u32) -> u32 {
        self.id = next;
        next += 1;
        for k in &mut self.kids {
            next = k.renumber(next);
        }
        next
    }
    pub fn numbered(mut self) -> G {
        self.renumber(0);
        self
    }
    pub fn walk(&self, f: &mut dyn FnMut(&G)) {
        f(self);
        for k in &self.kids {
            k.walk(f);
        }
    }
    pub fn any_node(&self, f: &dyn Fn(&G) -> bool) -> bool {
        f(self) || self.kids.iter().any(|k| k.any_node(f))
    }
    pub fn has_op(&self, op: Op) -> bool {
        self.any_node(&|g| g.op == op)
    }
    pub fn count_op(&self, f: &dyn Fn(Op) -> bool) -> usize {
        let mut n = 0;
        self.walk(&mut |g| {
            if f(g.op) {
                n += 1
            }
        });
        n
    }
    /// Ids of the nodes that may be wrapped by a decoration (not the iterable operand of a fold, which
    /// must stay a repetition).
    pub fn wrappable_ids(&self) -> Vec<u32> {
        fn go(g: &G, ok: bool, out: &mut Vec<u32>) {
            if ok {
                out.push(g.id);
            }
            for (i, k) in g.kids.iter().enumerate() {
                let iter_operand = (g.op == Op::Foldl && i == 1) || (g.op == Op::Foldr && i == 0);
                go(k, !iter_operand, out);
            }
        }
        let mut out = vec![];
        go(self, true, &mut out);
        out
    }
    pub fn find(&self, id: u32) -> Option<&G> {
        if self.id == id {
            return Some(self);
        }
        self.kids.iter().find_map(|k| k.find(id))
    }
    /// Replace the node with the given id by `with` (ids are renumbered afterwards by the caller).
    pub fn replace(&self, id: u32, with: &G) -> G {
        if self.id == id {
            return with.clone();
        }
        let mut g = self.clone();
        g.kids = self.kids.iter().map(|k| k.replace(id, with)).collect();
        g
    }
    /// Wrap the node with the given id: `f(node)`.
    pub fn wrap_at(&self, id: u32, f: &dyn Fn(G) -> G) -> G {
        if self.id == id {
            let mut inner = self.clone();
            inner.kids = self.kids.clone();
            return f(inner);
        }
        let mut g = self.clone();
        g.kids = self.kids.iter().map(|k| k.wrap_at(id, f)).collect();
        g
    }

    // ---------------------------------------------------------------------------------------
    // Well-formedness

    /// May this grammar succeed without consuming a token?  (Conservative: `true` when unsure.)
    pub fn nullable(&self) -> bool {
        use Op::*;
        let k = &self.kids;
        match self.op {
            Just | Any | OneOf | NoneOf | Select => false,
            JustSeq => self.p.cs.is_empty(),
            End | Empty | Probe => true,
            Custom => self.p.n == 0 && self.p.ok,
            Then | IgnoreThen | ThenIgnore => k[0].nullable() && k[1].nullable(),
            Group | GroupArr => k.iter().all(|x| x.nullable()),
            Or | Choice | ChoiceTup | ChoiceArr => k.iter().any(|x| x.nullable()),
            OrNot | Not | Rewind => true,
            AndIs => k[0].nullable(),
            Delim => k.iter().all(|x| x.nullable()),
            Padded => k[0].nullable() && k[1].nullable(),
            Map | To | Ignored | ToSlice | ToSpan | Validate | Memo | Label | MapErr | WithCtx | MapCtx | WithState | ExtWrap => k[0].nullable(),
            Filter | TryMap | TryMapWith => k[0].nullable(),
            Rep => self.p.lo == 0 || k[0].nullable(),
            Sep => self.p.lo == 0 || k[0].nullable() || self.p.lead,
            CtxRep => true,
            CtxJust => true,
            Foldl => k[0].nullable() && k[1].nullable(),
            Foldr => k[0].nullable() && k[1].nullable(),
            // a recovered parser may succeed with whatever the strategy consumed
            RecVia => k[0].nullable() || k[1].nullable(),
            RecSkipUntil => true,
            RecSkipRetry => k[0].nullable(),
            RecNested => k[0].nullable(),
            ThenWithCtx | IgnoreWithCtx => k[0].nullable() && k[1].nullable(),
            Rec => k[0].nullable(),
            Ref => false, // guarded recursion is enforced separately
            NestedIn => k[1].nullable(),
        }
    }

    /// Side conditions of the properties: repetition items (and separators) consume at least one
    /// token, arities are what the builder supports.
    pub fn well_formed(&self) -> bool {
        use Op::*;
        let k = &self.kids;
        let ok_here = match self.op {
            Rep | CtxRep => !k[0].nullable(),
            Sep => !k[0].nullable() && !k[1].nullable(),
            Foldl => matches!(k[1].op, Rep | Sep),
            Foldr => matches!(k[0].op, Rep | Sep),
            Group | ChoiceTup => (2..=4).contains(&k.len()),
            GroupArr | ChoiceArr => (2..=3).contains(&k.len()),
            // an empty run-time choice (`choice(vec![])`) is legal: it always fails
            Choice => k.len() <= 4,
            // skip steps must make progress
            RecSkipUntil | RecSkipRetry => !k[1].nullable(),
            _ => true,
        };
        // bounds sanity
        let ok_bounds = match self.op {
            Rep | Sep => {
                let exact_ok = match self.p.via {
                    Via::Exactly | Via::ConfigureExactly | Via::OverrideExactly => Some(self.p.lo) == self.p.hi,
                    _ => true,
                };
                let arr_ok = true;
                let cfg_ok = !(self.op == Sep && !matches!(self.p.via, Via::Static | Via::Exactly)) && !(matches!(self.p.via, Via::MixedHi | Via::Override) && self.p.hi.is_none());
                exact_ok && arr_ok && cfg_ok
            }
            _ => true,
        };
        ok_here && ok_bounds && k.iter().all(|x| x.well_formed())
    }

    // ---------------------------------------------------------------------------------------
    // Printing (as a chumsky expression, for evidence samples and replays)

    pub fn show(&self) -> String {
        use Op::*;
        let k: Vec<String> = self.kids.iter().map(|x| x.show()).collect();
        let cs: String = self.p.cs.iter().collect();
        let bounds = |p: &P| -> String {
            let mut s = String::new();
            match p.via {
                Via::Static => {
                    if p.lo > 0 {
                        s += &format!(".at_least({})", p.lo);
                    }
                    if let Some(h) = p.hi {
                        s += &format!(".at_most({})", h);
                    }
                }
                Via::Exactly => s += &format!(".exactly({})", p.lo),
                Via::Configure => {
                    s += &format!(
                        ".configure(|c,_| c.at_least({}){})",
                        p.lo,
                        p.hi.map(|h| format!(".at_most({})", h)).unwrap_or_default()
                    )
                }
                Via::ConfigureExactly => s += &format!(".configure(|c,_| c.exactly({}))", p.lo),
                Via::MixedLo => s += &format!("{}.configure(|c,_| c.at_least({}))", p.hi.map(|h| format!(".at_most({})", h)).unwrap_or_default(), p.lo),
                Via::MixedHi => s += &format!(".at_least({}).configure(|c,_| c.at_most({}))", p.lo, p.hi.unwrap_or(0)),
                Via::ConfigureNoop => s += &format!(".at_least({}){}.configure(|c,_| c)", p.lo, p.hi.map(|h| format!(".at_most({})", h)).unwrap_or_default()),
                Via::Override => s += &format!(".at_least({}).at_most({}).configure(|c,_| c.at_least({}).at_most({}))", p.lo + 1, p.hi.unwrap_or(0).saturating_sub(1), p.lo, p.hi.unwrap_or(0)),
                Via::OverrideExactly => s += &format!(".at_most(1).configure(|c,_| c.exactly({}))", p.lo),
            }
            s
        };
        let flav = |f: Flav| -> &'static str {
            match f {
                Flav::Unit => "",
                Flav::Vec => ".collect::<Vec<_>>()",
                Flav::Str => ".collect::<String>()",
                Flav::Count => ".collect::<usize>()",
                Flav::CountM => ".count()",
                Flav::Enum => ".enumerate().collect::<Vec<_>>()",
                Flav::Arr2 => ".collect_exactly::<[_;2]>()",
                Flav::Arr3 => ".collect_exactly::<[_;3]>()",
            }
        };
        match self.op {
            Just => format!("just({:?})", self.p.cs[0]),
            JustSeq => format!("just({:?}{})", cs, ["", " as &'static str", " as Vec<char>", " as [char; 2]"].get(self.p.n as usize).unwrap_or(&"")),
            Any => "any()".into(),
            OneOf => format!("one_of({:?}{})", cs, set_container(self.p.n)),
            NoneOf => format!("none_of({:?}{})", cs, set_container(self.p.n)),
            Select => format!("select!{{c if {:?}.contains(c)}}", cs),
            End => "end()".into(),
            Empty => "empty()".into(),
            Custom => format!("custom({} {} then {})", match self.p.lo { 1 => "peek+skip", 3 => "take, rewind, take again", _ => "take" }, self.p.n, if self.p.ok { "Ok" } else { "Err" }),
            Probe => format!("probe#{}", self.id),
            Then => format!("{}.then({})", k[0], k[1]),
            IgnoreThen => format!("{}.ignore_then({})", k[0], k[1]),
            ThenIgnore => format!("{}.then_ignore({})", k[0], k[1]),
            Group => format!("group(({}))", k.join(", ")),
            GroupArr => format!("group([{}])", k.join(", ")),
            Or => format!("{}.or({})", k[0], k[1]),
            Choice => format!("choice(vec![{}])", k.join(", ")),
            ChoiceTup => format!("choice(({}))", k.join(", ")),
            ChoiceArr => format!("choice([{}])", k.join(", ")),
            OrNot => format!("{}.or_not()", k[0]),
            Not => format!("{}.not()", k[0]),
            AndIs => format!("{}.and_is({})", k[0], k[1]),
            Rewind => format!("{}.rewind()", k[0]),
            Delim => format!("{}.delimited_by({}, {})", k[0], k[1], k[2]),
            Padded => format!("{}.padded_by({})", k[0], k[1]),
            Map => format!("{}.map(m{})", k[0], self.id),
            To => format!("{}.to({})", k[0], self.id),
            Ignored => format!("{}.ignored()", k[0]),
            Filter => format!("{}.filter({})", k[0], self.p.pred.show()),
            TryMap => format!("{}.try_map({})", k[0], self.p.pred.show()),
            TryMapWith => format!("{}.try_map_with({})", k[0], self.p.pred.show()),
            ToSlice => format!("{}.to_slice()", k[0]),
            ToSpan => format!("{}.to_span()", k[0]),
            Rep => format!("{}.repeated(){}{}", k[0], bounds(&self.p), flav(self.p.flav)),
            Sep => format!(
                "{}.separated_by({}){}{}{}{}",
                k[0],
                k[1],
                bounds(&self.p),
                if self.p.lead { ".allow_leading()" } else { "" },
                if self.p.trail { ".allow_trailing()" } else { "" },
                flav(self.p.flav)
            ),
            Foldl => format!("{}.foldl{}({}, pair)", k[0], if self.p.ok { "_with" } else { "" }, strip_flav(&self.kids[1])),
            Foldr => format!("{}.foldr{}({}, pair)", strip_flav(&self.kids[0]), if self.p.ok { "_with" } else { "" }, k[1]),
            Validate => format!("{}.validate(emit x{} E{})", k[0], self.p.n, self.id),
            RecVia => format!("{}.recover_with(via_parser({}))", k[0], k[1]),
            RecSkipUntil => format!("{}.recover_with(skip_until({}.ignored(), {}.ignored(), || FALLBACK{}))", k[0], k[1], k[2], self.id),
            RecSkipRetry => format!("{}.recover_with(skip_then_retry_until({}.ignored(), {}.ignored()))", k[0], k[1], k[2]),
            RecNested => format!("{}.recover_with(via_parser(nested_delimiters('(', ')', [('[', ']')], |_| FALLBACK{})))", k[0], self.id),
            Memo => format!("{}.memoized()", k[0]),
            Label => format!("{}.labelled({:?}){}", k[0], LABELS[self.p.n as usize % 4], if self.p.ok { ".as_context()" } else { "" }),
            MapErr => format!("{}.map_err(tag{})", k[0], self.id),
            WithCtx => format!("{}.with_ctx({:?})", k[0], cs),
            ThenWithCtx => format!("{}.then_with_ctx({})", k[0], k[1]),
            IgnoreWithCtx => format!("{}.ignore_with_ctx({})", k[0], k[1]),
            MapCtx => format!("map_ctx(ctx+{:?}, {})", cs, k[0]),
            CtxJust => "just(..).configure(|c,ctx| c.seq(text(ctx)))".to_string(),
            CtxRep if self.p.ok => format!(
                "{}.repeated(){}.configure(|c,ctx| c.{}){}",
                k[0],
                if self.p.lead { ".at_least(3).at_most(1)" } else { "" },
                if self.p.trail { "at_least(len(ctx)/2).at_most(len(ctx))" } else { "exactly(len(ctx))" },
                match self.p.flav {
                    Flav::Unit => ".to(())",
                    Flav::Count => ".count()",
                    _ => ".collect::<Vec<_>>()",
                }
            ),
            CtxRep => format!("{}.repeated().try_configure(|c,ctx,span| if len(ctx)==2 {{ Err(Q{}) }} else {{ Ok(c.exactly(len(ctx))) }}).collect::<Vec<_>>()", k[0], self.id),
            WithState => format!("{}.with_state(Insp::fresh({}))", k[0], self.p.n),
            Rec => format!("recursive(|r{}| {})", self.p.n, k[0]),
            Ref => format!("r{}", self.p.n),
            ExtWrap => format!("Ext(parse_or_check({}))", k[0]),
            NestedIn => format!("{}.nested_in({}.to_slice())", k[0], k[1]),
        }
    }

    // ---------------------------------------------------------------------------------------
    // JSON

    pub fn to_json(&self) -> Value {
        let mut o = serde_json::Map::new();
        o.insert("op".into(), json!(self.op.name()));
        if !self.kids.is_empty() {
            o.insert("kids".into(), Value::Array(self.kids.iter().map(|k| k.to_json()).collect()));
        }
        let d = P::default();
        let p = &self.p;
        if p.cs != d.cs {
            o.insert("cs".into(), json!(p.cs.iter().collect::<String>()));
        }
        if p.lo != d.lo {
            o.insert("lo".into(), json!(p.lo));
        }
        if p.hi != d.hi {
            o.insert("hi".into(), json!(p.hi));
        }
        if p.flav != d.flav {
            o.insert("flav".into(), json!(format!("{:?}", p.flav)));
        }
        if p.via != d.via {
            o.insert("via".into(), json!(format!("{:?}", p.via)));
        }
        if p.lead {
            o.insert("lead".into(), json!(true));
        }
        if p.trail {
            o.insert("trail".into(), json!(true));
        }
        if p.pred != d.pred {
            o.insert(
                "pred".into(),
                match p.pred {
                    Pred::Always => json!("always"),
                    Pred::Never => json!("never"),
                    Pred::FirstIs(c) => json!({"first": c.to_string()}),
                    Pred::LenIs(n) => json!({"len": n}),
                    Pred::Lacks(c) => json!({"lacks": c.to_string()}),
                },
            );
        }
        if p.n != d.n {
            o.insert("n".into(), json!(p.n));
        }
        if p.ok != d.ok {
            o.insert("ok".into(), json!(p.ok));
        }
        Value::Object(o)
    }

    pub fn from_json(v: &Value) -> Result<G, String> {
        let op = Op::from_name(v["op"].as_str().ok_or("op missing")?).ok_or("bad op")?;
        let mut g = G::leaf(op);
        if let Some(ks) = v.get("kids").and_then(|k| k.as_array()) {
            for k in ks {
                g.kids.push(G::from_json(k)?);
            }
        }
        if let Some(s) = v.get("cs").and_then(|s| s.as_str()) {
            g.p.cs = s.chars().collect();
        }
        if let Some(n) = v.get("lo").and_then(|n| n.as_u64()) {
            g.p.lo = n as u8;
        }
        if let Some(n) = v.get("hi").and_then(|n| n.as_u64()) {
            g.p.hi = Some(n as u8);
        }
        if let Some(s) = v.get("flav").and_then(|s| s.as_str()) {
            g.p.flav = *ALL_FLAVS.iter().find(|f| format!("{:?}", f) == s).ok_or("bad flav")?;
        }
        if let Some(s) = v.get("via").and_then(|s| s.as_str()) {
            g.p.via = *ALL_VIAS
                .iter()
                .find(|f| format!("{:?}", f) == s)
                .ok_or("bad via")?;
        }
        g.p.lead = v.get("lead").and_then(|b| b.as_bool()).unwrap_or(false);
        g.p.trail = v.get("trail").and_then(|b| b.as_bool()).unwrap_or(false);
        if let Some(p) = v.get("pred") {
            let ch = |x: &Value| x.as_str().and_then(|s| s.chars().next()).unwrap_or('a');
            g.p.pred = if p == "always" {
                Pred::Always
            } else if p == "never" {
                Pred::Never
            } else if let Some(c) = p.get("first") {
                Pred::FirstIs(ch(c))
            } else if let Some(n) = p.get("len") {
                Pred::LenIs(n.as_u64().unwrap_or(0) as u8)
            } else if let Some(c) = p.get("lacks") {
                Pred::Lacks(ch(c))
            } else {
                return Err("bad pred".into());
            };
        }
        if let Some(n) = v.get("n").and_then(|n| n.as_u64()) {
            g.p.n = n as u8;
        }
        if let Some(b) = v.get("ok").and_then(|b| b.as_bool()) {
            g.p.ok = b;
        }
        Ok(g)
    }
}

fn set_container(n: u8) -> &'static str {
    match n {
        1 => " as String",
        2 => " as &'static str",
        3 => " as [char; N]",
        4 => " as BTreeSet<char>",
        5 => " as HashSet<char>",
        6 => " as RangeInclusive<char>",
        _ => "",
    }
}

/// Randomise the container type in which token sets / sequences are handed to the library.
pub fn vary_containers(g: &mut G, rng: &mut Rng) {
    match g.op {
        Op::OneOf | Op::NoneOf => g.p.n = rng.below(7) as u8,
        Op::JustSeq => g.p.n = rng.below(4) as u8,
        // how a custom parser consumes: next(), peek()+skip(), or take / rewind by hand / take again
        Op::Custom => g.p.lo = [0u8, 1, 3][rng.below(3)],
        _ => {}
    }
    for k in &mut g.kids {
        vary_containers(k, rng);
    }
}

fn strip_flav(g: &G) -> String {
    let mut h = g.clone();
    h.p.flav = Flav::Unit;
    h.show()
}

// -------------------------------------------------------------------------------------------
// Exhaustive enumeration by size

/// A constructor template: given children, make a node.
#[derive(Clone)]
pub struct Ctor {
    pub arity: usize,
    pub make: std::sync::Arc<dyn Fn(Vec<G>) -> G + Send + Sync>,
}

pub fn ctor(arity: usize, f: impl Fn(Vec<G>) -> G + Send + Sync + 'static) -> Ctor {
    Ctor { arity, make: std::sync::Arc::new(f) }
}

#[derive(Clone, Default)]
pub struct Basis {
    pub leaves: Vec<G>,
    pub ctors: Vec<Ctor>,
}

impl Basis {
    /// All well-formed grammars with exactly `n` nodes (ids not yet assigned).
    pub fn exactly(&self, n: usize, memo: &mut Vec<Option<Vec<G>>>) -> Vec<G> {
        if memo.len() <= n {
            memo.resize(n + 1, None);
        }
        if let Some(v) = &memo[n] {
            return v.clone();
        }
        let mut out = Vec::new();
        if n == 1 {
            out.extend(self.leaves.iter().cloned());
        } else if n > 1 {
            for c in &self.ctors {
                if c.arity == 0 || c.arity > n - 1 {
                    continue;
                }
                let mut parts = vec![1usize; c.arity];
                compositions(n - 1, c.arity, 0, &mut parts, &mut |parts| {
                    let lists: Vec<Vec<G>> = parts.iter().map(|&m| self.exactly(m, memo)).collect();
                    let mut idx = vec![0usize; lists.len()];
                    if lists.iter().any(|l| l.is_empty()) {
                        return;
                    }
                    loop {
                        let kids: Vec<G> = idx.iter().zip(&lists).map(|(&i, l)| l[i].clone()).collect();
                        let g = (c.make)(kids);
                        if g.well_formed() {
                            out.push(g);
                        }
                        // increment
                        let mut d = 0;
                        loop {
                            if d == idx.len() {
                                return;
                            }
                            idx[d] += 1;
                            if idx[d] < lists[d].len() {
                                break;
                            }
                            idx[d] = 0;
                            d += 1;
                        }
                    }
                });
            }
        }
        memo[n] = Some(out.clone());
        out
    }

    pub fn up_to(&self, n: usize) -> Vec<G> {
        let mut memo = Vec::new();
        let mut out = Vec::new();
        for m in 1..=n {
            out.extend(self.exactly(m, &mut memo));
        }
        out.into_iter().map(|g| g.numbered()).collect()
    }

    /// Seeded random tree of roughly the requested size.
    pub fn random(&self, rng: &mut Rng, size: usize) -> G {
        for _ in 0..200 {
            let mut g = self.random_once(rng, size);
            if g.well_formed() {
                vary_containers(&mut g, rng);
                return g.numbered();
            }
        }
        self.leaves[0].clone().numbered()
    }

    fn random_once(&self, rng: &mut Rng, size: usize) -> G {
        if size <= 1 || self.ctors.is_empty() {
            return rng.pick(&self.leaves).clone();
        }
        let cands: Vec<&Ctor> = self.ctors.iter().filter(|c| c.arity <= size - 1).collect();
        if cands.is_empty() {
            return rng.pick(&self.leaves).clone();
        }
        let c = *rng.pick(&cands);
        // split size-1 among children
        let mut rest = size - 1;
        let mut kids = Vec::new();
        for i in 0..c.arity {
            let left = c.arity - i - 1;
            let s = if left == 0 { rest } else { rng.range(1, rest - left) };
            rest -= s;
            // try a few times to get a well-formed child arrangement
            kids.push(self.random_once(rng, s));
        }
        (c.make)(kids)
    }
}

fn compositions(total: usize, k: usize, i: usize, parts: &mut Vec<usize>, f: &mut dyn FnMut(&[usize])) {
    if i == k - 1 {
        if total >= 1 {
            parts[i] = total;
            f(parts);
        }
        return;
    }
    for a in 1..=total.saturating_sub(k - i - 1) {
        parts[i] = a;
        compositions(total - a, k, i + 1, parts, f);
    }
}

// -------------------------------------------------------------------------------------------
// Inputs

/// All strings over `alpha` with length <= `max_len`, shortest first.
pub fn all_inputs(alpha: &[char], max_len: usize) -> Vec<Vec<char>> {
    let mut out: Vec<Vec<char>> = vec![vec![]];
    let mut lo = 0;
    for _ in 0..max_len {
        let hi = out.len();
        for i in lo..hi {
            for &c in alpha {
                let mut s = out[i].clone();
                s.push(c);
                out.push(s);
            }
        }
        lo = hi;
    }
    out
}

pub fn random_input(rng: &mut Rng, alpha: &[char], max_len: usize) -> Vec<char> {
    let n = rng.below(max_len + 1);
    (0..n).map(|_| *rng.pick(alpha)).collect()
}

/// Small alphabet: three ASCII letters and a two-byte one.
pub const SIGMA: [char; 4] = ['a', 'b', 'c', 'é'];
/// Extended alphabet: adds a four-byte character and a combining mark.
pub const SIGMA_PLUS: [char; 7] = ['a', 'b', 'c', 'é', '𝄞', '\u{301}', 'z'];
