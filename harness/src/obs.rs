//! Observers at the public API boundary: the inspector (`Insp`), the probe trace, normalised errors.

use crate::model::{Exp, Sp};
use crate::val::Val;
use chumsky::input::{Checkpoint, Cursor, Input};
use chumsky::inspector::Inspector;
use std::cell::{Cell, RefCell};
use std::collections::BTreeSet;

/// Payload used to unwind out of a parse whose logical step budget is exhausted.
pub struct StepBudgetExceeded;

/// Inspector whose checkpoint is a snapshot of its state: token count + rolling hash (identical to
/// `model::St`), plus a logical step counter (`on_token + on_save + on_rewind`).
#[derive(Clone, Debug, Default)]
pub struct Insp {
    pub n: u64,
    pub h: u64,
    pub steps: Cell<u64>,
    /// 0 = unlimited
    pub budget: u64,
    pub saves: Cell<u64>,
    pub rewinds: u64,
    pub tokens: u64,
}

impl Insp {
    pub fn fresh(seed: u8) -> Insp {
        Insp { n: 0, h: seed as u64, ..Default::default() }
    }
    pub fn with_budget(seed: u8, budget: u64) -> Insp {
        Insp { n: 0, h: seed as u64, budget, ..Default::default() }
    }
    #[inline]
    fn step(&self) {
        let s = self.steps.get() + 1;
        self.steps.set(s);
        if self.budget != 0 && s > self.budget {
            std::panic::resume_unwind(Box::new(StepBudgetExceeded));
        }
    }
}

impl<'src, I: Input<'src, Token = char>> Inspector<'src, I> for Insp {
    type Checkpoint = (u64, u64);
    #[inline]
    fn on_token(&mut self, token: &char) {
        self.n += 1;
        self.h = (self.h ^ *token as u64).wrapping_mul(0x100000001b3).rotate_left(7) ^ 0x9E37;
        self.tokens += 1;
        self.step();
    }
    #[inline]
    fn on_save<'parse>(&self, _cursor: &Cursor<'src, 'parse, I>) -> Self::Checkpoint {
        self.saves.set(self.saves.get() + 1);
        self.step();
        (self.n, self.h)
    }
    #[inline]
    fn on_rewind<'parse>(&mut self, marker: &Checkpoint<'src, 'parse, I, Self::Checkpoint>) {
        let (n, h) = *marker.inspector();
        self.n = n;
        self.h = h;
        self.rewinds += 1;
        self.step();
    }
}

/// Token-agnostic logical step counter (`on_token + on_save + on_rewind`) with a budget; used for
/// byte / grapheme / tracked-token inputs where `Insp` (a fold over `char`s) does not apply.
#[derive(Clone, Debug, Default)]
pub struct Steps {
    pub steps: Cell<u64>,
    pub budget: u64,
    pub tokens: u64,
}

impl Steps {
    pub fn with_budget(budget: u64) -> Steps {
        Steps { budget, ..Default::default() }
    }
    #[inline]
    fn step(&self) {
        let s = self.steps.get() + 1;
        self.steps.set(s);
        if self.budget != 0 && s > self.budget {
            std::panic::resume_unwind(Box::new(StepBudgetExceeded));
        }
    }
}

impl<'src, I: Input<'src>> Inspector<'src, I> for Steps {
    type Checkpoint = ();
    #[inline]
    fn on_token(&mut self, _token: &I::Token) {
        self.tokens += 1;
        self.step();
    }
    #[inline]
    fn on_save<'parse>(&self, _cursor: &Cursor<'src, 'parse, I>) -> Self::Checkpoint {
        self.step();
    }
    #[inline]
    fn on_rewind<'parse>(&mut self, _marker: &Checkpoint<'src, 'parse, I, Self::Checkpoint>) {
        self.step();
    }
}

#[derive(Clone, Debug, PartialEq, Eq)]
pub struct RProbe {
    pub id: u32,
    /// start of the (empty) span at the probe's cursor, in the kind's own offsets
    pub off: usize,
    /// end of that empty span
    pub off_end: usize,
    pub n: u64,
    pub h: u64,
    pub ctx: Val,
}

thread_local! {
    pub static TRACE: RefCell<Vec<RProbe>> = RefCell::new(Vec::new());
    pub static TRACE_ON: Cell<bool> = Cell::new(false);
}

pub fn trace_start() {
    TRACE.with(|t| t.borrow_mut().clear());
    TRACE_ON.with(|t| t.set(true));
}
pub fn trace_take() -> Vec<RProbe> {
    TRACE_ON.with(|t| t.set(false));
    TRACE.with(|t| std::mem::take(&mut *t.borrow_mut()))
}
pub fn trace_push(p: RProbe) {
    if TRACE_ON.with(|t| t.get()) {
        TRACE.with(|t| t.borrow_mut().push(p));
    }
}

/// Normalised view of a reported error, for all error types.
#[derive(Clone, Debug, PartialEq, Eq)]
pub struct RErr {
    pub span: Sp,
    /// `None` for error types that carry no expectations
    pub exp: Option<BTreeSet<Exp>>,
    /// `None` for error types that carry no `found`; `Some(None)` = end of input
    pub found: Option<Option<char>>,
    pub custom: Option<String>,
    pub ctxs: Vec<(String, Sp)>,
}

impl RErr {
    pub fn show(&self) -> String {
        format!(
            "span {:?} {} found {:?} ctx {:?}",
            self.span,
            match (&self.custom, &self.exp) {
                (Some(c), _) => format!("custom {:?}", c),
                (None, Some(e)) => format!("expected {:?}", e),
                (None, None) => "-".into(),
            },
            self.found,
            self.ctxs
        )
    }
}
