//! Child-process runner: work that may die (stack exhaustion, abort, runaway memory) runs in a
//! child `cvh child ...`; the parent records exit status / signal, stdout, wall time, peak RSS and
//! enforces a generous wall-clock watchdog (whose firing alone is inconclusive, never a violation).

use std::io::Read;
use std::process::{Command, Stdio};
use std::time::{Duration, Instant};

#[derive(Debug, Clone)]
pub struct ChildOut {
    pub code: Option<i32>,
    pub signal: Option<i32>,
    pub stdout: String,
    pub stderr_tail: String,
    pub timed_out: bool,
    pub wall_s: f64,
    pub peak_rss_kb: u64,
}

impl ChildOut {
    pub fn died(&self) -> bool {
        self.signal.is_some() || (self.code.map(|c| c != 0).unwrap_or(true) && !self.timed_out)
    }
    pub fn describe(&self) -> String {
        format!(
            "exit code {:?}, signal {:?}{}, {:.1}s, peak RSS {} MiB; stderr tail: {}",
            self.code,
            self.signal.map(sig_name),
            if self.timed_out { " (killed by the watchdog)" } else { "" },
            self.wall_s,
            self.peak_rss_kb / 1024,
            self.stderr_tail.lines().rev().take(6).collect::<Vec<_>>().into_iter().rev().collect::<Vec<_>>().join(" | ")
        )
    }
}

fn sig_name(s: i32) -> String {
    match s {
        6 => "SIGABRT".into(),
        9 => "SIGKILL".into(),
        11 => "SIGSEGV".into(),
        7 => "SIGBUS".into(),
        4 => "SIGILL".into(),
        n => format!("signal {}", n),
    }
}

/// Run `cvh child <args...>` with an address-space limit (KiB) and a wall-clock watchdog.
pub fn run_child(args: &[String], timeout: Duration, vmem_kb: u64) -> ChildOut {
    let exe = std::env::current_exe().expect("current exe");
    // `ulimit -v` in a wrapper shell so that no libc binding is needed
    let mut cmd = Command::new("/bin/sh");
    cmd.arg("-c").arg(format!("ulimit -v {}; exec \"$0\" child \"$@\"", vmem_kb)).arg(exe);
    for a in args {
        cmd.arg(a);
    }
    run_command(cmd, timeout)
}

/// Run several `cvh child` jobs, at most `parallel` at a time; results in job order.
pub fn run_children(jobs: &[Vec<String>], parallel: usize, timeout: Duration, vmem_kb: u64) -> Vec<ChildOut> {
    let next = std::sync::atomic::AtomicUsize::new(0);
    let out: std::sync::Mutex<Vec<Option<ChildOut>>> = std::sync::Mutex::new(vec![None; jobs.len()]);
    std::thread::scope(|s| {
        for _ in 0..parallel.max(1).min(jobs.len().max(1)) {
            s.spawn(|| loop {
                let i = next.fetch_add(1, std::sync::atomic::Ordering::Relaxed);
                if i >= jobs.len() {
                    break;
                }
                let r = run_child(&jobs[i], timeout, vmem_kb);
                out.lock().unwrap()[i] = Some(r);
            });
        }
    });
    out.into_inner().unwrap().into_iter().map(|o| o.expect("child result")).collect()
}

/// Run an arbitrary command (sanitizer tool chains) under the same watchdog / RSS sampling.
pub fn run_command(mut cmd: Command, timeout: Duration) -> ChildOut {
    let start = Instant::now();
    cmd.stdout(Stdio::piped()).stderr(Stdio::piped()).stdin(Stdio::null());
    let mut child = match cmd.spawn() {
        Ok(c) => c,
        Err(e) => {
            return ChildOut { code: None, signal: None, stdout: String::new(), stderr_tail: format!("spawn failed: {}", e), timed_out: true, wall_s: 0.0, peak_rss_kb: 0 };
        }
    };
    let pid = child.id();
    let mut so = child.stdout.take().unwrap();
    let mut se = child.stderr.take().unwrap();
    let t_out = std::thread::spawn(move || {
        let mut s = String::new();
        let _ = so.read_to_string(&mut s);
        s
    });
    let t_err = std::thread::spawn(move || {
        let mut s = Vec::new();
        let _ = se.read_to_end(&mut s);
        let s = String::from_utf8_lossy(&s).to_string();
        let tail: Vec<&str> = s.lines().rev().take(600).collect();
        tail.into_iter().rev().collect::<Vec<_>>().join("\n")
    });
    let mut peak = 0u64;
    let mut timed_out = false;
    let status = loop {
        match child.try_wait() {
            Ok(Some(st)) => break Some(st),
            Ok(None) => {}
            Err(_) => break None,
        }
        if let Ok(s) = std::fs::read_to_string(format!("/proc/{}/status", pid)) {
            for l in s.lines() {
                if let Some(v) = l.strip_prefix("VmHWM:") {
                    if let Some(n) = v.trim().split_whitespace().next().and_then(|x| x.parse::<u64>().ok()) {
                        peak = peak.max(n);
                    }
                }
            }
        }
        if start.elapsed() > timeout {
            timed_out = true;
            let _ = child.kill();
            break child.wait().ok();
        }
        std::thread::sleep(Duration::from_millis(15));
    };
    let stdout = t_out.join().unwrap_or_default();
    let stderr_tail = t_err.join().unwrap_or_default();
    use std::os::unix::process::ExitStatusExt;
    let (code, signal) = match status {
        Some(st) => {
            // the wrapper shell reports a child killed by signal N as exit code 128+N when it did not exec; with exec the status is direct
            let code = st.code();
            let signal = st.signal().or_else(|| code.filter(|c| *c > 128 && *c < 160).map(|c| c - 128));
            (code, signal)
        }
        None => (None, None),
    };
    ChildOut { code, signal, stdout, stderr_tail, timed_out, wall_s: start.elapsed().as_secs_f64(), peak_rss_kb: peak }
}
