//! Pratt operator tables: specification type, textbook binding-power reference, and builders for
//! the three table representations (Vec of boxed operators, tuple of boxed operators, plain tuple).

use crate::mk::*;
use crate::model::St;
use crate::obs::Insp;
use crate::val::Val;
use chumsky::error::Rich;
use chumsky::pratt::*;
use chumsky::prelude::*;

#[derive(Clone, Copy, Debug, PartialEq, Eq, Hash)]
pub enum OpKind {
    Pre,
    Post,
    InL,
    InR,
}

#[derive(Clone, Copy, Debug, PartialEq, Eq, Hash)]
pub struct OpSpec {
    pub kind: OpKind,
    pub sym: char,
    pub bp: u16,
}

impl OpSpec {
    pub fn show(&self) -> String {
        match self.kind {
            OpKind::Pre => format!("prefix({}, just({:?}))", self.bp, self.sym),
            OpKind::Post => format!("postfix({}, just({:?}))", self.bp, self.sym),
            OpKind::InL => format!("infix(left({}), just({:?}))", self.bp, self.sym),
            OpKind::InR => format!("infix(right({}), just({:?}))", self.bp, self.sym),
        }
    }
}

pub fn show_table(t: &[OpSpec]) -> String {
    format!("atom.pratt(({}))", t.iter().map(|o| o.show()).collect::<Vec<_>>().join(", "))
}

pub const ATOM: char = 'x';

// ---------------------------------------------------------------------------------------------
// Reference: textbook binding-power loop over the token slice.  Trees are `Val`s:
//   atom -> Node{0, span, Tok}, prefix -> Node{1,span,Seq[op, rhs]}, postfix -> Node{2,..Seq[lhs, op]},
//   infix -> Node{3,..Seq[lhs, op, rhs]}; spans are token extents of the sub-expression, and every
//   fold also records the inspector state it observed (state after the tokens consumed so far).

pub struct Ref<'a> {
    pub w: &'a [char],
    pub t: &'a [OpSpec],
    pub steps: u64,
}

fn powers(o: &OpSpec) -> (u32, u32) {
    let x = o.bp as u32;
    match o.kind {
        OpKind::InL => (2 * x, 2 * x + 1),
        OpKind::InR => (2 * x + 1, 2 * x),
        OpKind::Pre => (0, 2 * x),
        OpKind::Post => (2 * x + 1, 0),
    }
}

fn obs(st: St) -> Val {
    Val::Obs { id: 0, n: st.n, h: st.h, ctx: Box::new(Val::Unit) }
}

impl<'a> Ref<'a> {
    fn st(&self, q: usize) -> St {
        St::fresh(0).feed_all(&self.w[..q])
    }
    pub fn expr(&mut self, p: usize, min: u32) -> Option<(Val, usize)> {
        self.steps += 1;
        let mut lhs: Option<(Val, usize)> = None;
        for o in self.t.iter().filter(|o| o.kind == OpKind::Pre) {
            if self.w.get(p) == Some(&o.sym) {
                if let Some((rhs, q)) = self.expr(p + 1, powers(o).1) {
                    lhs = Some((Val::node(1, p, q, Val::Seq(vec![Val::Tok(o.sym), rhs, obs(self.st(q))])), q));
                    break;
                }
            }
        }
        let (mut lhs, mut q) = match lhs {
            Some(x) => x,
            None => {
                if self.w.get(p) == Some(&ATOM) {
                    (Val::node(0, p, p + 1, Val::Tok(ATOM)), p + 1)
                } else {
                    return None;
                }
            }
        };
        'outer: loop {
            for o in self.t.iter().filter(|o| o.kind == OpKind::Post) {
                if powers(o).0 >= min && self.w.get(q) == Some(&o.sym) {
                    q += 1;
                    lhs = Val::node(2, p, q, Val::Seq(vec![lhs, Val::Tok(o.sym), obs(self.st(q))]));
                    continue 'outer;
                }
            }
            for o in self.t.iter().filter(|o| matches!(o.kind, OpKind::InL | OpKind::InR)) {
                if powers(o).0 >= min && self.w.get(q) == Some(&o.sym) {
                    if let Some((rhs, q2)) = self.expr(q + 1, powers(o).1) {
                        q = q2;
                        lhs = Val::node(3, p, q, Val::Seq(vec![lhs, Val::Tok(o.sym), rhs, obs(self.st(q))]));
                        continue 'outer;
                    }
                }
            }
            break;
        }
        Some((lhs, q))
    }
}

/// Fully parenthesised rendering (spans dropped).
pub fn render(v: &Val) -> String {
    match v {
        Val::Node { v, .. } => render(v),
        Val::Tok(c) => c.to_string(),
        Val::Seq(xs) => format!("({})", xs.iter().filter(|x| !matches!(x, Val::Obs { .. })).map(render).collect::<Vec<_>>().join("")),
        other => other.show(),
    }
}

// ---------------------------------------------------------------------------------------------
// Real tables

pub type I<'s> = &'s str;
pub type ER<'s> = Rich<'s, char>;
pub type E<'s> = Ex<ER<'s>>;

fn sp<'s, 'b>(e: &mut chumsky::input::MapExtra<'s, 'b, I<'s>, E<'s>>) -> (usize, usize, Val) {
    let s: SimpleSpan = e.span();
    let st: &mut Insp = e.state();
    (s.start, s.end, Val::Obs { id: 0, n: st.n, h: st.h, ctx: Box::new(Val::Unit) })
}

pub fn atom<'s>() -> impl Parser<'s, I<'s>, Val, E<'s>> + Clone {
    just(ATOM).map_with(|c, e| {
        let s: SimpleSpan = e.span();
        Val::node(0, s.start, s.end, Val::Tok(c))
    })
}

pub fn pre<'s>(bp: u16, sym: char) -> impl Operator<'s, I<'s>, Val, E<'s>> + Clone {
    prefix(bp, just(sym), |op: char, rhs: Val, e: &mut chumsky::input::MapExtra<'s, '_, I<'s>, E<'s>>| {
        let (a, b, o) = sp(e);
        Val::node(1, a, b, Val::Seq(vec![Val::Tok(op), rhs, o]))
    })
}

pub fn post<'s>(bp: u16, sym: char) -> impl Operator<'s, I<'s>, Val, E<'s>> + Clone {
    postfix(bp, just(sym), |lhs: Val, op: char, e: &mut chumsky::input::MapExtra<'s, '_, I<'s>, E<'s>>| {
        let (a, b, o) = sp(e);
        Val::node(2, a, b, Val::Seq(vec![lhs, Val::Tok(op), o]))
    })
}

pub fn inf<'s>(assoc: Associativity, sym: char) -> impl Operator<'s, I<'s>, Val, E<'s>> + Clone {
    infix(assoc, just(sym), |lhs: Val, op: char, rhs: Val, e: &mut chumsky::input::MapExtra<'s, '_, I<'s>, E<'s>>| {
        let (a, b, o) = sp(e);
        Val::node(3, a, b, Val::Seq(vec![lhs, Val::Tok(op), rhs, o]))
    })
}

pub fn boxed_op<'s>(o: &OpSpec) -> chumsky::pratt::Boxed<'s, 's, I<'s>, Val, E<'s>> {
    match o.kind {
        OpKind::Pre => pre(o.bp, o.sym).boxed(),
        OpKind::Post => post(o.bp, o.sym).boxed(),
        OpKind::InL => inf(left(o.bp), o.sym).boxed(),
        OpKind::InR => inf(right(o.bp), o.sym).boxed(),
    }
}

/// `expr.then(rest)`: output `Pair(tree, Str(rest))`
fn go<'s, P: Parser<'s, I<'s>, Val, E<'s>>>(p: P, buf: &'s Buf, check: bool) -> Result<RunOut, String> {
    let full = p.then(any().repeated().collect::<String>()).map(|(t, r)| Val::pair(t, Val::Str(r)));
    if check {
        guarded(|| run_check(&full, buf, 0, crate::drv::STEP_BUDGET))
    } else {
        guarded(|| run_parse(&full, buf, 0, crate::drv::STEP_BUDGET))
    }
}

/// The bare `atom.pratt(ops)` (no `rest` parser behind it): mode 0 = parse, 1 = check, 2 = lazy().parse
pub fn run_vec_bare<'s>(t: &[OpSpec], buf: &'s Buf, mode: u8) -> Result<RunOut, String> {
    let ops: Vec<_> = t.iter().map(boxed_op).collect();
    let p = atom().pratt(ops);
    match mode {
        0 => guarded(|| run_parse(&p, buf, 0, crate::drv::STEP_BUDGET)),
        1 => guarded(|| run_check(&p, buf, 0, crate::drv::STEP_BUDGET)),
        _ => {
            let l = p.lazy();
            guarded(|| run_parse(&l, buf, 0, crate::drv::STEP_BUDGET))
        }
    }
}

pub fn run_vec<'s>(t: &[OpSpec], buf: &'s Buf, check: bool) -> Result<RunOut, String> {
    let ops: Vec<_> = t.iter().map(boxed_op).collect();
    go(atom().pratt(ops), buf, check)
}

/// Tuple of boxed operators (arity 1..6).
pub fn run_boxed_tuple<'s>(t: &[OpSpec], buf: &'s Buf, check: bool) -> Option<Result<RunOut, String>> {
    let b = |i: usize| boxed_op(&t[i]);
    Some(match t.len() {
        1 => go(atom().pratt((b(0),)), buf, check),
        2 => go(atom().pratt((b(0), b(1))), buf, check),
        3 => go(atom().pratt((b(0), b(1), b(2))), buf, check),
        4 => go(atom().pratt((b(0), b(1), b(2), b(3))), buf, check),
        5 => go(atom().pratt((b(0), b(1), b(2), b(3), b(4))), buf, check),
        6 => go(atom().pratt((b(0), b(1), b(2), b(3), b(4), b(5))), buf, check),
        _ => return None,
    })
}

include!("pratt_tuples.rs");
