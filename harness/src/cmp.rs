//! Comparison rules between what the model predicts (token indices) and what the real parser
//! reported (offsets of the input kind), including the documented lenient spots (DESIGN §4.5).

use crate::mk::{gap_span, Buf, Kind};
use crate::model::{EmitK, MEmit, MErr, Sp};
use crate::obs::RErr;
use crate::val::Val;

/// Is the real span `r` an acceptable rendering of the model extent `p..q`?
pub fn span_ok<'s, I: Kind<'s>>(buf: &Buf, (p, q): Sp, r: Sp) -> bool
where
    I::Span: Clone + 's,
{
    if p > buf.n() || q > buf.n() {
        return false;
    }
    if I::GAPPED && p == q {
        // an empty match: an empty span lying between the preceding and the following token
        let prev_end = if p > 0 { gap_span(p - 1).end } else { 0 };
        let next_start = if p < buf.n() { gap_span(p).start } else { 10 * buf.n() };
        return r.0 == r.1 && prev_end <= r.0 && r.0 <= next_start;
    }
    I::off(buf, p, q) == r
}

/// Structural comparison of a model value with a real one.  Returns a path to the first difference.
pub fn val_diff<'s, I: Kind<'s>>(buf: &Buf, m: &Val, r: &Val) -> Option<String>
where
    I::Span: Clone + 's,
{
    match (m, r) {
        (Val::Node { id, lo, hi, v }, Val::Node { id: id2, lo: l2, hi: h2, v: v2 }) => {
            if id != id2 {
                return Some(format!("node id {} vs {}", id, id2));
            }
            if !span_ok::<I>(buf, (*lo, *hi), (*l2, *h2)) {
                return Some(format!("extent of node {}: model tokens {}..{} (= {:?}) vs real {}..{}", id, lo, hi, I::off(buf, *lo, *hi), l2, h2));
            }
            val_diff::<I>(buf, v, v2).map(|d| format!("#{}/{}", id, d))
        }
        (Val::Seq(a), Val::Seq(b)) => {
            if a.len() != b.len() {
                return Some(format!("sequence length {} vs {}", a.len(), b.len()));
            }
            a.iter().zip(b).enumerate().find_map(|(i, (x, y))| val_diff::<I>(buf, x, y).map(|d| format!("[{}]/{}", i, d)))
        }
        (Val::Opt(None), Val::Opt(None)) => None,
        (Val::Opt(Some(a)), Val::Opt(Some(b))) => val_diff::<I>(buf, a, b),
        (Val::Pair(a, b), Val::Pair(c, d)) => val_diff::<I>(buf, a, c).map(|x| format!("0/{}", x)).or_else(|| val_diff::<I>(buf, b, d).map(|x| format!("1/{}", x))),
        (Val::Tag(i, a), Val::Tag(j, b)) => {
            if i != j {
                return Some("map tag".into());
            }
            val_diff::<I>(buf, a, b)
        }
        (Val::Span(lo, hi), Val::Span(l2, h2)) => {
            if span_ok::<I>(buf, (*lo, *hi), (*l2, *h2)) {
                None
            } else {
                Some(format!("to_span: model tokens {}..{} vs real {}..{}", lo, hi, l2, h2))
            }
        }
        (Val::Slice { s, off }, Val::Slice { s: s2, off: o2 }) => {
            if s != s2 {
                return Some(format!("slice text {:?} vs {:?}", s, s2));
            }
            let want = I::off(buf, *off, *off).0;
            let got = o2.wrapping_sub(I::base(buf));
            if want != got {
                return Some(format!("slice {:?} not at offset {} of the caller's buffer (pointer offset {})", s, want, got as isize));
            }
            None
        }
        // kinds without slices degrade `to_slice` to `to_span`
        (Val::Slice { s, off }, Val::Span(l2, h2)) => {
            let q = off + s.chars().count();
            if span_ok::<I>(buf, (*off, q), (*l2, *h2)) {
                None
            } else {
                Some(format!("to_span(slice): model tokens {}..{} vs real {}..{}", off, q, l2, h2))
            }
        }
        (Val::FoldW { lo, lo2, hi, acc, x }, Val::FoldW { lo: l2, hi: h2, acc: a2, x: x2, .. }) => {
            if !span_ok::<I>(buf, (*lo, *hi), (*l2, *h2)) && !span_ok::<I>(buf, (*lo2, *hi), (*l2, *h2)) {
                return Some(format!("fold callback span: model tokens {}..{} vs real {}..{}", lo, hi, l2, h2));
            }
            val_diff::<I>(buf, acc, a2).or_else(|| val_diff::<I>(buf, x, x2))
        }
        (Val::Obs { id, n, h, ctx }, Val::Obs { id: i2, n: n2, h: h2, ctx: c2 }) => {
            if id != i2 {
                return Some("probe id".into());
            }
            if n != n2 || h != h2 {
                return Some(format!("inspector state at probe {}: model (n={},h={:x}) vs real (n={},h={:x})", id, n, h, n2, h2));
            }
            val_diff::<I>(buf, ctx, c2).map(|d| format!("ctx at probe {}: {}", id, d))
        }
        (a, b) => {
            if a == b {
                None
            } else {
                Some(format!("{} vs {}", a.show(), b.show()))
            }
        }
    }
}

/// How strictly a reported error is compared with the model's primary error.
#[derive(Clone, Copy, Debug)]
pub struct ErrRules {
    /// require the span to be the *first* tied failure's (exact) instead of any tied one (A5)
    pub exact_span: bool,
    /// compare expected sets (Rich only)
    pub expected: bool,
    /// compare contexts / map_err marks
    pub contexts: bool,
    /// judge `found` against the input
    pub found: bool,
    /// recovered syntax errors are only required to be present (any non-validate error matches)
    pub lenient_rec: bool,
}

impl ErrRules {
    pub const LENIENT: ErrRules = ErrRules { exact_span: false, expected: true, contexts: true, found: true, lenient_rec: false };
}

fn ctx_ok<'s, I: Kind<'s>>(buf: &Buf, must: &[(String, Sp)], may: &[(String, Sp)], real: &[(String, Sp)]) -> Option<String>
where
    I::Span: Clone + 's,
{
    // every required context present with an acceptable span; nothing beyond required ∪ optional
    for (l, sp) in must {
        match real.iter().find(|(rl, _)| rl == l) {
            None => return Some(format!("context {:?} missing", l)),
            Some((_, rs)) => {
                if !span_ok::<I>(buf, *sp, *rs) {
                    return Some(format!("context {:?} span: model tokens {:?} vs real {:?}", l, sp, rs));
                }
            }
        }
    }
    for (rl, rs) in real {
        let known = must.iter().chain(may.iter()).any(|(l, sp)| l == rl && span_ok::<I>(buf, *sp, *rs));
        if !known {
            return Some(format!("unexpected context {:?}@{:?}", rl, rs));
        }
    }
    None
}

/// Compare a reported error with the model's (merged) error.
pub fn err_diff<'s, I: Kind<'s>>(buf: &Buf, m: &MErr, r: &RErr, rules: ErrRules) -> Option<String>
where
    I::Span: Clone + 's,
{
    // span: that of a failure tied at the furthest position
    let span_match = if rules.exact_span { span_ok::<I>(buf, m.span, r.span) } else { m.alt_spans.iter().any(|s| span_ok::<I>(buf, *s, r.span)) };
    if !span_match && !m.from_nested {
        return Some(format!(
            "error span {:?}: model expects the failure at token position {} with span (tokens) {:?} i.e. {:?}",
            r.span,
            m.pos,
            m.alt_spans,
            m.alt_spans.iter().map(|s| I::off(buf, s.0, s.1)).collect::<Vec<_>>()
        ));
    }
    if let Some(exp) = &r.exp {
        // Rich
        if !m.alt_users.is_empty() {
            match &r.custom {
                Some(c) if m.alt_users.contains(c) => {}
                other => return Some(format!("user error {:?} at the furthest position not preserved (reported {:?})", m.alt_users, other)),
            }
        } else {
            if let Some(c) = &r.custom {
                return Some(format!("reported custom error {:?} where the model expects {:?}", c, m.exp));
            }
            if rules.expected && *exp != m.exp {
                return Some(format!("expected set {:?} vs model {:?}", exp, m.exp));
            }
        }
        if rules.contexts {
            if let Some(d) = ctx_ok::<I>(buf, &m.ctxs, &m.alt_ctxs, &r.ctxs) {
                // when several failures tie, the implementation keeps the first one's contexts only
                let relaxed = m.parts > 1 && ctx_ok::<I>(buf, &[], &[m.ctxs.clone(), m.alt_ctxs.clone()].concat(), &r.ctxs).is_none();
                if !relaxed {
                    return Some(d);
                }
            }
        }
    }
    if rules.found {
        if let Some(d) = found_diff::<I>(buf, m, r) {
            return Some(d);
        }
    }
    None
}

/// C06(a): `found` is the token at the start of the span; `None` only at end of input.
pub fn found_diff<'s, I: Kind<'s>>(buf: &Buf, m: &MErr, r: &RErr) -> Option<String>
where
    I::Span: Clone + 's,
{
    let found = match r.found {
        Some(f) => f,
        None => return None,
    };
    if r.custom.is_some() || !m.alt_users.is_empty() || m.user_built {
        return None; // user-constructed error (A7)
    }
    if m.from_nested {
        return None; // raised inside a nested input: span and `found` are in the inner input's terms (A6)
    }
    // token index whose offset equals the span start
    let tok_at = (0..=buf.n()).find(|&i| span_start::<I>(buf, i) == r.span.0);
    let expect = match tok_at {
        Some(i) if i < buf.n() => Some(buf.chars[i]),
        Some(_) => None,
        None => return Some(format!("error span start {} is not at a token boundary", r.span.0)),
    };
    // an empty span at position i (end of input or a zero-width failure) still names the next token
    if found != expect {
        return Some(format!("found {:?} but the token at the start of the span {:?} is {:?}", found, r.span, expect));
    }
    None
}

fn span_start<'s, I: Kind<'s>>(buf: &Buf, i: usize) -> usize
where
    I::Span: Clone + 's,
{
    if i < buf.n() {
        I::off(buf, i, i + 1).0
    } else {
        I::off(buf, i, i).0
    }
}

/// C06(a): the span is well-formed with respect to the input alone.
pub fn span_wf<'s, I: Kind<'s>>(buf: &Buf, r: Sp) -> Option<String>
where
    I::Span: Clone + 's,
{
    if r.0 > r.1 {
        return Some(format!("inverted span {:?}", r));
    }
    let total = I::off(buf, buf.n(), buf.n()).1;
    if r.1 > total {
        return Some(format!("span {:?} outside the input (len {})", r, total));
    }
    if !I::GAPPED {
        let starts: Vec<usize> = (0..=buf.n()).map(|i| I::off(buf, i, i).0).collect();
        if !starts.contains(&r.0) || !starts.contains(&r.1) {
            return Some(format!("span {:?} not on token/character boundaries", r));
        }
    }
    None
}

/// Compare the ordered emission list of the surviving path with the reported non-fatal errors.
pub fn emits_diff<'s, I: Kind<'s>>(buf: &Buf, m: &[MEmit], r: &[RErr], rules: ErrRules) -> Option<String>
where
    I::Span: Clone + 's,
{
    // optional emissions (A3) may be absent: align greedily
    let mut j = 0;
    for (i, e) in m.iter().enumerate() {
        let matches = |re: &RErr| -> Option<String> {
            match &e.k {
                EmitK::Tag(t) => {
                    if re.custom.as_deref() != Some(t.as_str()) {
                        return Some(format!("emission #{}: expected {:?}, got {}", i, t, re.show()));
                    }
                    if !e.nested && !span_ok::<I>(buf, e.span, re.span) {
                        return Some(format!("emission {:?}: span tokens {:?} vs real {:?}", t, e.span, re.span));
                    }
                    if rules.contexts {
                        if let Some(d) = ctx_ok::<I>(buf, &e.ctxs, &[], &re.ctxs) {
                            return Some(format!("emission {:?}: {}", t, d));
                        }
                    }
                    None
                }
                EmitK::Rec(_) if rules.lenient_rec => {
                    if is_validate_tag(re) {
                        Some(format!("emission #{}: expected a recovered syntax error, got {}", i, re.show()))
                    } else {
                        None
                    }
                }
                EmitK::Rec(me) => err_diff::<I>(buf, me, re, rules).map(|d| format!("recovered error #{}: {}", i, d)),
            }
        };
        match r.get(j) {
            Some(re) => match matches(re) {
                None => j += 1,
                Some(d) => {
                    if !e.optional {
                        return Some(d);
                    }
                }
            },
            None => {
                if !e.optional {
                    return Some(format!("emission #{} ({}) of the surviving path is missing from the reported errors", i, e.show()));
                }
            }
        }
    }
    if j < r.len() {
        return Some(format!("reported error #{} ({}) was not emitted on the surviving path", j, r[j].show()));
    }
    None
}

fn is_validate_tag(re: &RErr) -> bool {
    match &re.custom {
        Some(c) => c.starts_with('E') && c.contains('.'),
        None => false,
    }
}
