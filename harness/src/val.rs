//! Universal output value shared by the reference model and the real parsers, so that outputs
//! compare structurally.

#[derive(Clone, Debug, PartialEq, Eq, Hash, Default)]
pub enum Val {
    #[default]
    Unit,
    Tok(char),
    Str(String),
    Num(i64),
    Seq(Vec<Val>),
    Opt(Option<Box<Val>>),
    Pair(Box<Val>, Box<Val>),
    /// result of a `map` at node `id`
    Tag(u32, Box<Val>),
    /// extent capture of node `id`: span `lo..hi` (in the input kind's own offsets; the model uses
    /// token indices and the comparison maps them)
    Node { id: u32, lo: usize, hi: usize, v: Box<Val> },
    /// `to_slice` result: the text and its offset from the start of the caller's buffer (`usize::MAX`
    /// = pointer not inside the buffer)
    Slice { s: String, off: usize },
    Span(usize, usize),
    /// a fold step that also observed a span
    FoldW { lo: usize, lo2: usize, hi: usize, acc: Box<Val>, x: Box<Val> },
    /// recovery fallback marker produced at node `id`
    Fb(u32),
    /// observation of the inspector state / context made at node `id`
    Obs { id: u32, n: u64, h: u64, ctx: Box<Val> },
    /// drop-tracked value created by the mapper of a node (C19)
    Tr(crate::track::Tracked),
}

impl Val {
    pub fn pair(a: Val, b: Val) -> Val {
        Val::Pair(Box::new(a), Box::new(b))
    }
    pub fn node(id: u32, lo: usize, hi: usize, v: Val) -> Val {
        Val::Node { id, lo, hi, v: Box::new(v) }
    }
    pub fn some(v: Val) -> Val {
        Val::Opt(Some(Box::new(v)))
    }
    /// Concatenation of all token/text leaves: what predicates of `filter`/`try_map` look at, so
    /// that they are independent of spans and of the input representation.
    pub fn flat(&self, out: &mut String) {
        match self {
            // slices and spans are not part of the text (kinds without slices degrade `to_slice` to `to_span`)
            Val::Unit | Val::Num(_) | Val::Span(..) | Val::Slice { .. } | Val::Fb(_) | Val::Obs { .. } | Val::Tr(_) => {}
            Val::Tok(c) => out.push(*c),
            Val::Str(s) => out.push_str(s),
            Val::Seq(v) => v.iter().for_each(|x| x.flat(out)),
            Val::Opt(o) => {
                if let Some(x) = o {
                    x.flat(out)
                }
            }
            Val::Pair(a, b) => {
                a.flat(out);
                b.flat(out)
            }
            Val::Tag(_, v) => v.flat(out),
            Val::Node { v, .. } => v.flat(out),
            Val::FoldW { acc, x, .. } => {
                acc.flat(out);
                x.flat(out)
            }
        }
    }
    pub fn flat_string(&self) -> String {
        let mut s = String::new();
        self.flat(&mut s);
        s
    }
    pub fn first_char(&self) -> char {
        self.flat_string().chars().next().unwrap_or('?')
    }
    pub fn contains_fb(&self) -> bool {
        match self {
            Val::Fb(_) => true,
            Val::Seq(v) => v.iter().any(|x| x.contains_fb()),
            Val::Opt(Some(x)) => x.contains_fb(),
            Val::Pair(a, b) => a.contains_fb() || b.contains_fb(),
            Val::Tag(_, v) | Val::Node { v, .. } => v.contains_fb(),
            Val::FoldW { acc, x, .. } => acc.contains_fb() || x.contains_fb(),
            _ => false,
        }
    }
    /// Strip extents/offsets (used when comparing across input kinds whose offsets differ).
    pub fn strip(&self) -> Val {
        match self {
            Val::Node { v, .. } => v.strip(),
            Val::Seq(v) => Val::Seq(v.iter().map(|x| x.strip()).collect()),
            Val::Opt(o) => Val::Opt(o.as_ref().map(|x| Box::new(x.strip()))),
            Val::Pair(a, b) => Val::pair(a.strip(), b.strip()),
            Val::Tag(i, v) => Val::Tag(*i, Box::new(v.strip())),
            Val::Slice { s, .. } => Val::Str(s.clone()),
            Val::Span(..) => Val::Unit,
            Val::FoldW { acc, x, .. } => Val::pair(acc.strip(), x.strip()),
            Val::Obs { id, n, h, ctx } => Val::Obs { id: *id, n: *n, h: *h, ctx: Box::new(ctx.strip()) },
            other => other.clone(),
        }
    }
    /// Shift every span (not slice addresses) by `d`: re-bases values produced inside a nested input.
    pub fn shift_spans(&self, d: usize) -> Val {
        match self {
            Val::Node { id, lo, hi, v } => Val::Node { id: *id, lo: lo + d, hi: hi + d, v: Box::new(v.shift_spans(d)) },
            Val::Seq(v) => Val::Seq(v.iter().map(|x| x.shift_spans(d)).collect()),
            Val::Opt(o) => Val::Opt(o.as_ref().map(|x| Box::new(x.shift_spans(d)))),
            Val::Pair(a, b) => Val::pair(a.shift_spans(d), b.shift_spans(d)),
            Val::Tag(i, v) => Val::Tag(*i, Box::new(v.shift_spans(d))),
            Val::Span(lo, hi) => Val::Span(lo + d, hi + d),
            Val::FoldW { lo, lo2, hi, acc, x } => Val::FoldW { lo: lo + d, lo2: lo2 + d, hi: hi + d, acc: Box::new(acc.shift_spans(d)), x: Box::new(x.shift_spans(d)) },
            Val::Obs { id, n, h, ctx } => Val::Obs { id: *id, n: *n, h: *h, ctx: Box::new(ctx.shift_spans(d)) },
            other => other.clone(),
        }
    }
    /// Apply `f` to every offset in the value (model token indices -> kind offsets).
    pub fn map_offsets(&self, f: &dyn Fn(usize, usize) -> (usize, usize)) -> Val {
        match self {
            Val::Node { id, lo, hi, v } => {
                let (l, h) = f(*lo, *hi);
                Val::Node { id: *id, lo: l, hi: h, v: Box::new(v.map_offsets(f)) }
            }
            Val::Seq(v) => Val::Seq(v.iter().map(|x| x.map_offsets(f)).collect()),
            Val::Opt(o) => Val::Opt(o.as_ref().map(|x| Box::new(x.map_offsets(f)))),
            Val::Pair(a, b) => Val::pair(a.map_offsets(f), b.map_offsets(f)),
            Val::Tag(i, v) => Val::Tag(*i, Box::new(v.map_offsets(f))),
            Val::Span(lo, hi) => {
                let (l, h) = f(*lo, *hi);
                Val::Span(l, h)
            }
            Val::Slice { s, off } => {
                let (l, _) = f(*off, *off);
                Val::Slice { s: s.clone(), off: l }
            }
            Val::FoldW { lo, lo2, hi, acc, x } => {
                let (l, h) = f(*lo, *hi);
                let (l2, _) = f(*lo2, *hi);
                Val::FoldW { lo: l, lo2: l2, hi: h, acc: Box::new(acc.map_offsets(f)), x: Box::new(x.map_offsets(f)) }
            }
            Val::Obs { id, n, h, ctx } => Val::Obs { id: *id, n: *n, h: *h, ctx: Box::new(ctx.map_offsets(f)) },
            other => other.clone(),
        }
    }
    /// Ids of the drop-tracked values reachable from this value.
    pub fn tracked_ids(&self, out: &mut Vec<u32>) {
        match self {
            Val::Tr(t) => out.push(t.id),
            Val::Seq(v) => v.iter().for_each(|x| x.tracked_ids(out)),
            Val::Opt(Some(x)) => x.tracked_ids(out),
            Val::Pair(a, b) => {
                a.tracked_ids(out);
                b.tracked_ids(out)
            }
            Val::Tag(_, v) | Val::Node { v, .. } => v.tracked_ids(out),
            Val::FoldW { acc, x, .. } => {
                acc.tracked_ids(out);
                x.tracked_ids(out)
            }
            Val::Obs { ctx, .. } => ctx.tracked_ids(out),
            _ => {}
        }
    }
    pub fn show(&self) -> String {
        match self {
            Val::Unit => "()".into(),
            Val::Tok(c) => format!("{:?}", c),
            Val::Str(s) => format!("{:?}", s),
            Val::Num(n) => format!("{}", n),
            Val::Seq(v) => format!("[{}]", v.iter().map(|x| x.show()).collect::<Vec<_>>().join(",")),
            Val::Opt(None) => "None".into(),
            Val::Opt(Some(x)) => format!("Some({})", x.show()),
            Val::Pair(a, b) => format!("({},{})", a.show(), b.show()),
            Val::Tag(i, v) => format!("m{}({})", i, v.show()),
            Val::Node { id, lo, hi, v } => format!("#{}@{}..{}:{}", id, lo, hi, v.show()),
            Val::Slice { s, off } => format!("slice({:?}@{})", s, *off as i64),
            Val::Span(a, b) => format!("span({}..{})", a, b),
            Val::FoldW { lo, hi, acc, x, .. } => format!("fold@{}..{}({},{})", lo, hi, acc.show(), x.show()),
            Val::Fb(i) => format!("FALLBACK{}", i),
            Val::Obs { id, n, h, ctx } => format!("obs{}(n={},h={:x},ctx={})", id, n, h & 0xffff, ctx.show()),
            Val::Tr(t) => format!("{:?}", t),
        }
    }
}
