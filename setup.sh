#!/bin/bash
# Offline build of the harness profile used by the quick checks (the checks rebuild incrementally
# whenever /repo's working tree changed).
set -u
cd /verif/harness || exit 3
export CARGO_NET_OFFLINE=true CARGO_TERM_COLOR=never
mkdir -p /verif/target /verif/evidence /verif/replays
cargo build --offline 2>&1 | tail -3
test -x /verif/target/debug/cvh
