#!/bin/bash
# Offline build of the harness profile used by the quick checks (the checks rebuild incrementally
# whenever /repo's working tree changed).
set -u
ROOT=$(dirname "$(readlink -f "$0")")
cd $ROOT/harness || exit 3
export CARGO_NET_OFFLINE=true CARGO_TERM_COLOR=never
mkdir -p $ROOT/target $ROOT/evidence $ROOT/replays
cargo build --offline --target-dir $ROOT/target 2>&1 | tail -3
test -x $ROOT/target/debug/cvh
