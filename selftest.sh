#!/bin/bash
# Self-test of the monitors (not a manifest command).
#   ./selftest.sh one <patch> <Cxx> [tier]   apply <patch> to a scratch copy of /repo, build a scratch copy of the
#                                            harness against it, run the property's check; prints the verdict line
#   ./selftest.sh all                        every mutants/<Cxx>-*.patch and seeded/*/patch.diff against its property
#   ./selftest.sh clean                      remove the scratch area
# The scratch area lives in /root/scratch/selftest (outside /repo and /verif); /repo itself is never touched.
set -u
S=${SELFTEST_DIR:-/root/scratch/selftest}
export CARGO_NET_OFFLINE=true CARGO_TERM_COLOR=never
prep() {
  mkdir -p $S/repo $S/harness $S/out/evidence $S/out/replays
  rsync -a --delete --exclude target --exclude .git /repo/ $S/repo/
  # the committed harness (not the working tree, which may be mid-edit)
  rm -rf $S/harness.new && mkdir -p $S/harness.new && git -C /verif archive HEAD harness | tar -x -C $S/harness.new
  rsync -a --delete --checksum $S/harness.new/harness/ $S/harness/ && rm -rf $S/harness.new
  sed -i "s#path = \"/repo\"#path = \"$S/repo\"#" $S/harness/Cargo.toml
  sed -i "s#target-dir = \"/verif/target\"#target-dir = \"$S/target\"#" $S/harness/.cargo/config.toml
  cp /verif/known_findings.jsonl $S/out/ 2>/dev/null
}
one() {
  local patch=$1 prop=$2 tier=${3:-quick}
  prep
  if ! (cd $S/repo && patch -p1 -s --no-backup-if-mismatch < "$patch"); then echo "SELFTEST $prop $(basename $patch): PATCH-FAILED"; return 3; fi
  if ! (cd $S/harness && cargo build --offline >$S/build.log 2>&1); then tail -20 $S/build.log; echo "SELFTEST $prop $(basename $patch): BUILD-FAILED"; return 3; fi
  local t0=$(date +%s)
  CVH_HARNESS=$S/harness $S/target/debug/cvh run $prop --tier $tier --seed ${VERIF_SEED:-0} --root $S/out > $S/run.log 2>&1
  local code=$?
  local t1=$(date +%s)
  local v=$(grep -m1 '^violation:' $S/run.log | cut -c1-220)
  case $code in
    1) echo "SELFTEST $prop $(basename $(dirname $patch))/$(basename $patch): CAUGHT in $((t1-t0))s — $v";;
    0) echo "SELFTEST $prop $(basename $(dirname $patch))/$(basename $patch): MISSED (exit 0)";;
    *) echo "SELFTEST $prop $(basename $(dirname $patch))/$(basename $patch): INCONCLUSIVE (exit $code) $(tail -2 $S/run.log | tr '\n' ' ')";;
  esac
  return $code
}
# many <patch> <Cxx> <Cyy> ... : one build, several checks
many() {
  local patch=$1; shift
  prep
  # "-" = no patch: the unchanged tree (used for silence runs at other seeds / the thorough tier)
  if [ "$(basename $patch)" != "-" ]; then
    if ! (cd $S/repo && patch -p1 -s --no-backup-if-mismatch < "$patch"); then echo "SELFTEST $(basename $patch): PATCH-FAILED"; return 3; fi
  fi
  if ! (cd $S/harness && cargo build --offline >$S/build.log 2>&1); then tail -20 $S/build.log; echo "SELFTEST $(basename $patch): BUILD-FAILED"; return 3; fi
  for prop in "$@"; do
    local t0=$(date +%s)
    CVH_HARNESS=$S/harness $S/target/debug/cvh run $prop --tier ${TIER:-quick} --seed ${VERIF_SEED:-0} --root $S/out > $S/run.log 2>&1
    local code=$?
    local t1=$(date +%s)
    local v=$(grep -m1 '^violation:' $S/run.log | cut -c1-220)
    case $code in
      1) echo "SELFTEST $prop $(basename $(dirname $patch))/$(basename $patch): CAUGHT in $((t1-t0))s — $v";;
      0) echo "SELFTEST $prop $(basename $(dirname $patch))/$(basename $patch): MISSED (exit 0)";;
      *) echo "SELFTEST $prop $(basename $(dirname $patch))/$(basename $patch): INCONCLUSIVE (exit $code) $(tail -2 $S/run.log | tr '\n' ' ' | cut -c1-200)";;
    esac
  done
}
case "${1:-}" in
  one) one "$(realpath $2)" $3 ${4:-quick};;
  many) if [ "$2" = "-" ]; then p="-"; else p="$(realpath $2)"; fi; shift 2; many "$p" "$@";;
  all)
    for p in /verif/mutants/C*-*.patch; do
      [ -f "$p" ] || continue
      prop=$(basename $p | cut -d- -f1)
      one $p $prop quick
    done
    for d in /verif/seeded/*/; do
      [ -f "$d/patch.diff" ] || continue
      for prop in $(jq -r '.caught_by[]? // empty' $d/meta.json 2>/dev/null); do one $d/patch.diff $prop quick; done
    done
    ;;
  clean) rm -rf $S;;
  *) echo "usage: ./selftest.sh one <patch> <Cxx> [tier] | all | clean"; exit 3;;
esac
