#!/opt/veriftools/pyvenv/bin/python
import json, jsonschema, glob, sys
jsonschema.validate(json.load(open('/verif/MANIFEST.json')), json.load(open('/root/.vp/MANIFEST.schema.json')))
es = json.load(open('/root/.vp/EVIDENCE.schema.json'))
man = json.load(open('/verif/MANIFEST.json'))
bad = 0
for c in man['checks']:
    try:
        jsonschema.validate(json.load(open('/verif/' + c['evidence_file'])), es)
    except Exception as e:
        bad += 1
        print('BAD', c['property_id'], str(e)[:200])
print('manifest ok; evidence files bad:', bad)
sys.exit(1 if bad else 0)
