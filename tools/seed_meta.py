#!/usr/bin/env python3
"""Writes seeded/<id>/meta.json from the table below, seeded/<id>/confirm.json and the SELFTEST lines found in the
log files given on the command line (appended to seeded/<id>/selftest.log as history; the latest line per
(seed, property) decides `caught_by` / `missed_by`).

    tools/seed_meta.py [selftest logs ...]
"""
import json, os, re, sys
ROOT = '/verif/seeded'
# id -> (property, what it needs in order to manifest, note)
T = {
 'C01a': ('C01', "one_of/none_of with a *string-typed* token set (str/String/&str) and an input character in U+0080..U+00FF (Latin-1 char scanned as a raw UTF-8 byte)", "initially MISSED (builders only used Vec<char> sets); caught after token sets were generated in every container type (String, &'static str, arrays, BTreeSet, HashSet, RangeInclusive) with Latin-1/4-byte characters"),
 'C01b': ('C01', "not() around an inner parser that fails after consuming a prefix (multi-token just / then): the lookahead then consumes", ""),
 'C01c': ('C01', "not() whose inner parser matches >= 1 token and then fails, and the not() is not the second operand of and_is (rewind moved into the Ok arm)", "same site as C01b, different edit"),
 'C01d': ('C01', "choice over an array / Vec / slice (not a tuple) whose penultimate alternative partially matches before failing: no rewind before the last alternative", ""),
 'C02a': ('C02', "separated_by().allow_leading() with a multi-token separator and an input that starts with a proper prefix of the separator", ""),
 'C02b': ('C02', "repeated() with a static at_most/exactly *and* a configure() closure that does not set at_most, input with more items than the cap", "initially MISSED (configure closures always set both bounds); caught after adding mixed static/configure bound variants (MixedLo, MixedHi, ConfigureNoop)"),
 'C02c': ('C02', "separated_by with a multi-token separator that partially matches where the list ends (at_least <= count < at_most): the half-matched separator stays consumed", ""),
 'C02d': ('C02', "x.repeated().at_most(n) (n >= 1, no at_least) used directly as a unit parser (to_slice, ignored, then_ignore) on more than n items: fast path ignores the cap", ""),
 'C03a': ('C03', "Stream over an iterator whose size_hint lower bound is 0, input longer than 512 tokens (batch boundary): end of input reported early", "initially MISSED; caught after long inputs on hint-less streams were added"),
 'C03c': ('C03', "IoInput only: a sub-parser ran into the real end of input, failed and was backtracked out of, then >= 1 more token was read: end() sees a phantom end of input", "initially MISSED; caught after the byte-input family (IoInput / Stream<u8> clean accept iff the slice is cleanly accepted) was added to C03"),
 'C03d': ('C03', "Pratt: >= 2 infix operators, operator X followed by a later-declared operator Y then an operand (`1+-2`): the dangling operator's token is consumed by nothing and the input accepted", "same edit as C09c; C03 caught it only after the Pratt family was added"),
 'C04a': ('C04', "x.repeated() without bounds used as a unit parser whose item emits a secondary error and then fails in the final iteration (fast path keeps the emission)", "initially MISSED; caught after emitting items in unit repetitions were added"),
 'C04b': ('C04', "Parser::into_iter() consumed by collect_exactly in Check mode", "initially MISSED; caught by the API sweep"),
 'C04c': ('C04', "into_iter() run in Check mode yields zero items: collect_exactly (count-sensitive) fails in check() and under ignored/ignore_then/to_slice but succeeds in parse()", "same area as C04b, different edit"),
 'C04d': ('C04', "custom/Ext parser calling inp.check(&inner) where inner emits a secondary error and then fails: InputRef::check rewinds (truncating the emission), InputRef::parse does not", ""),
 'C05a': ('C05', "zero-width emitter (recovery via empty(), validate on an absent option) followed by a parser failing at the same position inside a backtracking combinator: rewind() early-returns when the cursor did not move", ""),
 'C05b': ('C05', "validate() as the outermost combinator of a boxed/recursive parser used where the output is discarded (check mode through dynamic dispatch)", ""),
 'C05c': ('C05', "rewind() fast path when the cursor is still at the checkpoint: skips truncating emitted errors and the inspector's on_rewind", "same idea as C05a"),
 'C05d': ('C05', "separated_by().allow_leading() whose leading-separator attempt fails after consuming/emitting (multi-part, padded or custom separator): not rewound", "same site as C02a"),
 'C06a': ('C06', "Rich only: a Rich::custom error raised at p, then a primitive failing further at q > p (replace_expected_found keeps the stale custom reason)", ""),
 'C06b': ('C06', "try_map whose inner parser succeeds leaving a pending failure at or behind the cursor, followed by a failure at exactly that position / positive lookahead", ""),
 'C06c': ('C06', "Rich only: a user error (try_map over a multi-token parser) merged at the same position after a non-custom failure with a different span: Rich takes the custom error's span, Cheap/Simple keep the first", ""),
 'C06d': ('C06', "map_err around a parser that succeeds cleanly (no alt of its own) while an earlier alternative's deeper failure is pending, then a failure before that position: the pending error is not restored", "initially MISSED by C06 (its class had no map_err); caught after labelled/as_context/map_err/memoized joined C06's sheltering sweep and random class; C17 caught it from the start"),
 'C07a': ('C07', "token inputs with their own spans (Input::map, Stream::map, IterInput): empty match at position 0 of a non-empty input", ""),
 'C07b': ('C07', "foldr_with with >= 2 prefix items: inner folds get the span of the whole expression", ""),
 'C07c': ('C07', "Input::map input: empty match at position 0 of a non-empty input gets the span eoi.end..eoi.end", "same as C07a"),
 'C07d': ('C07', "foldr_with with >= 2 left-hand items: every callback span starts at the first folded item", "same as C07b"),
 'C08a': ('C08', "skip_until with a multi-token `until` whose proper prefix overlaps the real match (no rewind after a failed until probe)", ""),
 'C08b': ('C08', "successful recovery that consumes nothing, next parser failing at the same position, enclosing backtracking combinator (rewind early return)", ""),
 'C08c': ('C08', "nested recovery / emitting validate inside p that succeeds, then p as a whole fails and the outer strategy succeeds: the inner emissions survive (rewind_input instead of rewind)", ""),
 'C08d': ('C08', "nested_delimiters with >= 2 `others` pairs and a region containing a non-last pair kind", "initially MISSED (the model fixed one `others` pair); caught after the bracket family (0..3 other pairs, varying main pair, independent bracket matcher) was added"),
 'C09a': ('C09', "postfix operator with the same power as a left-associative infix operator, applied to the infix operator's right operand", ""),
 'C09b': ('C09', ">= 2 infix operators, the first one's right operand missing: later operators are tried after the dangling operator", ""),
 'C09c': ('C09', ">= 2 infix operators, the dangling one declared first, input `lhs OP1 OP2 operand`: no rewind after the operand failed", "same as C09b"),
 'C09d': ('C09', "a prefix operator weaker than its enclosing context (rhs of a tighter infix / operand of a tighter prefix) followed by an operator of intermediate power: operand power clamped to min_power", ""),
 'C10a': ('C10', "IoInput only: and_is whose first operand consumed >= 2 bytes while the second stopped earlier (cursor restored forwards, reader not re-synchronised), then more parsing", "initially MISSED (the u8 family had no and_is with a long first operand); caught after 5 more u8 grammars were added"),
 'C10b': ('C10', "Graphemes input containing CR immediately followed by LF (ASCII fast path splits the cluster)", ""),
 'C10c': ('C10', "IoInput: forward cursor restore after and_is with a shorter lookahead (reseek only when cursor < last_cursor)", "same as C10a"),
 'C10d': ('C10', "Graphemes: ASCII fast path returns CR and LF as two clusters", "same as C10b"),
 'C11a': ('C11', "the same memoized instance run twice in one parse, first run failing after consuming >= 1 token, a later run starting exactly where the earlier one stopped (failed entry filed under the end position)", ""),
 'C11b': ('C11', "left-recursive grammar whose cycle passes through with_ctx / ignore_with_ctx / then_with_ctx", "initially MISSED; caught after left-recursive shapes through context boundaries were added"),
 'C11c': ('C11', "the same memoized object tried twice at one position (shared through boxed()/Rc/recursive) and failing there while another parser's error is pending at the same or a later position: a table hit discards the pending error", ""),
 'C11d': ('C11', "adjacent small memoized parsers (array elements of choice), input of >= 5 tokens, an earlier recovered failure: key = address ^ position collides", "initially MISSED (static placements ran on inputs <= 4 tokens); caught after adjacent memoized parsers over long inputs were added"),
 'C12a': ('C12', "Recursive::declare/define: a clone taken before define(), all strong handles dropped before parsing (mutually recursive partner)", ""),
 'C12b': ('C12', "Pratt right-associative infix chain of ~10^4+ links (no stack-growth guard on that path)", "initially MISSED; caught after Pratt chain depth shapes were added"),
 'C12c': ('C12', "declare/define parser run in Check mode (check(), to_slice(), ignored(), then_ignore) on deep nesting: stack guard dropped on the Check arm only", ""),
 'C12d': ('C12', "define() called a second time (panics as before) but the second definition is installed: survive the panic and use the parser / an earlier clone / the mutual partner", "initially INCONCLUSIVE (the harness itself died in the endless recursion of the installed r := r); caught after the post-define evaluation was guarded"),
 'C13a': ('C13', "recursive() parser used for >= 2 parses through the same value (or clones): an earlier parse leaves a failure memo inside the parser", ""),
 'C13b': ('C13', "regex() parser shared by threads parsing different inputs at the same time, or reused across inputs through a Cache: stale (address, offset) cache", ""),
 'C13c': ('C13', "explicit .clone() of a separated_by parser with asymmetric allow_leading/allow_trailing flags, input with a leading separator", ""),
 'C13d': ('C13', "threads only: two threads inside the same memoized sub-parser at the same offset at once (left-recursion marker kept in an atomic on the combinator)", ""),
 'C14a': ('C14', "regex pattern beginning with a look-behind-sensitive assertion (\\b, ^) run at a cursor position > 0", ""),
 'C14b': ('C14', "&[u8] input: control bytes 0x10..0x19 where digits/int look at them, byte - 0x10 < radix", ""),
 'C14c': ('C14', "ascii::keyword followed by a non-ASCII XID_Continue character (built on the Unicode ident), or a byte >= 0x80 on &[u8]", ""),
 'C14d': ('C14', "regex pattern that can match the empty string, cursor exactly at the end of input", ""),
 'C15a': ('C15', "configured repetition used as a plain (unit) Parser: to_slice / ignored / then_ignore / as separator", "initially MISSED; caught after configured repetitions as plain parsers were added"),
 'C15b': ('C15', "static bounds + configure() that sets other bounds: merged instead of replaced (at_most(2).configure(exactly(4)))", "initially MISSED; caught after contradictory static bounds overridden by configure were added"),
 'C15c': ('C15', "a configurable parser configured *by reference* ((&just(..)).configure(..)) run in Check mode: Check::invoke_cfg ignores the configuration", "initially MISSED; caught after the by-reference configure family was added"),
 'C15d': ('C15', "repetition configured from context with at_least/at_most that stops on an item failing after it consumed a token (lower bound met): not rewound", "initially MISSED; caught after ranged context-configured repetitions over items that fail after consuming were added"),
 'C16a': ('C16', "inner parser emits a non-fatal error, the same nested parse then fails, and the failure reaches the result", "initially MISSED; caught by the nested-vs-direct metamorphic monitor"),
 'C16b': ('C16', "nested parse fails while an outer alt is pending at the outer position after b", ""),
 'C16c': ('C16', "nested_in run in Check mode with trailing tokens in the inner input after what a matches (end() dropped on the Check arm)", ""),
 'C16d': ('C16', "inner grammar emits an error and succeeds without any failed attempt (no pending alt): emissions dropped by with_input", ""),
 'C17a': ('C17', "a pending alt further along than the final failure, and a labelled parser that succeeds cleanly in between", ""),
 'C17b': ('C17', "map_err-wrapped parser that fails after backtracking internally, with a competitor between its cursor and its furthest failure", ""),
 'C17c': ('C17', "labelled(..).as_context() failing past its first token while an earlier alternative left a pending error at the same position with a different span (keyword / try_map over an identifier)", ""),
 'C17d': ('C17', "map_err over a multi-token parser failing past its first token + a competing error between its start and the failure (mapped error filed back at the start)", ""),
 'C18a': ('C18', "InputRef::skip() (text::newline's CR branch, or custom parsers using skip) with a non-trivial inspector", "initially MISSED; caught after custom leaves using peek()+skip() were added"),
 'C18b': ('C18', "and_is whose second parser succeeds having consumed fewer tokens than the first (inspector not told about the reposition)", ""),
 'C18c': ('C18', ".padded() that skips >= 1 whitespace token followed by another token: skip_while feeds the terminating token to the inspector and only restores the cursor", "initially MISSED (no text parsers in the grammar AST); caught after the model-free API family (observations carry their own position) was added — the same family found the genuine defect fixed in 3a35b3d"),
 'C18d': ('C18', "backtracking over a region in which a secondary error was emitted (recover_with / validate) with a snapshot inspector: slow path of rewind() lost the on_rewind call", ""),
 'C19a': ('C19', "collect_exactly (Emit mode) whose iterator ends cleanly after >= 1 and < N items", ""),
 'C19b': ('C19', "zero-sized output type with a Drop impl in a partially filled fixed-size collection", "initially MISSED; caught after the zero-sized droppable value family was added"),
 'C19c': ('C19', "group([..; N]) with N >= 3 failing at index >= 2 in Emit mode with droppable outputs: only the first initialised output is dropped", ""),
 'C19d': ('C19', "collect_exactly whose iterator *fails* (at_least/exactly not met) after >= 1 stored element: drop_before runs twice", ""),
 'C20a': ('C20', "choice over an empty Vec/slice/array at run time directly under map_err / recover_with / custom inp.parse", "initially MISSED; caught after the empty run-time choice leaf was added"),
 'C20b': ('C20', "skip_then_retry_until around a parser containing another recovery/validate, input on which the retry succeeds with emissions forever", ""),
 'C20c': ('C20', "Pratt: a run of ~2000+ prefix operators (operand closure no longer goes through the stack-growth guard)", "initially MISSED; caught after the deep part (12 nesting/chain families on 1 MiB-stack threads) was added"),
 'C20d': ('C20', "into_iter().enumerate() consumed by collect/count/fold in a debug build: NONCONSUMPTION_IS_OK lost, false 'making no progress' panic", "initially MISSED; caught after the iterable-parser matrix (sources x adapters x drivers) was added"),
 'C01e': ('C01', "a.and_is(b) where both succeed and b consumes strictly more input than a (any().and_is(just(\"ab\"))): the reposition after the lookahead is skipped (guard `<` instead of `!=`)", ""),
 'C02e': ('C02', "an explicit .clone() of a separated_by(..).allow_trailing() list (or of a combinator wrapping it) and an input with a trailing separator: the hand-written Clone impl, rewritten with struct-update syntax, drops allow_trailing", "initially MISSED by C02 (nothing there cloned an iterable parser); caught after every repetition / separated list was also driven through an explicit .clone() of itself; C13's clone sweep caught it from the start"),
 'C03e': ('C03', "separated_by(..).allow_leading() with a separator that can fail after consuming (multi-token, padded, custom) and an input starting with a partial separator followed by a valid item: the failed leading separator is not rewound, tokens are matched by nothing", "same area as C02a/C05d, different edit"),
 'C04e': ('C04', "separated_by with a finite at_most/exactly used as a unit parser (to_slice / ignored / then_ignore, no collect) on an input where the n-th item is followed by another separator: the hand-rolled unit loop swallows that separator", "initially MISSED (the unit-vs-collect pairs had no bounds); caught after the pairs got bounds, all flag combinations and a visible remainder"),
 'C05e': ('C05', "not() around a parser that emits (validate / recovery) and then fails: Not repositions with rewind_input (keeps emissions) instead of rewind", ""),
 'C06e': ('C06', "nested_in after an earlier alternative that got past the group token and failed further along: NestedIn no longer shelters / re-prioritises the pending error, with_input overwrites it", "initially MISSED by C06 (nested_in was outside its sheltering sweep; C16 caught it from the start); caught by C06 after nested_in over two region shapes joined the sweep"),
 'C07e': ('C07', "Input::map / Stream::map / IterInput with an end-of-input span beyond the last token, and an explicit end() inside a captured parser: next() at end of input clears the remembered last-token end, the capture widens to the end-of-input span", ""),
 'C08e': ('C08', "skip_then_retry_until giving up because a *compound* `until` (choice / or / or_not.then) matched and left a pending error of its own at or beyond p's failure: the original error is merged (add_alt_err) instead of restored", ""),
 'C09e': ('C09', "a right-associative and a left-associative infix operator with the same binding power, the left-associative one inside the right operand (a*b+c): right(x) becomes (2x+1, 2x+1)", ""),
 'C10e': ('C10', "mapped (token, span) input whose end-of-input span lies beyond the last token: a failure at the end of the input after >= 1 consumed token is reported at the last token's end instead of the end-of-input span", "initially MISSED (the normalisation accepted any empty span between the last token and the end-of-input span also for errors); caught after end-of-input errors were required to carry the span the input was given"),
 'C11e': ('C11', "memoized parser failing on a fresh run after emitting a secondary error or consuming, the failure reaching the root through non-rewinding combinators: Memoized rewinds (truncating emissions / repositioning) where the plain parser does not", ""),
 'C12e': ('C12', "parse entered with very little native stack (thread with a small stack, or deep inside user recursion) and a few dozen nesting levels: the first 64 levels skip the stack-growth guard", "initially MISSED (towers ran on 512 KiB and, in a first attempt, 64 KiB stacks, which 64 optimised frames fit into); caught after towers on 24 KiB stacks were added"),
 'C13e': ('C13', "with_state parser entered in Check mode (check(), to_slice, ignored ...) whose state is modified during that pass, then the same value used again: the working copy parked in the combinator is only reset in Emit mode", ""),
 'C14e': ('C14', "&str input with a non-ASCII character whose low byte is an ASCII letter / digit / _ / CR / LF (e.g. U+0130, U+200D) in ascii::ident, ascii::keyword or newline: Char::to_ascii truncates before testing", ""),
 'C15e': ('C15', "a configured repetition whose effective bounds are contradictory (at_least > at_most, e.g. both read from the input) on an input with >= at_most items: next_cfg treats reaching the cap as an item failure, the static parser stops at the cap", "initially MISSED (contradictory bounds were outside every workload); caught after the configured-vs-static differential over every pair of bounds incl. at_least > at_most was added"),
 'C16e': ('C16', "an earlier alternative consumed the tree token as an opaque token, went >= 1 outer token further and failed; then the nested parse leaves a pending error: with_input's hand-written merge overwrites an outer error pending further along", "same area as C06e, different edit"),
 'C17e': ('C17', "labelled(..).as_context() failing past its first token with a Rich::custom error, then a plain primitive failing strictly further: replace_expected_found keeps the old context (`..self`)", ""),
 'C18e': ('C18', "regex() on &str whose match contains a multi-byte character and is followed by more tokens: skip_bytes feeds the inspector `skip` (bytes) tokens instead of the tokens up to the end of the match", "targets the repair 3a35b3d of the defect the API family found"),
 'C19e': ('C19', "collect_exactly::<[T; N]> over an iterator that fails right after yielding exactly N items (at_least(k) / exactly(k), k > N) in Emit mode: the extra poll returns early with a fully initialised array that nobody drops", "initially MISSED (no workload asked an iterable for more items than the array holds); caught after such cases joined the model class, the zero-sized family and the Container family"),
 'C20e': ('C20', "mutual recursion through declare/define where a handle was cloned before its rule was defined and the declared handle is dropped before parsing: the clone is weak, parse panics 'used before being defined'", ""),
 'C02f': ('C02', "foldr / foldr_with over >= 6 items with an order-sensitive folder: the small-buffer stack that replaced the per-fold Vec folds its spilled tail oldest-first", ""),
 'C04f': ('C04', "a bounded repeated() or a separated_by() in a unit position whose accepted items emitted secondary errors and whose minimum count is then missed, with no enclosing rewinding combinator: the unit loop now rewinds (truncating those errors) where collect() does not", ""),
 'C06f': ('C06', "the same memoized() instance attempted twice at one position and failing both times, another alternative failing further (or, for Rich, at the same position with other expectations) in between: a table hit assigns the recorded error over the pending one instead of merging it", "same area as C11c, different edit"),
 'C10f': ('C10', "IoInput over a reader that is not at offset 0 when IoInput::new is called (a header was read before) and a grammar that rewinds and reads again: re-synchronising with an absolute seek re-reads bytes from before the input", "initially MISSED (every reader started at offset 0); caught after readers that had already been read from were added"),
 'C15f': ('C15', "a context provider used directly as an iterable (hdr.ignore_with_ctx(items) / then_with_ctx driven item by item) on the right-hand side of an iterable then-chain whose left part consumes >= 1 token: Then::make_iter creates both halves eagerly, the header is read at the wrong place", "initially MISSED (providers were only used at parser level); caught after context providers as iterables, alone and chained, were compared with the parser-level formulation"),
 'C19f': ('C19', "collect_exactly::<Box<[T; N]>> (boxed array only) abandoned after >= 1 and < N stored elements with a destructor, in Emit mode: NEEDS_DROP is computed from the uninitialised container type and is always false for the boxed array", ""),
}
latest = {}
hist = {}
for f in sys.argv[1:]:
    for line in open(f, errors='replace'):
        m = re.match(r'SELFTEST (C\d\d) (C\d\d[a-z])/patch\.diff: (CAUGHT|MISSED|INCONCLUSIVE)', line)
        if m:
            latest[(m.group(2), m.group(1))] = m.group(3)
            hist.setdefault(m.group(2), []).append(line.strip()[:400])
for sid, (prop, needs, note) in sorted(T.items()):
    d = os.path.join(ROOT, sid)
    if not os.path.isdir(d):
        continue
    conf = json.load(open(os.path.join(d, 'confirm.json'))) if os.path.exists(os.path.join(d, 'confirm.json')) else {}
    lp = os.path.join(d, 'selftest.log')
    old = open(lp).read().strip().splitlines() if os.path.exists(lp) else []
    new = [l for l in hist.get(sid, []) if l not in old]
    if new:
        open(lp, 'a').write('\n'.join(new) + '\n')
    st = old + new
    # latest verdict per property over the whole history (later lines win)
    verdict = {}
    for l in st:
        m = re.match(r'SELFTEST (C\d\d) \S+: (CAUGHT|MISSED|INCONCLUSIVE)', l)
        if m:
            verdict[m.group(1)] = m.group(2)
    meta = {
        'id': sid, 'breaks_property': prop, 'origin': 'independent sub-agent given only the property text and a scratch worktree of /repo',
        'needs_to_manifest': needs,
        'confirmed_by_me': conf,
        'what_i_ran': [
            'tools/seed_intake.sh %s %s  (scratch worktree /tmp/wt-verify*: demo passes without the change, fails with it; cargo test --workspace passes with it)' % (prop, sid[-1]),
            './selftest.sh one|many seeded/%s/patch.diff <Cxx> quick  (scratch copy of /repo + the committed harness under /root/scratch/)' % sid,
        ],
        'caught_by': sorted(p for p, v in verdict.items() if v == 'CAUGHT'),
        'missed_by': sorted(p for p, v in verdict.items() if v != 'CAUGHT'),
        'selftest_history': st,
        'note': note,
    }
    json.dump(meta, open(os.path.join(d, 'meta.json'), 'w'), indent=1, ensure_ascii=False)
print('meta written for', sum(1 for s in T if os.path.isdir(os.path.join(ROOT, s))), 'seeds')
