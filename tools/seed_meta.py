#!/usr/bin/env python3
"""Writes seeded/<id>/meta.json from the table below + the intake logs."""
import json, os, re, sys
ROOT = '/verif/seeded'
T = {
 'C01a': ('C01', "one_of/none_of with a *string-typed* token set (str/String/&str) and an input character in U+0080..U+00FF (Latin-1 char scanned as a raw UTF-8 byte)", ['C01'], "initially MISSED (builders only used Vec<char> sets); caught after token sets were generated in every container type (String, &'static str, arrays, BTreeSet, HashSet, RangeInclusive) with Latin-1/4-byte characters"),
 'C01b': ('C01', "not() around an inner parser that fails after consuming a prefix (multi-token just / then): the lookahead then consumes", ['C01'], ""),
 'C02a': ('C02', "separated_by().allow_leading() with a multi-token separator and an input that starts with a proper prefix of the separator", ['C02'], ""),
 'C02b': ('C02', "repeated() with a static at_most/exactly *and* a configure() closure that does not set at_most, input with more items than the cap", ['C02'], "initially MISSED (configure closures always set both bounds); caught after adding mixed static/configure bound variants (MixedLo, MixedHi, ConfigureNoop)"),
 'C05a': ('C05', "zero-width emitter (recovery via empty(), validate on an absent option) followed by a parser failing at the same position inside a backtracking combinator: rewind() early-returns when the cursor did not move", ['C05', 'C08'], ""),
 'C05b': ('C05', "validate() as the outermost combinator of a boxed/recursive parser used where the output is discarded (check mode through dynamic dispatch)", ['C05'], ""),
 'C06a': ('C06', "Rich only: a Rich::custom error raised at p, then a primitive failing further at q > p (replace_expected_found keeps the stale custom reason)", ['C06'], ""),
 'C06b': ('C06', "try_map whose inner parser succeeds leaving a pending failure at or behind the cursor, followed by a failure at exactly that position / positive lookahead", ['C06'], ""),
 'C07a': ('C07', "token inputs with their own spans (Input::map, Stream::map, IterInput): empty match at position 0 of a non-empty input", ['C07'], ""),
 'C07b': ('C07', "foldr_with with >= 2 prefix items: inner folds get the span of the whole expression", ['C07'], ""),
 'C08a': ('C08', "skip_until with a multi-token `until` whose proper prefix overlaps the real match (no rewind after a failed until probe)", ['C08'], ""),
 'C08b': ('C08', "successful recovery that consumes nothing, next parser failing at the same position, enclosing backtracking combinator (rewind early return)", ['C08', 'C05'], ""),
 'C09a': ('C09', "postfix operator with the same power as a left-associative infix operator, applied to the infix operator's right operand", ['C09'], ""),
 'C09b': ('C09', ">= 2 infix operators, the first one's right operand missing: later operators are tried after the dangling operator", ['C09'], ""),
 'C10a': ('C10', "IoInput only: and_is whose first operand consumed >= 2 bytes while the second stopped earlier (cursor restored forwards, reader not re-synchronised), then more parsing", ['C10'], "initially MISSED (the u8 family had no and_is with a long first operand); caught after 5 more u8 grammars were added (forward cursor restores, keyword idiom, rewind after long match, nested choices, skip_then_retry_until)"),
 'C10b': ('C10', "Graphemes input containing CR immediately followed by LF (ASCII fast path splits the cluster)", ['C10'], ""),
}
for sid, (prop, needs, caught, note) in T.items():
    d = os.path.join(ROOT, sid)
    if not os.path.isdir(d):
        continue
    conf = json.load(open(os.path.join(d, 'confirm.json'))) if os.path.exists(os.path.join(d, 'confirm.json')) else {}
    st = open(os.path.join(d, 'selftest.log')).read().strip().splitlines() if os.path.exists(os.path.join(d, 'selftest.log')) else []
    meta = {
        'id': sid, 'breaks_property': prop, 'origin': 'independent sub-agent given only the property text and a scratch worktree of /repo',
        'needs_to_manifest': needs,
        'confirmed_by_me': conf,
        'what_i_ran': [
            'tools/seed_intake.sh %s %s  (scratch worktree /tmp/wt-verify: demo passes without the change, fails with it; cargo test --workspace passes with it)' % (prop if len(sid)==4 else sid[:-1], sid[-1]),
            './selftest.sh one seeded/%s/patch.diff <Cxx> quick  (scratch copy of /repo + harness under /root/scratch/selftest)' % sid,
        ],
        'caught_by': caught,
        'selftest_history': st,
        'note': note,
    }
    json.dump(meta, open(os.path.join(d, 'meta.json'), 'w'), indent=1, ensure_ascii=False)
    print(sid, 'ok')
