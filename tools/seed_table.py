#!/usr/bin/env python3
"""Regenerates the table of seeded changes in DESIGN.md (between the SEED-TABLE markers) from seeded/*/meta.json."""
import json, os, re, glob
rows = []
for d in sorted(glob.glob('/verif/seeded/*/')):
    sid = os.path.basename(d.rstrip('/'))
    mp = os.path.join(d, 'meta.json')
    if not os.path.exists(mp):
        rows.append((sid, '?', 'no meta yet', '', ''))
        continue
    m = json.load(open(mp))
    caught = ', '.join(m.get('caught_by', [])) or '—'
    missed = ', '.join(p for p in m.get('missed_by', []) if p not in m.get('caught_by', []))
    first = 'first run' if not m.get('note', '').lower().startswith('initially') else 'after strengthening'
    what = ''
    for l in reversed(m.get('selftest_history', [])):
        mm = re.search(r'CAUGHT in (\d+)s — violation: (.*)', l)
        if mm:
            what = mm.group(2)[:150].replace('|', '/')
            break
    rows.append((sid, m['breaks_property'], m['needs_to_manifest'].replace('|', '/'), caught + (' (missed by ' + missed + ')' if missed else ''), first, what))
out = ['| seed | property | needs, in order to manifest | caught by (quick tier) | when | what the check reported (abridged) |', '|---|---|---|---|---|---|']
for r in rows:
    r = list(r) + [''] * (6 - len(r))
    out.append('| ' + ' | '.join(r) + ' |')
n = len(rows)
c = sum(1 for r in rows if len(r) > 3 and r[3] and not r[3].startswith('—'))
out.append('')
out.append(f'{c} of {n} kept seeded changes are caught by the quick tier of the check of the property they break.')
s = open('/verif/DESIGN.md').read()
a, b = '<!-- SEED-TABLE-BEGIN -->', '<!-- SEED-TABLE-END -->'
i, j = s.index(a) + len(a), s.index(b)
open('/verif/DESIGN.md', 'w').write(s[:i] + '\n' + '\n'.join(out) + '\n' + s[j:])
print(c, 'of', n)
