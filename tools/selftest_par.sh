#!/bin/bash
# tools/selftest_par.sh <workers> <jobfile>     jobfile lines: "<seed-or-mutant patch path> <Cxx> [<Cyy> ...]"
# Runs `selftest.sh many` for every line, <workers> at a time, each worker in its own scratch area
# (/root/scratch/st<k>); prints the SELFTEST lines.  Set CVH_NO_SAN=1 to skip the sanitizer jobs.
set -u
W=$1; F=$2
n=$(wc -l < $F)
for k in $(seq 1 $W); do
  (
    i=$k
    while [ $i -le $n ]; do
      line=$(sed -n "${i}p" $F)
      [ -n "$line" ] && SELFTEST_DIR=/root/scratch/st$k /verif/selftest.sh many $line 2>&1 | grep SELFTEST | cut -c1-300
      i=$((i+W))
    done
  ) &
done
wait
