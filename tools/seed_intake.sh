#!/bin/bash
# tools/seed_intake.sh <Cxx> <a|b> [extra props to also run...]
# Confirms a sub-agent's seeded change independently (scratch worktree /tmp/wt-verify): existing tests pass with it,
# the demo fails with it and passes without it; then runs the property's quick check against it (selftest.sh) and
# stores everything under /verif/seeded/<Cxx><a|b>/.
set -u
prop=$1; v=$2; shift 2
src=${WT_PREFIX:-/tmp/wt-}$prop/SEEDED/$v
id=${prop}${v}
out=/verif/seeded/$id
W=/tmp/wt-verify${LANE:+-$LANE}
export SELFTEST_DIR=/root/scratch/selftest${LANE:+-$LANE}
export CARGO_NET_OFFLINE=true CARGO_TERM_COLOR=never
[ -f $src/patch.diff ] || { echo "$id: no patch"; exit 3; }
if [ ! -d $W ]; then git -C /repo worktree add --detach $W HEAD -q; fi
git -C $W checkout -q --detach $(git -C /repo rev-parse HEAD); git -C $W checkout -- . ; rm -f $W/tests/seeded_demo.rs
mkdir -p $out $W/tests
cp $src/patch.diff $out/patch.diff; cp $src/demo.rs $out/demo.rs; cp $src/notes.md $out/notes.md 2>/dev/null
FEAT="--features memoization,pratt,regex,either,extension,unstable"
log=$out/intake.log; : > $log
# without the change: demo passes
cp $src/demo.rs $W/tests/seeded_demo.rs
(cd $W && cargo test --offline $FEAT --test seeded_demo >>$log 2>&1); demo_without=$?
# with the change
if ! git -C $W apply $src/patch.diff; then echo "$id: patch does not apply"; exit 3; fi
(cd $W && cargo test --offline $FEAT --test seeded_demo >>$log 2>&1); demo_with=$?
rm -f $W/tests/seeded_demo.rs
(cd $W && cargo test --workspace --no-fail-fast --offline >>$log 2>&1); suite=$?
npass=$(grep -E "^test result: ok\. [0-9]+ passed" $log | tail -2 | head -1 | sed -E 's/.*ok\. ([0-9]+) passed.*/\1/')
git -C $W checkout -- .
echo "$id: demo_without_change_exit=$demo_without demo_with_change_exit=$demo_with existing_suite_exit=$suite (unit tests passed: $npass)"
if [ $demo_without -ne 0 ] || [ $demo_with -eq 0 ] || [ $suite -ne 0 ]; then echo "$id: NOT CONFIRMED"; echo '{"confirmed": false}' > $out/confirm.json; exit 1; fi
echo "{\"confirmed\": true, \"demo_without_change_exit\": $demo_without, \"demo_with_change_exit\": $demo_with, \"existing_suite_exit\": $suite}" > $out/confirm.json
# our checks
for p in $prop "$@"; do
  /verif/selftest.sh one $out/patch.diff $p quick | tee -a $out/selftest.log
done
