#!/bin/bash
# tools/intake_queue.sh C03 C16 ...   run seed_intake for both variants of each property, serialised by a lock
exec 9>/tmp/intake.lock
flock 9
for p in "$@"; do for v in a b; do /verif/tools/seed_intake.sh $p $v > /tmp/intake_${p}${v}.log 2>&1; tail -3 /tmp/intake_${p}${v}.log >> /tmp/intake_summary.log; done; done
