#!/bin/bash
# tools/intake_queue.sh <variants e.g. "c d"> C03 C16 ...   run seed_intake for the given variants of each property,
# serialised by a lock per LANE (each lane has its own scratch worktree and selftest area).  WT_PREFIX selects the sub-agents' worktrees.
exec 9>/root/scratch/intake${LANE:+-$LANE}.lock
flock 9
vs=$1; shift
for p in "$@"; do for v in $vs; do /verif/tools/seed_intake.sh $p $v > /root/scratch/intake_${p}${v}.log 2>&1; tail -3 /root/scratch/intake_${p}${v}.log | cut -c1-400 >> /root/scratch/intake_summary.log; done; done
