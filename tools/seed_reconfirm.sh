#!/bin/bash
# tools/seed_reconfirm.sh <worker-no> <id>...   re-confirm kept seeded changes against /repo's current HEAD:
# patch applies, demo passes without it and fails with it, existing suite passes with it.  Scratch
# worktree /tmp/wt-reconfirm-<worker-no> (removed by the caller).  Writes seeded/<id>/confirm.json.
set -u
k=$1; shift
W=/tmp/wt-reconfirm-$k
export CARGO_NET_OFFLINE=true CARGO_TERM_COLOR=never
head=$(git -C /repo rev-parse --short HEAD)
[ -d $W ] || git -C /repo worktree add --detach $W HEAD -q
git -C $W checkout -q --detach $head; git -C $W checkout -- . ; rm -rf $W/tests
FEAT="--features memoization,pratt,regex,either,extension,unstable"
for id in "$@"; do
  d=/verif/seeded/$id
  log=$d/intake.log; : > $log
  mkdir -p $W/tests; cp $d/demo.rs $W/tests/seeded_demo.rs
  (cd $W && cargo test --offline $FEAT --test seeded_demo >>$log 2>&1); without=$?
  if ! git -C $W apply $d/patch.diff 2>>$log; then echo "$id: PATCH DOES NOT APPLY at $head"; echo "{\"confirmed\": false, \"reason\": \"patch does not apply\", \"repo_head\": \"$head\"}" > $d/confirm.json; git -C $W checkout -- .; rm -rf $W/tests; continue; fi
  (cd $W && cargo test --offline $FEAT --test seeded_demo >>$log 2>&1); with=$?
  rm -rf $W/tests
  (cd $W && cargo test --workspace --no-fail-fast --offline >>$log 2>&1); suite=$?
  git -C $W checkout -- .
  ok=false; [ $without -eq 0 ] && [ $with -ne 0 ] && [ $suite -eq 0 ] && ok=true
  echo "$id: confirmed=$ok demo_without=$without demo_with=$with suite=$suite at $head"
  echo "{\"confirmed\": $ok, \"demo_without_change_exit\": $without, \"demo_with_change_exit\": $with, \"existing_suite_exit\": $suite, \"repo_head\": \"$head\"}" > $d/confirm.json
done
