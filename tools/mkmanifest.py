#!/usr/bin/env python3
"""Regenerates /verif/MANIFEST.json from the table below (one entry per claimed property).
Properties of properties.jsonl that have no entry are listed under not_applicable with the reason
given in NOT_CLAIMED (or a generic one)."""
import json, os, sys

ROOT = os.path.dirname(os.path.dirname(os.path.abspath(__file__)))

# id -> (engine, technique, level text, level note, design ref)
CLAIMED = {}


def claim(pid, engine, technique, text, note, ref):
    CLAIMED[pid] = dict(engine=engine, technique=technique, text=text, note=note, ref=ref)


MODEL_NOTE = ("Trusted: the reference PEG interpreter in harness/src/model.rs (written from the property statement, "
              "DESIGN Appendix B), the AST->parser builders in harness/src/mk.rs, and the lenient spots / pins of DESIGN §4.5. "
              "Says nothing about grammars, inputs or input kinds that were not executed; counts are in the evidence file.")

claim("C01", "E1 model",
      "runtime monitoring: reference-model monitor (independent PEG interpreter) over executions of the real parsers, exhaustive small grammars x inputs + seeded random",
      "Every grammar of the C01 class up to a node bound x every input up to a length bound (and random larger ones, multi-byte text) is executed through the real boxed combinators; acceptance, output value, the extent of every sub-parser (map_with span at every node), zero-width probe positions and the inspector state are compared with an independent PEG interpreter. Held on the executions counted in the evidence; not a proof.",
      MODEL_NOTE, "DESIGN §5 C01")
claim("C02", "E1 model",
      "runtime monitoring: reference-model monitor over all bound/flag/flavour combinations of repeated()/separated_by(), exhaustive small + random long inputs",
      "All (at_least, at_most | exactly) in 0..4 x allow_leading/allow_trailing x 8 collection flavours x folds x static/configure bounds x small item/separator grammars x all inputs up to the bound, plus long random inputs: item sequence, fold order (non-commutative fold), count and the unconsumed remainder are compared with the reference semantics. Every second input once more with the iterable parser driven through an explicit .clone() of itself.",
      MODEL_NOTE + " A1/A2 (separator at at_most with allow_trailing; lone leading separator) are compared leniently and counted as ambiguous.", "DESIGN §5 C02")
claim("C03", "E1 model",
      "runtime monitoring: result-contract assertions on every ParseResult + reference-model monitor for whole-input / one-token-extension / lazy-prefix",
      "For every executed case: an error-free result implies the reference grammar matches the entire input; each accepted input extended by every single token is re-parsed and must be rejected unless the reference accepts the extension; lazy() accepts exactly inputs with a reference-accepted prefix; accessor consistency of ParseResult (has_output/has_errors/into_result/into_output_errors) is asserted on every result.",
      MODEL_NOTE, "DESIGN §5 C03")
claim("C04", "E2 differential",
      "runtime monitoring: differential monitor between real executions (parse vs check; elided vs value-building formulations), consumption observed by zero-width probes and an Inspector",
      "parse() and check() are run on the same parser value for every grammar of a broad class (incl. recovery, validation, labels, memoization, Ext with a check path, state and context) x all small inputs and random ones: acceptance, the full Rich error list, final inspector state and the probe trace must be identical; paired formulations (ignore_then/then_ignore/padded_by/delimited_by/ignored/to/to_span/to_slice/unit repetition/Ext vs custom) must agree in both modes.",
      "Model-free: both sides are real executions, so a defect common to both modes is invisible here (C01/C05/C06 look at that). Trusted: the builders and observers of the harness.", "DESIGN §5 C04")
claim("C09", "E3 pratt",
      "runtime monitoring: reference-model monitor (textbook binding-power loop) over executions of atom.pratt(ops) for all small operator tables x all short token strings + random",
      "All operator tables with <= 2 operators (4 kinds x symbols x powers) and a sample of larger ones x all token strings up to the bound, in Vec, boxed-tuple and plain-tuple table representations: the parenthesised tree, the unconsumed remainder and the flattening are compared with a 40-line textbook precedence-climbing reference.",
      "Trusted: the textbook reference in harness/src/prattk.rs with the power mapping pinned as P4 (left(x)=(2x,2x+1), right(x)=(2x+1,2x)).", "DESIGN §5 C09")

claim("C05", "E1 model",
      "runtime monitoring: reference-model monitor over the ordered list of reported non-fatal errors, inspector state and probe observations, for emitters/recoveries placed on abandoned and kept paths",
      "Grammars with validate emitters and recover_with nodes at arbitrary positions (exhaustive small, 20 abandoning/keeping context shapes around every emitter subtree, random larger) x all small inputs, in parse and check mode: the reported error list of every parse that has an output must be exactly the emissions of the surviving path of the reference evaluation, in order; final inspector state and the state seen at every zero-width probe must equal the fold of the consumed tokens.",
      MODEL_NOTE + " A3: emissions of and_is' second parser may or may not appear.", "DESIGN §5 C05")
claim("C06", "E1 model + E2 differential",
      "runtime monitoring: reference-model monitor of the last reported error of every rejected input (position, span, expected set, user error, found) + cross-error-type differential (Rich/Simple/Cheap/EmptyErr) between real executions",
      "Every grammar of the C01/C02 class without not() up to a node bound x all small inputs (+ sheltering sweep + random multi-byte): the last reported error is judged (a) against the input alone, (b) against the furthest failure position of the reference evaluation, (c) on the merged expected set / preserved user error, (d) across the four error types. nested_in (two region shapes) is part of the sheltering sweep; errors raised inside a nested input are exempt from the found-vs-input clause (A6).",
      MODEL_NOTE + " Known finding D3 (found of a filter rejection) is reported as KNOWN-FINDING by signature.", "DESIGN §5 C06")
claim("C08", "E1 model",
      "runtime monitoring: reference-model monitor over executions of recover_with (all four strategies, nested, after deeper failures, in repetitions), valid and invalid inputs",
      "Grammars with 1..2 recovery nodes (exhaustive small), shaped placements of every strategy, bracket languages for nested_delimiters and random larger grammars x all small inputs, parse and check: transparent where p succeeds; exactly one extra error equal to the model's pending primary error on recovery; same error and no consumption on double failure; minimal skip count; retry-after-each-skip; one balanced region (independent bracket matcher); no fallback marker in error-free results. Model-free bracket family: nested_delimiters with 0..3 other pairs and varying main pair (statically typed) x all strings over the eight delimiters + random mostly-balanced strings, against an independent bracket matcher (items, remainder, one error per recovered region).",
      MODEL_NOTE + " P1/P3 pins, A9 leniency.", "DESIGN §5 C08")
claim("C17", "E2 differential + E1 model",
      "runtime monitoring: differential monitor between real executions (decorated vs undecorated grammar, every subset of nodes) + reference-model monitor of the label/context/map_err content of reported errors",
      "labelled / labelled.as_context / span-preserving map_err inserted at every subset of nodes of every small grammar (and sampled subsets of shaped and random ones) x all small inputs: acceptance, outputs, number of errors and every span must equal the undecorated run's; the decorated run's errors must carry the label in place of expectations at the first token, inner expectations + context further in, and the map_err mark on exactly its parser's failures.",
      MODEL_NOTE + " Known finding D14 (decoration around a recover_with shelters the outer pending error) is reported as KNOWN-FINDING by signature.", "DESIGN §5 C17")

claim("C07", "E1 model",
      "runtime monitoring: reference-model monitor over span + slice captures at every node (slice text and address), on contiguous and gapped-span input kinds",
      "Every node of every small C01/C02-class grammar is wrapped in a map_with capture of span and slice, on &str (byte offsets, multi-byte text), &[char], Stream, and gapped-span kinds (Input::map over a slice, Stream::map, IterInput): every extent, every empty-match span, slice text and slice address (zero-copy), fold callback spans, spans handed to validate/try_map closures and zero-width probe spans are compared with the reference evaluation. Model-free API family: InputRef::{span_since, span_from, slice, slice_since, slice_from}, MapExtra::{span, slice}, to_span, to_slice against the caller's buffer (address and length), &str and &[char].",
      MODEL_NOTE, "DESIGN §5 C07")

claim("C10", "E2 differential + E1 model",
      "runtime monitoring: differential monitor between real executions of one grammar on one token sequence in 14 input representations (normalised by the documented re-basing), each also against the reference model; pull-log monitor on a counting iterator under Stream; Graphemes vs whole-string segmentation",
      "&[char] is the reference; &str, &[char;N], Stream (plain, boxed, exact-size boxed, counting), IterInput, mapped (token,span) slice, Stream::map, with_context, map_span are normalised to token indices and compared field by field (acceptance, outputs with extents, every error, state, probe trace); inputs of 511..1301 tokens with alternatives failing across the 512-token batch; the counting iterator must be pulled 0,1,2,.. exactly once each; u8 grammars on &[u8] / IoInput / Stream / array; Graphemes tokens and spans against unicode-segmentation. A primitive failure at the end of a (token, span) input must carry exactly the end-of-input span the input was given; IoInput is also built over readers that have already been read from.",
      MODEL_NOTE + " IterInput only implements Input, so its leaf basis is restricted.", "DESIGN §5 C10")

claim("C16", "E1 model + independent recogniser",
      "runtime monitoring: reference-model monitor over executions of a.nested_in(b.to_slice()) at arbitrary positions and nesting on three input kinds + token-tree family (spanned tokens, depth <= 4) against an independent recursive recogniser",
      "Grammars with nested_in (exhaustive small, shaped, random) on &[char], &str and a gapped-span mapped slice, parse and check: inner grammar sees exactly b's tokens, must match completely, outer advances by b's extent, inner emissions and inner failure surface, enclosing choices/repetitions backtrack over a failed nested parse, inspector state continues; random token trees parsed by a recursive nested_in grammar (strict and with a fallback alternative) vs an independent recogniser.",
      MODEL_NOTE + " A6: spans of errors produced inside a nested input are not compared.", "DESIGN §5 C16")

claim("C18", "E1 model + model-free position-carrying observations",
      "runtime monitoring: reference-model monitor over inspector-state observations made at every node (map_with), in select closures, fold callbacks and zero-width probes, with a snapshot-checkpoint Inspector, on &str, &[char] and Stream; plus a model-free invariant monitor in which every observation (map_with / validate / fold / select! / Pratt callbacks, zero-width custom probes in both modes and on abandoned paths) carries its own position and must equal the fold of input[..position], over 52 statically typed parsers outside the grammar AST (text::*, regex, string just, recoveries, Pratt, hand-driven InputRef)",
      "Every observation of the user state must equal the fold of exactly the tokens before the observation point (per with_state scope), the final state the fold of the whole input — across backtracking, lookahead and all recovery strategies; with_state scopes inside repetitions, abandoned alternatives, recovery, nested with_state. Exhaustive small grammars x inputs, shaped placements, random larger ones; parse and check mode (probes observe in check mode). API family: state == fold(input[..position]) at every observation and fold(whole input) after every parse with output, on all strings <= 4/5 over nine characters + random word strings as &str, &[char] and Stream.",
      MODEL_NOTE + " The API family trusts only the Insp fold and the position reported by span()/span_since(). Pratt fold callbacks observing the state are part of the C09 driver.", "DESIGN §5 C18")

claim("C15", "E1 model",
      "runtime monitoring: reference-model monitor over context observations made at every node, in probes, select closures and fold callbacks, and over the behaviour of parsers configured from context",
      "Grammars with context providers (with_ctx, map_ctx, then_with_ctx, ignore_with_ctx) and readers (configure(seq), configure(exactly), try_configure with an error case, probes), exhaustive small + hand-listed families (length-prefixed incl. a^n b^n, delimiter-echo, indentation-like, nested/shadowing providers, providers in repetitions/choices/recursion) + random: every observation must equal the value supplied by the nearest enclosing provider for this attempt; configured parsers must accept exactly what the reference semantics of the static configuration accepts. Statically typed model-free families: configure by reference vs owned vs static; every pair of bounds in 0..4 (incl. at_least > at_most) configured vs static; context providers as iterables (alone and chained behind other iterables) vs the parser-level formulation.",
      MODEL_NOTE, "DESIGN §5 C15")

claim("C11", "E2 differential + E1 model + E6 process",
      "runtime monitoring: differential monitor between real executions (memoized() at every subset of nodes vs plain grammar), reference-model monitor of each memoized run, statically typed placements, and a child-process monitor with a logical step budget for left-recursive grammars",
      "memoized() at every subset of nodes of every small grammar (sampled subsets, doubly memoized nodes for random ones) must leave acceptance, outputs and the full error list identical to the plain grammar; statically typed zero-sized / nested / adjacent / cloned memoized parsers against their plain formulation, incl. adjacent small memoized parsers (array / tuple elements) over all inputs <= 7/8 tokens and random inputs <= 48 tokens; five left-recursive shapes with a memoized recursive step on all short inputs must return a ParseResult within 10^7 logical steps in a child process (a crash or stack overflow kills only the child and is reported).",
      MODEL_NOTE + " Known finding D6 (memo key = position + address) is reported as KNOWN-FINDING by signature; for left recursion only termination is judged.", "DESIGN §5 C11")

claim("C12", "E1 model + E2 differential + E6 process + E7 sanitizer",
      "runtime monitoring: reference-model monitor (the model's reference rule is the unrolling) and real-vs-real differential against the explicit unrolling for generated recursive definitions; handle-juggling family against a hand recogniser; child-process monitor (exit status / signal / RSS / watchdog) for nesting depth on a 512 KiB thread stack; panic-location monitor for a second define(); Miri on a small-depth slice",
      "Guarded recursive definitions (recursive() and declare/define, single and mutually recursive, 5 reference shapes) exhaustively for small bodies x all small inputs and randomly for larger ones are compared with the reference model at every recursion level and with their explicit unrolling; 11 clone/box/Rc/Either/drop orders of handles; 7 nesting shapes (incl. Pratt prefix chains, Pratt with recursive atoms, memoized recursion, mutual recursion through boxed()) parsed at depths up to 10^6 in child processes on a 512 KiB stack; a second define() must panic naming the caller's site and leave the first definition intact. Depth towers also on 24 KiB and 64 KiB thread stacks (depths 60 / 300 / 10^4).",
      MODEL_NOTE + " 'Limited by memory' is shown up to 10^6 levels only; Miri runs without stacker (psm is FFI).", "DESIGN §5 C12")
claim("C13", "E2 differential + E7 sanitizer",
      "runtime monitoring: history monitor (k-th result through one parser value vs a freshly built parser) over all short (input, parse|check) histories through 10 wrapper kinds and Cache; thread monitor (results of 2..8 threads sharing Send+Sync parsers vs the sequential reference, start/finish event log through an atomic clock); Miri data-race detector with several scheduler seeds, TSan in the thorough tier",
      "For generated grammars (recovery, validation, labels, memoization, state, context, recursion) every history of (input, parse|check) steps up to a bound is driven through ONE parser value, consecutive steps through different wrappers (original, clone, &, &&, Box, Rc, Arc, boxed(), Either::Left/Right, a held Rc): acceptance, outputs, full error list, inspector state, probe trace and logical step count of the k-th parse must equal a fresh parser's; Cache::get() at a new input lifetime per step; 2..8 threads share Arc<dyn Parser + Send + Sync> parsers and a static Cache and must each see the sequential results.",
      "Model-free (real vs real). Schedules are those the runs produce natively, under Miri's seeded scheduler and under TSan; no exhaustive schedule enumeration. Boxed/Recursive are Rc-based, so the thread workload uses statically typed parsers.", "DESIGN §5 C13")
claim("C14", "E4 text recognisers",
      "runtime monitoring: reference-recogniser monitor (longest-match recognisers written from the documentation with std char predicates and unicode-ident; anchored regex-automata search invoked directly) over executions of every text parser on all short strings over a hostile alphabet + random Unicode, on &str and &[u8]",
      "int(r)/digits(r) for r in {2,8,10,16,36}, ascii::ident, unicode::ident, ascii/unicode keyword, whitespace, inline_whitespace, newline, padded: for every string up to the bound and random Unicode strings the matched prefix (length, content, pointer into the input) and whole-input acceptance must equal the documented language's; &[u8] must agree with &str on ASCII text; regex(p) for 12 patterns (incl. look-behind assertions) at every character position must equal an anchored search at that position.",
      "Trusted: the hand recognisers in harness/src/props/c14.rs; unicode-ident and regex-automata are the same crates chumsky uses (used whole-string / directly), so table errors in those crates are invisible.", "DESIGN §5 C14")
claim("C19", "E5 drop ledger + E7 sanitizer",
      "runtime monitoring: live-instance ledger of drop-tracking values created by mappers at every node (read while the ParseResult is alive and after it is dropped) and of drop-tracking tokens on slice and stream inputs; Miri with leak checking (quick) and ASan+LSan (thorough) on the same drivers",
      "Generated grammars with group([..;N]), tuple groups, collect_exactly::<[_;N]> (repeated and separated_by), Vec/unit repetitions, folds, lookahead, filter/try_map, recovery, memoized x all small inputs, parse and check: while the result is alive the live tracked instances are exactly those reachable from the output (each once); after dropping it none of this parse's values is alive; no instance dropped twice. 11 statically typed grammars over drop-tracked tokens on &[T] (originals stay alive, clones balanced) and Stream (everything balanced once the stream is gone). Includes iterables that ask for more items than the fixed-size collection holds (at_least(k) / exactly(k), k > N).",
      "The ledger stores ids, not addresses, so leaks stay visible to Miri/LSan. A panic's aftermath is not judged (C20). Recursive::declare/define cycles are a documented parser-side leak and are kept out of the leak-checked workload.", "DESIGN §5 C19")
claim("C20", "E6 process + E1 model (step budget) + E7 sanitizer",
      "runtime monitoring: child-process monitor (exit status, signal, per-case CPU-time hang monitor, wall-clock watchdog, re-run in trace mode to name the case), per-case panic capture, logical step budget in an Inspector judged against the reference model's budget, ParseResult-contract assertions, bounds/char-boundary checks on every reported span and returned slice, step-growth monitor on scaling families; Miri (quick) and ASan (thorough) on the text/byte/grapheme drivers",
      "Wrapper saturation (every node of every small grammar wrapped in map_err / labelled / as_context / memoized / 6 recovery forms, pairs of wrappers) x all small inputs x EmptyErr/Rich/Cheap/Simple x parse/check; random grammars of the broadest class on arbitrary Unicode (NUL, combining, ZWJ, astral, noncharacters) and all prefixes, on four input kinds; 14+7+2 statically typed text grammars on arbitrary Unicode strings, arbitrary bytes, truncated UTF-8 and Graphemes; 9 scaling families up to 2^17 (quick) / 2^20 (thorough) bytes; 12 deep nesting / operator-chain families x 4 forms on 1 MiB-stack threads (depth 2.5*10^5 / 10^6); the iterable-parser matrix (10 IterParser sources x admitted adapter stacks x 8 drivers = 280 statically typed parsers x all inputs <= 4).",
      "A hang is decided on logical steps (10^7) or CPU time of a single case (40 s where microseconds are normal), never on wall-clock; the parent's watchdog alone is inconclusive. 'Polynomial' is shown as linear step growth on the listed families only.", "DESIGN §5 C20")

NOT_CLAIMED = {}


def main():
    props = [json.loads(l) for l in open(os.path.join(ROOT, "properties.jsonl"))]
    ids = [p["id"] for p in props]
    checks = []
    na = []
    for pid in ids:
        if pid in CLAIMED:
            c = CLAIMED[pid]
            checks.append({
                "property_id": pid,
                "quick_cmd": f"./check {pid} quick",
                "thorough_cmd": f"./check {pid} thorough",
                "evidence_file": f"evidence/{pid}.json",
                "replay_cmd_template": "./check replay {path}",
                "engine": c["engine"],
                "technique": c["technique"],
                "level_claimed": {"category": "exploration", "text": c["text"], "design_ref": c["ref"]},
                "level_note": c["note"],
            })
        else:
            na.append({"property_id": pid, "reason": NOT_CLAIMED.get(pid, "check under construction (not yet claimed)")})
    hooks_path = os.path.join(ROOT, "hooks.json")
    hooks = json.load(open(hooks_path)) if os.path.exists(hooks_path) else {
        "guard": "chumsky_verif",
        "enable": "none (no hooks in /repo; all observation through public API)",
        "baseline_off_cmd": "cd /repo && cargo test --workspace --no-fail-fast --offline",
        "source_commits": [],
        "add_only": True,
    }
    man = {
        "version": 1,
        "setup_cmd": "./setup.sh",
        "hooks": hooks,
        "engines": [
            {"name": "cvh", "path": "harness/", "serves_properties": sorted(CLAIMED), "kind_free_text": "Rust harness: grammar AST -> real chumsky parsers, reference-model / differential / drop-ledger / process monitors; sanitizer profiles (Miri, ASan, TSan) run the same drivers"},
        ],
        "checks": checks,
        "notes": "Technique family: runtime monitoring and sanitizers. ./check <id> <tier> rebuilds the harness against /repo's working tree and runs the driver; exit 0 held / 1 VIOLATION / 2-3 harness problem (inconclusive).",
        "not_applicable": na,
    }
    json.dump(man, open(os.path.join(ROOT, "MANIFEST.json"), "w"), indent=1)
    print(f"claimed {len(checks)} not_applicable {len(na)}")


if __name__ == "__main__":
    main()
