#!/usr/bin/env python3
import json,glob,os,sys
prop=sys.argv[1]
fs=sorted(glob.glob(f'/verif/replays/{prop}-*.json'),key=os.path.getmtime)
r=json.load(open(fs[-1]))
def show(w,c):
    print('-',w[:int(sys.argv[2]) if len(sys.argv)>2 else 300]); print('    ',c.get('grammar_text'), repr(c.get('input')), c.get('error_type'), c.get('mode'), c.get('kind'))
show(r['what'],r['case'])
for o in r['other_violations']: show(o['what'],o['case'])
